"""Checks decided on the grammar -> analyses -> Pager -> table -> parse pipeline
(C01-C08, C16, C17): trace validation with spec/TraceLR.tla, plus bounded model checking."""
import concurrent.futures
import copy
import json
import os
import random

from . import catalog, core, gen

ALLFLAGS = ["CHK_C01", "CHK_C02", "CHK_C03", "CHK_C04", "CHK_C05", "CHK_C06", "CHK_C07", "CHK_C08", "CHK_C10",
            "CHK_C16", "CHK_C17", "C01_TABLE", "CHK_REPAIRS", "CHK_SPANS", "CHK_LANG", "CHK_LANGSET",
            "CHK_C02PARSE", "REPLAY_PAGER"]

# per property: TLC flags, harness sections, instance families, inputs, sizes
P = {
    "C01": dict(flags=["CHK_C01", "C01_TABLE", "CHK_LANG", "CHK_LANGSET"], sections=["graph", "table", "parses"],
                cat=dict(exclude=["arconf"]), profiles=["mix", "det", "nonlalr", "det", "conflict", "mix"],
                n=dict(quick=160, thorough=6000), recovery="off",
                inputs=dict(allstr_cap=160, allstr_maxlen=5, sentences=8, corrupt=6, maxlen=24, random=3),
                env=dict(LANGL=4), budget_ms=100, corrupt="cell"),
    "C02": dict(flags=["CHK_C02", "CHK_C02PARSE", "REPLAY_PAGER"], sections=["pager", "graph", "table", "parses"],
                cat=dict(exclude=["arconf"]), profiles=["nonlalr", "det", "nonlalr", "mix", "det"],
                n=dict(quick=80, thorough=4000), recovery="off",
                inputs=dict(allstr_cap=120, allstr_maxlen=5, sentences=6, corrupt=6, maxlen=20),
                budget_ms=100, corrupt="pager"),
    "C03": dict(flags=["CHK_C03"], sections=["pager", "graph", "table"], want_pager=True,
                cat=dict(tags=["conflict", "prec", "rr", "arconf"]), profiles=["expr", "conflict", "expr", "mix"],
                n=dict(quick=120, thorough=12000), recovery="off", inputs=dict(), corrupt="cell"),
    "C04": dict(flags=["CHK_C04", "CHK_LANG", "CHK_LANGSET"], sections=["graph", "table", "parses"],
                cat=dict(exclude=["arconf"]), profiles=["det", "nonlalr", "det", "mix"],
                n=dict(quick=80, thorough=4000), recovery="both",
                inputs=dict(allstr_cap=200, allstr_maxlen=5, sentences=2, corrupt=14, maxlen=24, random=4),
                env=dict(LANGL=4), budget_ms=150, corrupt="errlex"),
    "C05": dict(flags=["CHK_C05", "CHK_REPAIRS"], sections=["graph", "table", "parses"],
                cat=dict(tags=["rec", "lr1"]), profiles=["rec", "det", "rec", "mix"],
                n=dict(quick=40, thorough=1200), recovery="on", costs=["one", "rand3", "rand255"],
                inputs=dict(sentences=2, corrupt=22, maxlen=12, max_errors=4, random=4),
                env=dict(MAXC=4), budget_ms=1000, corrupt="recover_out"),
    "C06": dict(flags=["CHK_C06", "CHK_REPAIRS"], sections=["graph", "table", "parses"],
                cat=dict(tags=["rec", "lr1"]), profiles=["rec", "det", "rec", "mix"],
                n=dict(quick=40, thorough=1200), recovery="on", costs=["one", "rand3", "rand255"],
                inputs=dict(sentences=2, corrupt=22, maxlen=12, max_errors=4, random=4),
                env=dict(MAXC=4), budget_ms=1000, corrupt="repair"),
    "C07": dict(flags=["CHK_C07"], sections=["graph", "table", "parses"],
                cat=dict(exclude=["arconf"]), profiles=["rec", "mix", "det", "rec"],
                n=dict(quick=50, thorough=3000), recovery="on", costs=["one", "rand3"],
                inputs=dict(sentences=3, corrupt=20, maxlen=40, max_errors=8, random=4),
                budget_ms=300, corrupt="result"),
    "C08": dict(flags=["CHK_C08", "CHK_SPANS"], sections=["graph", "table", "parses"],
                cat=dict(exclude=["arconf"]), profiles=["mix", "det", "mix", "rec"],
                n=dict(quick=70, thorough=5000), recovery="both",
                inputs=dict(allstr_cap=40, allstr_maxlen=4, sentences=14, corrupt=8, maxlen=24),
                budget_ms=150, corrupt="span"),
    "C16": dict(flags=["CHK_C16"], sections=["graph", "table"],
                cat=dict(exclude=["arconf"]), profiles=["expr", "conflict", "mix", "det", "wild", "nonlalr"],
                n=dict(quick=150, thorough=20000), recovery="off", inputs=dict(), corrupt="view"),
    "C17": dict(flags=["CHK_C17"], sections=["analyses"],
                cat=dict(), profiles=["wild", "mix", "wild", "det", "conflict"],
                n=dict(quick=250, thorough=6000), recovery="off", costs=["one", "rand3", "rand255"], inputs=dict(),
                budget_ms=100, corrupt="follow"),
}


def instances(pid, tier, seed):
    cfg = P[pid]
    out = []
    for c in catalog.select(**cfg["cat"]):
        out.append(dict(id=c["id"], y=c["y"], kind=c["kind"], explicit=c["explicit"]))
        if "costs" in c:
            out[-1]["costs"] = c["costs"]
    out += gen.family(seed * 7919 + hash(pid) % 1000 if False else seed * 7919 + int(pid[1:]), cfg["n"][tier], cfg["profiles"])
    rng = random.Random(seed * 31 + int(pid[1:]))
    jobs = []
    for i, g in enumerate(out):
        inp = dict(cfg["inputs"])
        inp["explicit"] = g.get("explicit", [])
        costs = cfg.get("costs", ["one"])
        jobs.append(dict(id=g["id"], y=g["y"], kind=g["kind"], width=32, sections=cfg["sections"], inputs=inp,
                         recovery=cfg["recovery"], costs=g.get("costs", costs[i % len(costs)]), iseed=rng.randrange(1 << 40),
                         budget_ms=cfg.get("budget_ms", 2000)))
    return jobs


def split_trace(path):
    """-> list of (instance id, [lines])"""
    insts = []
    with open(path) as f:
        for line in f:
            if line.startswith('{"ev":"reset"'):
                insts.append((json.loads(line)["id"], [line]))
            elif insts:
                insts[-1][1].append(line)
    return insts


def corrupt_trace(lines, how):
    """Binding self-test: damage one recorded field (or drop one hook event); the trace
    specification must notice.  Returns the damaged lines or None if not applicable."""
    L = [json.loads(x) for x in lines]
    done = False
    for i, e in enumerate(L):
        ev = e.get("ev")
        if how == "cell" and ev == "table":
            for s, row in enumerate(e["act"]):
                for t, a in enumerate(row):
                    if a[0] in ("s", "r"):
                        row[t] = ["e", 0]
                        done = True
                        break
                if done:
                    break
        elif how == "view" and ev == "table":
            for s, row in enumerate(e["sa"]):
                if row:
                    row.pop()
                    done = True
                    break
        elif how == "pager" and ev in ("merge", "exact"):
            del L[i]
            done = True
        elif how == "follow" and ev == "analyses":
            for row in e["follow"]:
                if row:
                    row.pop()
                    done = True
                    break
        elif ev == "parse":
            for run in e["runs"]:
                if "act" not in run:
                    continue
                if how == "span" and run["act"]["events"]:
                    run["act"]["events"][0]["span"][1] += 1
                    done = True
                elif how == "errlex" and run["act"]["errors"]:
                    run["act"]["errors"][0]["lexeme"][1] += 1
                    done = True
                elif how == "repair" and run["act"]["errors"] and len(run["act"]["errors"][0]["repairs"]) > 1:
                    run["act"]["errors"][0]["repairs"].pop()
                    done = True
                elif how == "recover_out" and run["act"]["hook"]:
                    run["act"]["hook"][1]["pstack"].append(0)
                    done = True
                elif how == "result" and run["act"]["result"] >= 0 and run["act"]["errors"]:
                    run["act"]["result"] = -1
                    done = True
                if done:
                    break
        if done:
            break
    if not done:
        return None
    return [json.dumps(x) + "\n" for x in L]


def tlc_env(pid, trace, extra=None):
    env = {f: "0" for f in ALLFLAGS}
    for f in P[pid]["flags"]:
        env[f] = "1"
    env["MAXC"] = "6"
    env["LANGL"] = "4"
    env.update({k: str(v) for k, v in P[pid].get("env", {}).items()})
    if extra:
        env.update(extra)
    env["TRACE"] = trace
    return env


def validate_chunk(pid, wd, idx, chunk, timeout):
    """Run TLC over the concatenated traces of `chunk` (list of (id, lines))."""
    path = os.path.join(wd, "trace-%d.ndjson" % idx)
    with open(path, "w") as f:
        for _, lines in chunk:
            f.writelines(lines)
    nlines = sum(len(l) for _, l in chunk)
    r = core.run_tlc("TraceLR", "TraceLR.cfg", tlc_env(pid, path), wd, timeout=timeout, workers=1, heap="3g")
    tup = core.tuples(r["out"])
    devs = [core.parse_dev(t) for t in tup if '"DEV"' in t[:12]]
    done = [t for t in tup if '"DONE"' in t[:12]]
    consumed = None
    if done:
        m = done[-1].replace("<<", "").replace(">>", "").split(",")
        consumed = int(m[1])
    return dict(r=r, devs=devs, consumed=consumed, nlines=nlines, path=path, chunk=chunk)


def run(pid, tier, replay=None):
    res = core.Result(pid, "model_checking", tier)
    seed = core.seed()
    cfg = P[pid]
    if replay:
        with open(replay) as f:
            rp = json.load(f)
        jobs = [rp["instance"]]
    else:
        jobs = instances(pid, tier, seed)
    byid = {j["id"]: j for j in jobs}
    jobfile = os.path.join(res.wd, "jobs.json")
    with open(jobfile, "w") as f:
        json.dump(dict(seed=seed, instances=jobs, workers=max(2, core.NCPU - 4)), f)
    trace = os.path.join(res.wd, "trace.ndjson")
    import time as _t
    t0 = _t.time()
    core.run_vh(["lr", jobfile, trace], timeout=3600)
    res.notes["harness_s"] = round(_t.time() - t0, 1)
    insts = split_trace(trace)
    res.notes["instances"] = len(insts)
    res.notes["instance_sources"] = dict(catalogue=sum(1 for i, _ in insts if i.startswith("cat-")),
                                         random=sum(1 for i, _ in insts if i.startswith("rnd")))
    res.notes["trace_lines"] = sum(len(l) for _, l in insts)
    nparse = 0
    for _, lines in insts:
        nparse += sum(1 for x in lines if x.startswith('{"budget_ms"') or '"ev":"parse"' in x[:200])
    res.notes["parse_events"] = nparse

    # binding self-test on the first instance that the corruption applies to
    if not replay:
        st = None
        for iid, lines in insts[:40]:
            bad = corrupt_trace(lines, cfg["corrupt"])
            if bad:
                v = validate_chunk(pid, res.wd, 9000, [(iid, bad)], 300)
                st = dict(instance=iid, corruption=cfg["corrupt"], deviations=len(v["devs"]),
                          rejected=len(v["devs"]) > 0 or v["consumed"] != v["nlines"])
                break
        res.notes["binding_selftest"] = st
        if st is not None and not st["rejected"]:
            raise core.ToolError("binding self-test failed: corrupted trace accepted (%s)" % st)

    nchunks = 1 if replay else min(core.NCPU - 2 if tier == "thorough" else 6, max(1, len(insts) // 4))
    chunks = [insts[i::nchunks] for i in range(nchunks)]
    timeout = 3000 if tier == "thorough" else 800
    with concurrent.futures.ThreadPoolExecutor(max_workers=nchunks) as ex:
        results = list(ex.map(lambda a: validate_chunk(pid, res.wd, a[0], a[1], timeout), enumerate(chunks)))
    for v in results:
        res.add_tlc(v["r"])
        chunk = v["chunk"]
        for d in v["devs"]:
            res.deviation(d, dict(instance=byid.get(d["inst"]), seed=seed))
        if v["consumed"] == v["nlines"]:
            res.cov["traces_validated_against_impl"] += len(chunk)
        else:
            # the trace was not consumed to the end: TLC stopped (evaluation error = the recorded
            # behaviour is not explainable by the specification) or timed out
            if v["r"]["timeout"]:
                res.cov["inconclusive"] += len(chunk)
                print("note: TLC timed out on a chunk of %d instances (counted inconclusive)" % len(chunk))
            else:
                # find the instance at which TLC stopped: the last DEV/progress is unreliable, so
                # re-validate instance by instance
                for iid, lines in chunk:
                    one = validate_chunk(pid, res.wd, 5000, [(iid, lines)], 300)
                    res.add_tlc(one["r"])
                    if one["consumed"] == one["nlines"]:
                        res.cov["traces_validated_against_impl"] += 1
                    elif one["r"]["timeout"]:
                        res.cov["inconclusive"] += 1
                    else:
                        res.violation("%s [%s] trace rejected by the specification: %s" % (
                            pid, iid, (one["r"]["error"] or "not all events consumed")[:300]),
                            dict(instance=byid.get(iid), seed=seed))
    for iid, lines in insts[:3]:
        res.sample(dict(instance=iid, grammar=byid[iid]["y"] if iid in byid else None,
                        first_events=[json.loads(x).get("ev") for x in lines[:8]]))
    return res


MC_SETS = {
    ("C02", "quick"): ["cat-nonlalr1", "cat-late-merge", "cat-calc", "cat-closure-requeue"],
    ("C02", "thorough"): ["cat-nonlalr1", "cat-nonlalr2", "cat-late-merge", "cat-calc", "cat-closure-requeue", "cat-closure-requeue2",
                          "cat-pager", "cat-nullable-chain", "cat-empty-positions", "cat-left-right-rec", "cat-corchuelo", "cat-nullable-late2"],
    ("C01", "quick"): ["cat-nullable-chain", "cat-empty-positions", "cat-nullable-late1"],
    ("C01", "thorough"): ["cat-nullable-chain", "cat-empty-positions", "cat-nullable-late1", "cat-nullable-late2", "cat-calc", "cat-left-right-rec",
                          "cat-corchuelo", "cat-closure-requeue", "cat-closure-requeue2", "cat-list-sep"],
}


def mc_pager(res, pid, tier):
    """bounded model: Pager under every successor order -> table -> all inputs up to length L"""
    ids = MC_SETS[(pid, tier)]
    insts = [dict(id=c["id"], y=c["y"], kind=c["kind"], width=32, sections=[], inputs={}, recovery="off", iseed=1, budget_ms=100)
             for c in catalog.CAT if c["id"] in ids]
    jf = os.path.join(res.wd, "mc-job.json")
    of = os.path.join(res.wd, "mc-out.ndjson")
    gf = os.path.join(res.wd, "mc-grammars.ndjson")
    with open(jf, "w") as f:
        json.dump(dict(seed=1, instances=insts, workers=4), f)
    core.run_vh(["lr", jf, of])
    with open(gf, "w") as f:
        for line in open(of):
            if '"ev":"grammar"' in line:
                f.write(line)
    # C02 is about merging (conflicts, number of states): many grammars, short inputs; C01 is
    # about the language: fewer grammars, longer inputs
    L = (4 if tier == "quick" else 5) if pid == "C01" else (4 if tier == "quick" else 3)
    cfg = os.path.join(res.wd, "MC_Pager.cfg")
    body = "SPECIFICATION Spec\nCONSTANTS\n  MergeMode = \"%s\"\n  L = %d\n  ParseAtLeast = 3\n  TryParseAtMost = 250\n" \
           "INVARIANT ClosedOK\nINVARIANT NotMoreStates\nINVARIANT NoNewConflict\nINVARIANT LanguageOK\nCHECK_DEADLOCK FALSE\n"
    if pid == "C02":
        # merging is C02's subject (closure, number of states, no new conflict); the language of
        # the resulting table is C01's
        body = body.replace("INVARIANT LanguageOK\n", "")
    with open(cfg, "w") as f:
        f.write(body % ("pager", L))
    r = core.run_tlc("MC_Pager", cfg, dict(GRAMMARS=gf), res.wd, timeout=3000, workers=12 if tier == "thorough" else 8, heap="10g")
    res.add_tlc(r)
    res.notes["mc_pager"] = dict(grammars=ids, distinct=r["distinct"], input_length=L,
                                 what="Pager.tla under every successor-processing order; in every final state: closed = Closure(core), "
                                      "|states| <= |canonical LR(1)|, no conflict if LR(1), and the Yacc table of the model automaton accepts "
                                      "exactly the sentences of length <= L / rejects at the first non-prefix")
    if r["error"]:
        res.violation("bounded model MC_Pager.tla: " + r["error"][:500], dict(kind="mc", grammars=ids))
    elif not r["finished"]:
        res.cov["inconclusive"] += 1
    if pid == "C02":
        # vacuity: merging by core alone (LALR) must be refuted on the LR(1)-but-not-LALR(1) family
        cfg2 = os.path.join(res.wd, "MC_Pager_lalr.cfg")
        with open(cfg2, "w") as f:
            f.write(body % ("lalr", 2))
        gf2 = os.path.join(res.wd, "mc-grammars-nonlalr.ndjson")
        with open(gf2, "w") as f:
            for line, inst in zip(open(gf), insts):
                if "nonlalr" in inst["id"] or "late-merge" in inst["id"]:
                    f.write(line)
        r2 = core.run_tlc("MC_Pager", cfg2, dict(GRAMMARS=gf2), res.wd, timeout=900, workers=4, heap="4g")
        res.notes["mc_mutation_sanity"] = dict(refuted=bool(r2["error"]), what="weak compatibility replaced by 'same core'")
        if not r2["error"]:
            raise core.ToolError("vacuity: LALR merging was not refuted by MC_Pager")


MC_CPCT_SETS = {"quick": (["cat-calc", "cat-rec-merge-del-ins", "cat-rec-avoid-second"], 3, 3),
                "thorough": (["cat-calc", "cat-rec-merge-del-ins", "cat-rec-merge-del-ins2", "cat-rec-avoid-second", "cat-nonlalr1",
                              "cat-late-merge", "cat-closure-requeue", "cat-dangling-else", "cat-nullable-chain"], 4, 4)}


def mc_cpct(res, pid, tier):
    """bounded model of the CPCT+ algorithm (cost buckets, node merging, first-success cut-off and
    sweep, unfolding, ranking) against the exhaustive reference search, every erroneous input up to
    length L of every grammar in the set; plus two wrong algorithms that must be refuted"""
    ids, L, maxc = MC_CPCT_SETS[tier]
    insts = [dict(id=c["id"], y=c["y"], kind=c["kind"], width=32, sections=[], inputs={}, recovery="off", iseed=1, budget_ms=100)
             for c in catalog.CAT if c["id"] in ids]
    jf = os.path.join(res.wd, "mcc-job.json")
    of = os.path.join(res.wd, "mcc-out.ndjson")
    gf = os.path.join(res.wd, "mcc-grammars.ndjson")
    with open(jf, "w") as f:
        json.dump(dict(seed=1, instances=insts, workers=4), f)
    core.run_vh(["lr", jf, of])
    with open(gf, "w") as f:
        for line in open(of):
            if '"ev":"grammar"' in line:
                f.write(line)
    body = "SPECIFICATION Spec\nCONSTANTS\n  L = %d\n  MAXC = %d\n  Variant = \"%s\"\n  ParseAtLeast = 3\n  TryParseAtMost = 250\n" \
           "INVARIANT MergeSound\nINVARIANT RepairsRepair\nINVARIANT AlgEqualsRef\nINVARIANT CostsAgree\nINVARIANT Minimal\nINVARIANT Progress\n" \
           "CHECK_DEADLOCK FALSE\n"
    cfg = os.path.join(res.wd, "MC_CPCT.cfg")
    with open(cfg, "w") as f:
        f.write(body % (L, maxc, "code"))
    r = core.run_tlc("MC_CPCT", cfg, dict(GRAMMARS=gf), res.wd, timeout=3000, workers=12 if tier == "thorough" else 8, heap="10g")
    res.add_tlc(r)
    res.notes["mc_cpct"] = dict(grammars=ids, distinct=r["distinct"], input_length=L, max_cost=maxc,
                                what="CPCT+ as coded (buckets, merging of compatible nodes, stop at first success + sweep, unfold, rank, strip) "
                                     "under every choice of the node that ends the search phase, against RefRepairs; invariants MergeSound, "
                                     "RepairsRepair, AlgEqualsRef, CostsAgree, Minimal, Progress")
    if r["error"]:
        res.violation("bounded model MC_CPCT.tla: " + r["error"][:500], dict(kind="mc", grammars=ids))
    elif not r["finished"]:
        res.cov["inconclusive"] += 1
    refuted = {}
    for variant in ("nodel", "nosweep"):
        cfg2 = os.path.join(res.wd, "MC_CPCT_%s.cfg" % variant)
        with open(cfg2, "w") as f:
            f.write(body % (3, 3, variant))
        r2 = core.run_tlc("MC_CPCT", cfg2, dict(GRAMMARS=gf), res.wd, timeout=900, workers=4, heap="4g")
        refuted[variant] = bool(r2["error"])
    res.notes["mc_cpct_mutation_sanity"] = refuted
    if not all(refuted.values()):
        raise core.ToolError("vacuity: a deliberately wrong CPCT+ variant was not refuted by MC_CPCT: %s" % refuted)


MC_RECOVER_SETS = {"quick": (["cat-calc"], 5, 3), "thorough": (["cat-calc", "cat-list-sep", "cat-rec-merge-del-ins"], 6, 3)}


def mc_recover(res, pid, tier):
    """bounded model of the parse loop with error recovery (MC_Recover.tla): every input up to
    length L, every choice among the minimum-cost repairs at every error"""
    ids, L, maxops = MC_RECOVER_SETS[tier]
    insts = [dict(id=c["id"], y=c["y"], kind=c["kind"], width=32, sections=[], inputs={}, recovery="off", iseed=1, budget_ms=100)
             for c in catalog.CAT if c["id"] in ids]
    jf = os.path.join(res.wd, "mcr-job.json")
    of = os.path.join(res.wd, "mcr-out.ndjson")
    gf = os.path.join(res.wd, "mcr-grammars.ndjson")
    with open(jf, "w") as f:
        json.dump(dict(seed=1, instances=insts, workers=4), f)
    core.run_vh(["lr", jf, of])
    with open(gf, "w") as f:
        for line in open(of):
            if '"ev":"grammar"' in line:
                f.write(line)
    body = "SPECIFICATION Spec\nCONSTANTS\n  L = %d\n  MAXOPS = %d\n  Gap = 3\n  ParseAtLeast = %d\n  TryParseAtMost = 250\n" \
           "INVARIANT NoLoop\nINVARIANT Increasing\nINVARIANT Bounded\nINVARIANT AllButLastRepaired\nINVARIANT Outcome\nINVARIANT NoBackwards\n" \
           "INVARIANT AcceptedUnchanged\nINVARIANT FirstErrorEarliest\nCHECK_DEADLOCK FALSE\n"
    cfg = os.path.join(res.wd, "MC_Recover.cfg")
    with open(cfg, "w") as f:
        f.write(body % (L, maxops, 3))
    r = core.run_tlc("MC_Recover", cfg, dict(GRAMMARS=gf), res.wd, timeout=3000, workers=12 if tier == "thorough" else 8, heap="10g")
    res.add_tlc(r)
    res.notes["mc_recover"] = dict(grammars=ids, distinct=r["distinct"], input_length=L,
                                   what="the parse loop with recovery as a state machine (Parse / Recover with ANY minimum-cost repair applied): "
                                        "no loop, errors >= 3 lexemes apart and bounded in number, all but the last repaired, value iff all repaired, "
                                        "accepted-unchanged inputs are sentences, first error at the first non-prefix")
    if r["error"]:
        res.violation("bounded model MC_Recover.tla: " + r["error"][:500], dict(kind="mc", grammars=ids))
    elif not r["finished"]:
        res.cov["inconclusive"] += 1
    cfg2 = os.path.join(res.wd, "MC_Recover_n2.cfg")
    with open(cfg2, "w") as f:
        f.write(body % (5, maxops, 2))
    r2 = core.run_tlc("MC_Recover", cfg2, dict(GRAMMARS=gf), res.wd, timeout=900, workers=4, heap="4g")
    res.notes["mc_recover_mutation_sanity"] = dict(refuted=bool(r2["error"]), what="success after 2 shifts instead of 3")
    if not r2["error"]:
        raise core.ToolError("vacuity: a recovery that succeeds after 2 shifts was not refuted by MC_Recover")


def mc_statetable(res, pid, tier):
    """bounded model: the cell-filling algorithm under every order of the candidate reductions
    against Yacc's rules (StateTable.YaccCell), on the canonical automata of the conflict grammars"""
    insts = [dict(id=c["id"], y=c["y"], kind=c["kind"], width=32, sections=[], inputs={}, recovery="off", iseed=1, budget_ms=100)
             for c in catalog.CAT if set(c["tags"]) & {"conflict", "conflicts", "prec", "rr", "arconf"} and c["kind"] != "eco"]
    jf = os.path.join(res.wd, "mcs-job.json")
    of = os.path.join(res.wd, "mcs-out.ndjson")
    gf = os.path.join(res.wd, "mcs-grammars.ndjson")
    with open(jf, "w") as f:
        json.dump(dict(seed=1, instances=insts, workers=4), f)
    core.run_vh(["lr", jf, of])
    n = 0
    with open(gf, "w") as f:
        for line in open(of):
            if '"ev":"grammar"' in line:
                f.write(line)
                n += 1
    cfg = os.path.join(res.wd, "MC_StateTable.cfg")
    with open(cfg, "w") as f:
        f.write("SPECIFICATION Spec\nCONSTANTS\n  ParseAtLeast = 3\n  TryParseAtMost = 250\nINVARIANT Inv\nCHECK_DEADLOCK FALSE\n")
    r = core.run_tlc("MC_StateTable", cfg, dict(GRAMMARS=gf), res.wd, timeout=1800, workers=8, heap="8g")
    res.add_tlc(r)
    res.notes["mc_statetable"] = dict(grammars=n, distinct=r["distinct"],
                                      what="every state x token of the canonical automaton x every order of the candidate reductions, then the shift: "
                                           "final action = YaccCell, accept/reduce clash detected in any order, |rr| = |candidates| - 1, sr iff default-resolved")
    if r["error"]:
        res.violation("bounded model MC_StateTable.tla: " + r["error"][:500], dict(kind="mc"))
    elif not r["finished"]:
        res.cov["inconclusive"] += 1
    # vacuity guard: an order-dependent reduce/reduce rule ("the candidate met last wins") must be refuted
    r2 = core.run_tlc("MC_StateTable", cfg, dict(GRAMMARS=gf, VARIANT="lastwins"), res.wd, timeout=900, workers=4, heap="4g")
    res.notes["mc_statetable_mutation_sanity"] = dict(variant="lastwins", refuted=bool(r2["error"]))
    if not r2["error"] and not res.violations:
        raise core.ToolError("vacuity: the order-dependent reduce/reduce rule was not refuted by MC_StateTable")


def main(pid, tier, replay=None):
    res = run(pid, tier, replay)
    if pid == "C03" and not replay:
        mc_statetable(res, pid, tier)
    if pid == "C07" and not replay:
        mc_recover(res, pid, tier)
    if pid in ("C01", "C02") and not replay:
        mc_pager(res, pid, tier)
    if pid == "C01" and not replay:
        # the compile-time route: the parser a build leaves in place over a used output directory is
        # the parser of the CURRENT grammar (shared with C18: lib/p_ct.py, TraceCT.tla)
        from . import p_ct
        p_ct.run(res, "C01", tier)
    if pid in ("C05", "C06") and not replay:
        mc_cpct(res, pid, tier)
    if pid == "C03" and not replay:
        # "a compile-time build fails iff the counts differ from %expect / %expect-rr": build
        # histories over grammars with and without conflicts and declarations, validated against
        # CTBuild.tla's ExpectOK
        from . import p_ct
        p_ct.run(res, "C03", tier)
        p_ct.deprecated_entry(res, "C03")
    res.assumptions += ["the harness reports faithfully what the public API / hooks return",
                        "TLC evaluates the specification correctly",
                        "bounds: instance families and input lengths as listed under coverage"]
    return res.finish()
