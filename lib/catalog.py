"""The committed catalogue of grammars (CAT in DESIGN.md section 4)."""

CAT = []


def add(id, y, kind="original", tags=(), inputs=(), costs=None):
    CAT.append(dict(id="cat-" + id, y=y, kind=kind, tags=list(tags), explicit=[list(x.split()) for x in inputs]))
    if costs is not None:
        CAT[-1]["costs"] = costs        # explicit token costs, by token index


add("calc", """%start Expr
%%
Expr: Expr '+' Term | Term;
Term: Term '*' Factor | Factor;
Factor: '(' Expr ')' | 'INT';
""", tags=["lr1", "rec"], inputs=["INT + INT", "INT + + INT", "( INT + INT", "INT INT", "INT + INT )", "( ( INT",
                                    "INT + * INT ) INT", "", "( ( INT ) ) )", "( ( INT ) )", "( ( ( INT ) ) + INT ) )", "( INT ) )"])

add("calc-avoid", """%start Expr
%avoid_insert 'INT'
%%
Expr: Expr '+' Term | Term;
Term: Term '*' Factor | Factor;
Factor: '(' Expr ')' | 'INT';
""", tags=["lr1", "rec"], inputs=["INT + + INT", "( INT", "INT + * INT"])

add("dangling-else", """%start S
%%
S: 'if' 'e' 'then' S | 'if' 'e' 'then' S 'else' S | 'x';
""", tags=["conflict"], inputs=["if e then if e then x else x", "if e then x", "if e x"])

add("dangling-else-expect", """%start S
%expect 1
%%
S: 'if' 'e' 'then' S | 'if' 'e' 'then' S 'else' S | 'x';
""", tags=["conflict"])

add("pager", """%start X
%%
X : 'a' Y 'd' | 'a' Z 'c' | 'a' T | 'b' Y 'e' | 'b' Z 'd' | 'b' T;
Y : 't' W | 'u' X;
Z : 't' 'u';
T : 'u' X 'a';
W : 'u' V;
V : ;
""", tags=["lr1", "pager"], inputs=["a t u d", "b t u d", "a u a t u d a", "a t u e"])

add("nonlalr1", """%start S
%%
S: 'a' A 'd' | 'b' B 'd' | 'a' B 'e' | 'b' A 'e';
A: 'c';
B: 'c';
""", tags=["lr1", "nonlalr"], inputs=["a c d", "b c d", "a c e", "b c e", "a c", "b c c"])

add("nonlalr2", """%start S
%%
S: 'a' A 'd' | 'b' B 'd' | 'a' B 'e' | 'b' A 'e' | 'f' S;
A: 'c' C;
B: 'c' C;
C: | 'g' C;
""", tags=["lr1", "nonlalr"], inputs=["a c d", "f f b c g g e", "a c g d", "b c e e"])

add("late-merge", """%start S
%%
S: 'a' X 'a' | 'b' X 'b' | 'a' Y 'b' | 'b' Y 'a';
X: 'c' X | 'c';
Y: 'c' Y | 'c';
""", tags=["lr1", "nonlalr"], inputs=["a c c a", "b c b", "a c c c b", "b c a"])

add("nullable-chain", """%start S
%%
S: A B C 'x';
A: | 'a';
B: | 'b' A;
C: | 'c' | B 'd';
""", tags=["nullable"], inputs=["x", "a x", "b a c x", "a b d x", "c x x"])

add("empty-positions", """%start S
%%
S: 'y' A | B 'z' | 'w' C 'w';
A: E 'x';
B: 'x' E;
C: E;
E: ;
""", tags=["nullable", "span"], inputs=["y x", "x z", "w w", "y", "w x w"])

add("nullable-late1", """%start T
%%
T: X S;
X: ;
S: A 'b';
A: B B;
B: ;
""", tags=["nullable", "lr1"], inputs=["b", ""])

add("nullable-late2", """%start S
%%
S: A 'x' | 'y' A C 'z';
A: B;
C: A A;
B: ;
""", tags=["nullable", "lr1"], inputs=["x", "y z", "y"])

add("closure-requeue", """%start S
%%
S: A 'x' | B 'y';
A: C;
C: D;
D: 'd';
B: C;
""", tags=["lr1"], inputs=["d x", "d y", "d"])

add("closure-requeue2", """%start S
%%
S: A 'x' | C;
A: B;
C: A 'y';
B: 'b';
""", tags=["lr1"], inputs=["b x", "b y", "b"])

add("follow-nullable", """%start S
%%
S: B C 'd';
C: | 'c';
B: 'b';
""", tags=["nullable"], inputs=["b d", "b c d", "b"])

add("unit-cycle", """%start A
%%
A: B;
B: A | 'x';
""", tags=["cyclic"], inputs=["x"])

add("self-cycle", """%start A
%%
A: A | 'x' | A 'y';
""", tags=["cyclic"], inputs=["x", "x y"])

add("unproductive", """%start S
%%
S: 'a' | U 'b';
U: U 'c';
""", tags=["unproductive"], inputs=["a", "b"])

add("unreachable", """%start S
%%
S: 'a' S | ;
R: S 'b' | 'c';
""", tags=["unreachable"], inputs=["a a", "a b"])

add("rr-three", """%start S
%%
S: A 'x' | B 'x' | C 'x';
A: 'a';
B: 'a';
C: 'a';
""", tags=["conflict", "rr"], inputs=["a x"])

add("rr-sr", """%start S
%%
S: A | B | S 'a';
A: 'a' | ;
B: 'a' | ;
""", tags=["conflict", "rr"], inputs=["a", "a a", ""])

add("nonassoc", """%start E
%nonassoc '='
%left '+'
%%
E: E '=' E | E '+' E | 'n';
""", tags=["conflict", "prec"], inputs=["n = n", "n = n = n", "n + n = n + n", "n + n + n"])

add("prec-matrix", """%start E
%left '+' '-'
%left '*'
%right '^'
%nonassoc '<'
%%
E: E '+' E | E '-' E | E '*' E | E '^' E | E '<' E | '-' E %prec '*' | 'n';
""", tags=["conflict", "prec"], inputs=["n + n * n", "n ^ n ^ n", "n < n < n", "- n ^ n", "n - - n"])

add("prec-last-token", """%start E
%left 'a'
%right 'b'
%%
E: E 'a' E 'b' | E 'b' E | 'n' | E 'a';
""", tags=["conflict", "prec"], inputs=["n a n b", "n b n b n", "n a a"])

add("accept-reduce", """%start S
%%
S: S | 'a';
""", tags=["cyclic", "arconf"])

add("corchuelo", """%start E
%%
E : 'N' | E '+' 'N' | '(' E ')';
""", tags=["lr1", "rec"], inputs=["( N", "N + + N", "( ( N )", "N )", "+ N"])

add("left-right-rec", """%start S
%%
S: L | R;
L: L 'l' | 'l';
R: 'r' R | 'r';
""", tags=["lr1"], inputs=["l l l", "r r", "l r"])

add("list-sep", """%start L
%%
L: | I | L ',' I;
I: 'i' | '[' L ']';
""", tags=["conflict", "rec"], inputs=["i , i", "[ i , [ ] ]", "[ i", "i , , i", "] i"])

add("stmts", """%start P
%%
P: | P S;
S: 'id' '=' E ';' | 'if' '(' E ')' S | '{' P '}';
E: E '+' T | T;
T: 'id' | 'num' | '(' E ')';
""", tags=["lr1", "rec"], inputs=["id = num ;", "id = num + ; id = id ;", "{ id = num ; ", "if ( id S", "id = ( num + id ;",
                                    "id = num ; } id = num ;"])

add("eco-implicit", """%start S
%implicit_tokens 'ws' 'nl'
%%
S: 'a' S | 'b';
""", kind="eco", tags=["eco"], inputs=["a b", "ws a nl b ws"])

add("grmtools-kind", """%start S
%%
S -> u32: 'a' S { 0 } | 'b' { 1 };
""", kind="grmtools", tags=["lr1"], inputs=["a a b", "a"])

# grammars on which Pager's construction leaves unreachable states behind (gc() has real work):
# found by tools/gcsearch.py over 24 000 seeded-random grammars
add("gc0", "%start S\n%avoid_insert 'a'\n%%\nS: 'd' 'd' 'b' | 'a' 'a' C;\nA: 'a' C | D | 'c' 'b';\nB: D 'd' | D 'b' | 'b';\nC: S | 'a' S 'c' | 'b' D | 'a' 'd';\nD: 'd' S C | 'b' 'a' S | 'a';\n", tags=["gc"])
add("gc1", "%start S\n%left 'a'\n%nonassoc 'b'\n%left 'c'\n%avoid_insert 'b' 'c'\n%%\nS: B 'a' | 'a';\nA:  | 'c' | 'a' 'a' C;\nB: C A | 'b' 'a' A | C 'b' 'b' | 'c';\nC: 'b' C | 'c' | A 'c' B;\n", tags=["gc"])
add("gc2", "%start S\n%avoid_insert 'a'\n%%\nS: 'b' 'b' A | 'c' 'a';\nA: 'b' S 'a' | S | 'b';\n", tags=["gc"])
add("gc3", "%start S\n%%\nS: 'a' 'a' S | A S 'a' | ;\nA: B 'b' B | 'a' 'a' B S | ;\nB: B |  | 'a' 'b';\n", tags=["gc"])
add("gc4", "%start S\n%left 'a' 'c'\n%%\nS:  %prec 'c' | 'c' 'c' B %prec 'c';\nA: 'c' %prec 'a' | S 'a' B;\nB: 'c' %prec 'c' |  | S B %prec 'c' | S 'c' A;\n", tags=["gc"])
add("gc5", "%start S\n%%\nS: S S A | B 'b' A | 'b' 'c' S | 'a' 'c';\nA: 'c' A | 'c' | A C 'a';\nB: A 'c' C | 'b' 'a' 'a' | ;\nC: 'c' 'c' C C | ;\n", tags=["gc"])
add("gc6", "%start S\n%left 'a'\n%%\nS: 'b' B | 'b' A | ;\nA: 'b' 'b' S | 'b' | 'a' A A;\nB: 'a' S | S 'a' | 'b';\n", tags=["gc"])
add("gc7", "%start S\n%%\nS: 'a' A | 'a';\nA: 'a' 'a' S A | 'a' S | 'a' 'a';\n", tags=["gc"])
add("gc8", "%start S\n%%\nS: 'c' A | 'd' 'a' B | 'c' 'a' B 'c' | ;\nA: A C C 'b' | 'd' A | 'b' 'c' D 'd' | 'a' 'd';\nB: D 'a' 'd' 'c' | D | S | 'b' 'b';\nC: 'a' 'c' A;\nD: A C | C S | ;\n", tags=["gc"])

# a state with three distinct (rule, length) reductions: core_reduces must list all three
add("core-reduces3", "%start S\n%%\nS: A 'x' | B 'y' | C 'z' | D D 'w';\nA: 'a';\nB: 'a';\nC: 'a';\nD: ;\n", tags=["lr1"], inputs=["a x", "a y", "a z", "w", "a"])
# one state completes two productions of the SAME rule with different lengths (disjoint lookaheads)
add("core-reduces-samerule", "%start S\n%%\nS: E 'p' | 'a' E 'q';\nE: 'a' B | B;\nB: 'b';\n", tags=["lr1"], inputs=["a b p", "a b q", "a a b q", "b p", "a b"])
add("core-reduces4", "%start S\n%%\nS: 'q' A 'x' | 'q' B 'y' | 'q' C 'z' | 'q' E 'v';\nA: 'a' 'b';\nB: 'a' 'b';\nC: 'a' 'b';\nE: 'a' 'b';\n", tags=["lr1"], inputs=["q a b x", "q a b v", "q a b"])

# two partial repairs of equal cost, one ending in a delete and one in an insert, reach the same
# stack and position and a further insert is still needed: they must NOT be merged (both token orders)
add("rec-merge-del-ins", "%start S\n%%\nS: 'a' Opt 't' 'z' 'c';\nOpt: | 'u' 'b';\n", tags=["rec"],
    inputs=["a b c", "a b z c", "a c", "a b", "a u c", "a t c", "b c", "a b b c"])
add("rec-merge-del-ins2", "%start S\n%%\nOpt: | 'u' 'b';\nS: 'a' Opt 't' 'z' 'c';\n", tags=["rec"],
    inputs=["a b c", "a b z c", "a c", "a b", "a u c", "a t c", "b c", "a b b c"])
# after inserting 'p z' or 'q z' the stacks are equally deep and end in the same state but differ
# below it: only one of the two repairs (search nodes must compare the whole stack)
add("rec-same-top-state", "%start S\n%%\nS: 'p' T 'u' 'k' 'k' 'k' | 'q' T 'v' 'k' 'k' 'k';\nT: 'z' 'w';\n", tags=["rec"],
    inputs=["w v k k k", "w u k k k", "z w v k k k", "p z w v k k k", "w k k k"])
# a shift/reduce conflict settled by precedence in favour of the REDUCE, in a state entered by a
# token shift: the token still has an action there and must be tried as an insert
add("rec-prec-reduce-insert", "%start S\n%left 'b'\n%left 'a'\n%%\nS: A 'b' 'c' | 'a' 'b' 'd';\nA: 'a';\n", tags=["rec", "prec"],
    inputs=["a b c", "a c", "a d", "a b", "a"])
add("rec-prec-reduce-insert2", "%start S\n%left 'b'\n%left 'a'\n%%\nS: A 'b' 'c' | 'a' 'b' 'd' | 'a' 'e' 'e' 'c';\nA: 'a';\n", tags=["rec", "prec"],
    inputs=["a c", "a e c", "a b c"])
# an avoided token inserted after a non-avoided one: the sequence still ranks behind the others
add("rec-avoid-second", "%start X\n%avoid_insert 'q'\n%%\nX: 'p' 'q' | 'r' 's' 'w';\n", tags=["rec"],
    inputs=["", "p", "r", "q", "w", "s w", "r w", "p w"], costs=[1, 2, 1, 1, 1, 1])
add("rec-avoid-second2", "%start X\n%avoid_insert 'q' 'k'\n%%\nX: 'm' 'p' 'q' 'z' | 'm' 'r' 's' 'w' 'z' | 'm' 'k' 'j' 'z';\n", tags=["rec"],
    inputs=["m z", "m", "z", "m w z", "m q z", "m j z", "m p z"], costs=[1, 1, 2, 1, 1, 1, 1, 2, 1, 1])

# ---- shapes found by the second round of seeded changes ----
# an unproductive rule (B) behind another rule in one alternative, a second alternative in the same state
add("unproductive-alt", "%start S\n%%\nS: A B | D;\nA: 'a';\nB: B 'b';\nD: 'd';\n", tags=["lr1"], inputs=["d", "a", "a b", "d d", ""])
add("unproductive-alt2", "%start S\n%%\nS: 'x' U 'y' | 'x' 'z' | T;\nU: U 'u' | 'v' U;\nT: 't' T | 't';\n", tags=["lr1"], inputs=["x z", "t t", "x y", "x v y", "t"])
# LR(1) but not LALR(1) with THREE items in the cores that must stay apart (both declaration orders)
add("nonlalr3", "%start S\n%%\nS: 'a' A 'd' | 'a' B 'e' | 'a' C 'f' | 'b' A 'e' | 'b' B 'd' | 'b' C 'g';\nC: 'c';\nA: 'c';\nB: 'c';\n", tags=["lr1", "nonlalr"],
    inputs=["a c d", "a c e", "a c f", "b c e", "b c d", "b c g", "a c g", "b c f"])
add("nonlalr3b", "%start S\n%%\nS: 'a' A 'd' | 'a' B 'e' | 'a' C 'f' | 'b' A 'e' | 'b' B 'd' | 'b' C 'g';\nA: 'c';\nB: 'c';\nC: 'c';\n", tags=["lr1", "nonlalr"],
    inputs=["a c d", "a c e", "a c f", "b c e", "b c d", "b c g", "a c g", "b c f"])
add("nonlalr4", "%start S\n%%\nS: 'a' A 'd' | 'a' B 'e' | 'a' C 'f' | 'a' D 'g' | 'b' A 'e' | 'b' B 'd' | 'b' D 'f' | 'b' C 'g';\nD: 'c';\nC: 'c';\nA: 'c';\nB: 'c';\n",
    tags=["lr1", "nonlalr"], inputs=["a c d", "a c e", "b c e", "b c d", "b c f", "a c g", "b c g"])
# FIRST sets that need three or more sweeps, with an already-nullable chain rule visited later in the sweep
add("first-sweeps", "%start S\n%%\nS: A R Q;\nA: 'a';\nR: P 'r' | 'k';\nP: Y 'p';\nX: ;\nQ: X;\nY: 'y';\n", tags=["lr1"],
    inputs=["a y p r", "a k", "a y y", "a y p", "a r"])
add("first-sweeps2", "%start S\n%%\nD: 'd';\nS: D A 'x' | D R A;\nA: B;\nB: Cc;\nCc: E;\nE: ;\nR: P 'r';\nP: Y 'p';\nY: Z 'y';\nZ: 'z';\n", tags=["lr1"],
    inputs=["d x", "d z y p r", "d z", "d z y p", "d"])
# more than TRY_PARSE_AT_MOST lexemes after the error: ranking must count from the error position
add("rec-long-tail", "%start E\n%%\nE: E '+' 'n' | 'n';\n", tags=["rec"],
    inputs=["n n" + " + n" * 200, "n + + n" + " + n" * 140, "n n + n"], costs=[1, 1])
add("rec-long-tail2", "%start L\n%%\nL: L ',' I | I;\nI: 'x' | '(' L ')';\n", tags=["rec"],
    inputs=["x x" + " , x" * 150, "( x x" + " , x" * 130 + " )", "x , , x"], costs=[1, 1, 1, 1])

# no repair leads to success and every step is an insert: with large token costs the accumulated
# cost used to overflow (panic) before the time budget ran out
add("rec-insert-chain", "%start S\n%right 'a'\n%%\nS: 'a' 'a' S 'a' | 'a' 'a' A 'a' | 'a' 'a';\nA: S | S A | 'a';\n", tags=["rec", "conflicts"],
    inputs=["a a a", "a a a a a a", "a"], costs=[155, 200])
add("rec-insert-chain255", "%start S\n%right 'a'\n%%\nS: 'a' 'a' S 'a' | 'a' 'a' A 'a' | 'a' 'a';\nA: S | S A | 'a';\n", tags=["rec", "conflicts"],
    inputs=["a a a", "a a a a a"], costs=[255, 255])

# ---- shapes that only a random instance caught in the second seeding round ----
# an accept state whose other actions all reduce one (rule, length): not a reduce-only state
add("accept-reduce-only", "%start S\n%%\nS: S A 'x' | ;\nA: ;\n", tags=["lr1", "nullable"], inputs=["", "x", "x x", "x x x"])
add("accept-reduce-only2", "%start S\n%%\nS: S 'y' | S B 'x' | ;\nB: ;\n", tags=["lr1", "nullable", "conflicts"], inputs=["", "x", "y x", "x y"])
# rules nullable only through productions made of nullable rules, declared top-down
add("nullable-units", "%start S\n%%\nS: A 'a' | 'b' A;\nA: B;\nB: Cc;\nCc: ;\n", tags=["lr1", "nullable"], inputs=["a", "b", "b a", ""])
add("nullable-units2", "%start S\n%%\nS: D A 'x';\nD: 'd';\nA: B B;\nB: Cc Cc;\nCc: E;\nE: ;\n", tags=["lr1", "nullable"], inputs=["d x", "d", "x"])
# the last token of the production has no precedence, an earlier one has: no production precedence
add("prec-last-token-right", "%start E\n%right '?'\n%%\nE: E '?' E ':' E | 'n';\n", tags=["prec", "conflicts"], inputs=["n ? n : n", "n ? n : n ? n : n", "n ? n ? n : n : n"])
add("prec-last-token2", "%start E\n%left '+'\n%left '*'\n%%\nE: E '+' E 'k' | E '*' E | 'n' | E 'k';\n", tags=["prec", "conflicts"], inputs=["n + n k", "n * n + n k", "n k k"])


# Eco grammars with implicit tokens: the synthesised productions come AFTER the start production
add("eco-calc", "%start E\n%implicit_tokens 'ws'\n%%\nE: E '+' T | T;\nT: 'n' | '(' E ')';\n", kind="eco", tags=["eco", "rec"],
    inputs=["n + n", "ws n ws + ws n ws", "( n ws ) + n", "n + ws", "ws", "n n", "( ws n"])
add("eco-nullable", "%start S\n%implicit_tokens 'ws' 'nl' 'cm'\n%%\nS: A 'x' | ;\nA: | 'a' A;\n", kind="eco", tags=["eco", "nullable"],
    inputs=["", "ws", "x", "a ws a nl x cm", "nl cm ws", "a a"])
add("eco-avoid", "%start S\n%implicit_tokens 'ws'\n%avoid_insert 'ws'\n%%\nS: 'k' 'v' S | 'e';\n", kind="eco", tags=["eco", "rec"],
    inputs=["k v e", "k ws v ws e", "k e", "v e", "k v"])

assert len(set(c["id"] for c in CAT)) == len(CAT), "duplicate catalogue ids"


def select(tags=None, exclude=()):
    out = []
    for c in CAT:
        if tags is not None and not (set(tags) & set(c["tags"])):
            continue
        if set(exclude) & set(c["tags"]):
            continue
        out.append(c)
    return out
