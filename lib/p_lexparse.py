"""The .l parser (with the %grmtools section in front of it) against its transcription
(spec/LexParse.tla + Header.tla via TraceLexParse.tla): every recorded outcome of
LRNonStreamingLexerDef::from_str is predicted exactly.  Part of C12 (and C11's spans)."""
import json
import os

from . import core, p_hdr

FK = ["dot_matches_new_line", "multi_line", "octal", "posix_escapes", "allow_wholeline_comments", "case_insensitive", "swap_greed",
      "ignore_whitespace", "unicode"]
NK = ["size_limit", "dfa_size_limit", "nest_limit"]
RE_ERR = "Invalid regular expression"


def cps(s):
    return [ord(c) for c in s]


def events(items, lines):
    byid = {i["id"]: i for i in items}
    out = []
    for ln in lines:
        e = json.loads(ln)
        if e.get("entry") != "lex":
            continue
        it = byid.get(e["id"])
        if it is None:
            continue
        res = e["res"]
        badre = []
        if res.get("class") == "err":
            for er in res["errors"]:
                if er["kind"].startswith(RE_ERR):
                    er["kind"] = RE_ERR
                    badre.append(er["spans"][0][0])
        out.append(json.dumps(dict(ev="lexparse", id=e["id"], src=cps(it["s"]), hsrc=p_hdr.classify(it["s"]),
                                   fk=[cps(k) for k in FK], nk=[cps(k) for k in NK], badre=badre, res=res)) + "\n")
    return out


def mc(res, tier):
    cfg = os.path.join(res.wd, "MC_LexParse.cfg")
    n = 4 if tier == "thorough" else 3
    with open(cfg, "w") as f:
        f.write("SPECIFICATION Spec\nCONSTANTS\n  MaxLen = %d\nINVARIANT Inv\nCHECK_DEADLOCK FALSE\n" % n)
    r = core.run_tlc("MC_LexParse", cfg, {}, res.wd, timeout=2400, workers=8, heap="8g")
    res.add_tlc(r)
    res.notes["mc_lexparse"] = dict(distinct=r["distinct"], max_len=n,
                                    what="the transcribed .l parser on every text up to max_len over an 18-character alphabet: terminates, "
                                         "outcome satisfies the contract")
    if r["error"]:
        res.violation("bounded model MC_LexParse.tla: " + r["error"][:500], dict(kind="mc"))
