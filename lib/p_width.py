"""C20: index storage widths.  Bounded model (Width.tla: guards => no wrap, all count vectors in
windows around 2^8 / 2^16) + trace validation of real u8/u16/u32 builds of grammars generated to
sit exactly in those windows."""
import json
import re
import os

from . import core


def gen(dim, v, eco=False, nimp=1):
    """A grammar whose source-level count in dimension `dim` is v, everything else small and
    (apart from `states') kept out of the reachable automaton."""
    c = dict(rules=1, tokens=1, prods=1, maxsyms=1, eco=eco, implicit=nimp if eco else 0, toksyms=1)
    lines = ["%start S"]
    if eco:
        lines.append("%implicit_tokens " + " ".join("'w%d'" % i for i in range(nimp)))
    body = []
    if dim == "rules":
        body.append("S: 'a';")
        for i in range(v - 1):
            body.append("R%d: ;" % i)
        c.update(rules=v, prods=v)
    elif dim == "tokens":
        n = v - (nimp if eco else 0)
        lines.append("%token " + " ".join("t%d" % i for i in range(n - 1)))
        body.append("S: 'a';")
        c.update(tokens=v)
    elif dim == "prods":
        body.append("S: 'a';")
        body.append("R: " + " | ".join("'a'" if i % 2 else "" for i in range(v - 1)) + ";")
        c.update(rules=2, prods=v)
    elif dim == "maxsyms":
        body.append("S: 'a';")
        body.append("R: " + " ".join(["'a'"] * v) + ";")
        c.update(rules=2, prods=2, maxsyms=v, toksyms=v)
    elif dim == "states":
        body.append("S: " + " ".join(["'a'"] * v) + ";")
        c.update(maxsyms=v, toksyms=v)
    if eco:
        c["tokens"] = c["tokens"] + (nimp if dim != "tokens" else 0)
    return "\n".join(lines + ["%%"] + body) + "\n", c


def count_of(y):
    """source-level counts of a plain (non-Eco) catalogue grammar written one rule per line"""
    import re
    body = y.split("%%")[1]
    rules = re.findall(r"^\s*(\w+)\s*(?:->[^:]*)?:(.*?);\s*$", body, re.M | re.S)
    if not rules:
        return None
    toks = set(re.findall(r"'([^']*)'", y))
    prods = 0
    maxsyms = 0
    toksyms = 0
    for _, alts in rules:
        for alt in re.sub(r"\{[^}]*\}", "", alts).split("|"):
            syms = [x for x in re.sub(r"%prec\s+\S+", "", alt).split()]
            prods += 1
            maxsyms = max(maxsyms, len(syms))
            toksyms = max(toksyms, sum(1 for x in syms if x.startswith("'")))
    return dict(rules=len(rules), tokens=len(toks), prods=prods, maxsyms=maxsyms, eco=False, implicit=0, toksyms=toksyms)


def narrow_grammars(res, prop):
    """the grammar object at the edge of a narrow index type, as C10 sees it: u8 builds of grammars with
    249 .. 258 rules / tokens / productions must report the sizes the source defines (dense numbering,
    indices in range) or be refused - never wrap, never panic in a query"""
    insts = []
    for dim in ("rules", "tokens", "prods"):
        for v in range(249, 259):
            for eco in ([False, True] if dim != "tokens" else [False]):
                y, c = gen(dim, v, eco, nimp=2 if eco else 0)
                insts.append(dict(id="narrow-%s-%d%s" % (dim, v, "-eco" if eco else ""), y=y, kind="eco" if eco else "original", counts=c, skip16=True))
    job = os.path.join(res.wd, "narrow-job.json")
    trace = os.path.join(res.wd, "narrow-trace.ndjson")
    with open(job, "w") as f:
        json.dump(dict(instances=insts), f)
    core.run_vh(["width", job, trace], timeout=1200)
    v = core.run_tlc("TraceWidth", "TraceWidth.cfg", dict(TRACE=trace, PROP=prop), res.wd, timeout=600, workers=1)
    res.add_tlc(v)
    if "DONE" not in v["out"] and v["error"]:
        raise core.ToolError("TraceWidth did not finish: " + v["error"][:500])
    byid = {i["id"]: i for i in insts}
    for t in core.tuples(v["out"]):
        if '"DEV"' in t[:12]:
            d = core.parse_dev(t)
            res.deviation(d, dict(instance=byid.get(d["inst"])))
    res.notes["narrow_grammar_objects"] = len(insts)
    res.cov["traces_validated_against_impl"] += len(insts)


def main(pid, tier, replay=None):
    res = core.Result(pid, "model_checking", tier)
    thorough = tier == "thorough"
    # (1) the guards as a bounded model
    r = core.run_tlc("MC_Width", "MC_Width.cfg", {}, res.wd, timeout=600, workers=4)
    res.add_tlc(r)
    res.notes["mc"] = dict(distinct=r["distinct"], windows="+-3 around 2^8 and 2^16, 6 dimensions, eco on/off")
    if r["error"]:
        res.violation("Width.tla: guards do not imply no-wrap: " + r["error"][:400], dict(kind="mc"))
    cfg2 = os.path.join(res.wd, "MC_Width_prefix.cfg")
    with open(cfg2, "w") as f:
        f.write("SPECIFICATION Spec\nCONSTANTS\n  Win = 3\n  Widths = {8}\n  Fixed = FALSE\nINVARIANT Inv\nCHECK_DEADLOCK FALSE\n")
    r2 = core.run_tlc("MC_Width", cfg2, {}, res.wd, timeout=300, workers=2)
    res.notes["mc_mutation_sanity"] = dict(refuted=bool(r2["error"]))
    if not r2["error"]:
        raise core.ToolError("vacuity: the pre-fix guards were not refuted by the model")
    # (1b) the same statement for ALL natural counts (no windows), by Apalache (SMT), length 0
    import shutil
    import subprocess
    ad = os.path.join(res.wd, "apalache")
    os.makedirs(ad, exist_ok=True)
    shutil.copy(os.path.join(core.SPEC, "WidthApa.tla"), ad)
    outs = {}
    for inv in ("Inv", "InvOld"):
        try:
            p = subprocess.run(["timeout", "300", "apalache-mc", "check", "--length=0", "--inv=" + inv, "WidthApa.tla"], cwd=ad,
                               stdout=subprocess.PIPE, stderr=subprocess.STDOUT, text=True)
            outs[inv] = "noerror" if "The outcome is: NoError" in p.stdout else ("error" if "The outcome is: Error" in p.stdout else "unknown")
        except OSError:
            outs[inv] = "unavailable"
    shutil.rmtree(ad, ignore_errors=True)
    res.notes["apalache_unbounded"] = dict(outcome=outs, what="Init => (Refused \\/ NoWrap) for all natural counts and widths 8/16/32; "
                                                             "InvOld (guards before the repair) must be refuted")
    if outs["Inv"] == "error":
        res.violation("WidthApa.tla: the guards do not imply no-wrap for all counts (Apalache counterexample)", dict(kind="apalache"))
    elif outs["Inv"] == "noerror" and outs["InvOld"] == "noerror":
        raise core.ToolError("vacuity: Apalache did not refute the pre-fix guards")
    elif outs["Inv"] != "noerror":
        res.cov["inconclusive"] += 1
    # (1c) ... and as a theorem, by the TLA+ proof system (WidthProof.tla; SMT / Zenon / Isabelle back ends)
    proof = core.run_tlapm("WidthProof", [], res.wd)
    p_out = proof.pop("out")
    res.notes["tlaps_theorem"] = dict(proof, what="THEOREM WidthGuards: for all natural counts and widths 8/16/32, not refused => nothing stored wraps")
    # (a proof is about the specification alone - the code is bound to it by the traces - so a
    # proof that does not go through, e.g. a prover timing out on a loaded machine, is no verdict)
    if proof["outcome"] != "proved":
        res.cov["inconclusive"] += 1
        res.notes["tlaps_output"] = p_out[-600:]
    # (2) real builds
    insts = []
    if replay:
        with open(replay) as f:
            insts = [json.load(f)["instance"]]
    else:
        bounds = [(255, False)] + ([(65535, True)] if thorough else [])
        for B, big in bounds:
            for dim in ["rules", "tokens", "prods", "maxsyms", "states"]:
                if big and dim == "states":
                    continue     # 65k-state automata: quadratic candidate scans, hours
                for v in range(B - 4, B + 3):
                    for eco in ([False, True] if not big or dim in ("rules", "prods") else [False]):
                        y, c = gen(dim, v, eco, nimp=2 if eco else 0)
                        insts.append(dict(id="%s-%d%s" % (dim, v, "-eco" if eco else ""), y=y,
                                          kind="eco" if eco else "original", counts=c, skip16=False))
        # small grammars: all widths must agree on them
        from . import catalog
        for cgr in catalog.select(exclude=["arconf", "eco"])[:12]:
            insts.append(dict(id=cgr["id"], y=cgr["y"], kind=cgr["kind"], counts=None, skip16=False))
    for i in insts:
        if i["counts"] is None:
            i["counts"] = count_of(i["y"])
    insts = [i for i in insts if i["counts"] is not None]
    job = os.path.join(res.wd, "job.json")
    trace = os.path.join(res.wd, "trace.ndjson")
    with open(job, "w") as f:
        json.dump(dict(instances=insts), f)
    core.run_vh(["width", job, trace], timeout=3000)
    v = core.run_tlc("TraceWidth", "TraceWidth.cfg", dict(TRACE=trace), res.wd, timeout=900, workers=1)
    res.add_tlc(v)
    if "DONE" not in v["out"] and v["error"]:
        raise core.ToolError("TraceWidth did not finish: " + v["error"][:500])
    byid = {i["id"]: i for i in insts}
    for t in core.tuples(v["out"]):
        if '"DEV"' in t[:12]:
            d = core.parse_dev(t)
            res.deviation(d, dict(instance=byid.get(d["inst"])))
    lines = open(trace).read().splitlines()
    res.cov["traces_validated_against_impl"] = len(lines)
    outc = {}
    for ln in lines:
        e = json.loads(ln)
        for w in ("w8", "w16", "w32"):
            outc[w + ":" + e[w]["class"]] = outc.get(w + ":" + e[w]["class"], 0) + 1
    res.notes["outcomes"] = outc
    # vacuity: both refusals and builds at u8 must have been seen
    if not replay and (outc.get("w8:refused", 0) == 0 or outc.get("w8:built", 0) == 0):
        raise core.ToolError("vacuity: the family did not produce both u8 refusals and u8 builds: %s" % outc)
    for ln in lines[:2]:
        e = json.loads(ln)
        res.sample(dict(id=e["id"], counts=e["counts"], w8=e["w8"].get("class"), w16=e["w16"].get("class"), w32=e["w32"].get("class")))
    res.assumptions += ["2^16 windows only in the thorough tier; no 65k-state automata (quadratic construction)"]
    return res.finish()
