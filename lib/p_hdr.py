"""The %grmtools section parser against its transcription (spec/Header.tla): bounded model
(MC_Header) + exact prediction of every recorded outcome (TraceHeader).  Part of C12; the texts
are C12's `header' items plus generated sections."""
import json
import os
import random

from . import core, p_src

WS = set("\t\n\x0b\x0c\r \u0085\u200e\u200f\u2028\u2029")      # Unicode Pattern_White_Space
LETTERS_EXTRA = {"\u017f", "\u212a"}                             # what else (?i)[A-Z] matches
PUNCT = set("[],:(){}!*")
MAGIC = "%grmtools"


def classify(text):
    """text -> list of [class, width in bytes, id] (see Header.tla)"""
    k0 = 0
    while k0 < len(text) and text[k0] in WS:
        k0 += 1
    out = []
    i = 0
    while i < len(text):
        if i == k0 and text.startswith(MAGIC, i):
            out.append(["M", len(MAGIC), 0])
            i += len(MAGIC)
            continue
        c = text[i]
        w = len(c.encode("utf-8"))
        if c == "\n":
            out.append(["nl", w, 0])
        elif c in WS:
            out.append(["ws", w, 0])
        elif ("a" <= c <= "z") or ("A" <= c <= "Z") or c in LETTERS_EXTRA:
            lo = c.lower() if c != "\u017f" else c
            out.append(["L", w, ord(lo)])
        elif c == "_":
            out.append(["_", w, 95])
        elif "0" <= c <= "9":
            out.append(["D", w, ord(c) - 48])
        elif c == '"':
            out.append(["q", w, 0])
        elif c == "\\":
            out.append(["bs", w, 0])
        elif c in PUNCT:
            out.append([c, w, 0])
        else:
            out.append(["o", w, 0])
        i += 1
    return out


NAMES = ["yacckind", "recoverer", "a", "B_c", "test_files", "Kind", "x", "YaccKind", "Original", "Key", "s\u017f", "\u212aey"]


def gen_setting(rng, depth=0):
    r = rng.random()
    if r < 0.2:
        return rng.choice(["0", "7", "1024", "18446744073709551615", "18446744073709551616", "00018446744073709551615", "99999999999999999999999"])
    if r < 0.4:
        return '"' + rng.choice(["", "a b", "*.txt", "x\\\"y", "\\\\", "é", "a\nb", "q\\\nz", "}", "]"]) + '"'
    if r < 0.6 and depth < 3:
        n = rng.randint(0, 3)
        sep = rng.choice([",", ", ", " ,\n", ",,", " "])
        body = sep.join(gen_setting(rng, depth + 1) for _ in range(n))
        return "[" + rng.choice(["", " "]) + body + rng.choice(["", ",", " "]) + "]"
    ns = rng.choice(NAMES)
    if rng.random() < 0.5:
        ns += rng.choice(["::", " :: ", "::\n"]) + rng.choice(NAMES)
    if rng.random() < 0.4:
        arg = rng.choice(NAMES)
        if rng.random() < 0.5:
            arg += "::" + rng.choice(NAMES)
        ns += rng.choice(["(", " ("]) + rng.choice(["", "", " "]) + arg + rng.choice([")", " )", ""])
    return ns


def gen_header(rng):
    n = rng.randint(0, 4)
    items = []
    for _ in range(n):
        k = rng.choice(NAMES + ["A", "a"])
        r = rng.random()
        if r < 0.25:
            items.append(rng.choice(["!", "! "]) + k)
        elif r < 0.45:
            items.append(k)
        else:
            items.append(k + rng.choice([":", ": ", " : ", ":\n"]) + gen_setting(rng))
    body = rng.choice([", ", ",", " ,\n", " "]).join(items)
    return (rng.choice(["", " ", "\n\u200e"]) + MAGIC + rng.choice(["", " ", "\n"]) + rng.choice(["{", "{ ", "{\n"]) + body
            + rng.choice(["", ",", " "]) + rng.choice(["}", "}", "}", ""]) + rng.choice(["", "\n%%\n", " x"]))


def extra_items(rng, n, k):
    """generated sections and their mutants"""
    out = []
    for _ in range(n):
        h = gen_header(rng)
        out.append(h)
        out += p_src.mutants(h, rng, k)
    return out


def mc(res, tier):
    body = "SPECIFICATION Spec\nCONSTANTS\n  Variant = \"%s\"\n  BodyLen = %d\nINVARIANT Inv\nCHECK_DEADLOCK FALSE\n"
    cfg = os.path.join(res.wd, "MC_Header.cfg")
    n = 4 if tier == "thorough" else 3
    with open(cfg, "w") as f:
        f.write(body % ("code", n))
    r = core.run_tlc("MC_Header", cfg, {}, res.wd, timeout=1800, workers=8, heap="8g")
    res.add_tlc(r)
    res.notes["mc_header"] = dict(distinct=r["distinct"], body_length=n,
                                  what="the transcribed section parser on every text `%grmtools {' + body over a 20-character-class alphabet: "
                                       "terminates, outcome satisfies the contract (required and not required)")
    if r["error"]:
        res.violation("bounded model MC_Header.tla: " + r["error"][:500], dict(kind="mc"))
    cfg2 = os.path.join(res.wd, "MC_Header_noprogress.cfg")
    with open(cfg2, "w") as f:
        f.write(body % ("noprogress", 3))
    r2 = core.run_tlc("MC_Header", cfg2, {}, res.wd, timeout=600, workers=4, heap="4g")
    res.notes["mc_header_mutation_sanity"] = dict(refuted=bool(r2["error"]), what="array loop without its progress test")
    if not r2["error"]:
        raise core.ToolError("vacuity: the non-terminating array loop was not refuted by MC_Header")


def events(items, lines):
    """hdr events for the `header' items of a C12 run (items and result lines correspond by id)"""
    byid = {i["id"]: i for i in items}
    out = []
    for ln in lines:
        e = json.loads(ln)
        if e.get("entry") != "header":
            continue
        it = byid.get(e["id"])
        if it is None:
            continue
        out.append(json.dumps(dict(ev="hdr", id=e["id"], src=classify(it["s"]), res=e["res"])) + "\n")
    return out
