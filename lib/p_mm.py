"""MarkMap (the map behind %grmtools headers and builder settings) against MarkMap.tla: bounded
model of the merge laws the builders rely on + trace validation of random operation sequences.
Part of C11 ("flags given in the section or through the builder are the ones in force")."""
import json
import os

from . import core, p_src


def run(res, prop, tier):
    thorough = tier == "thorough"
    seed = core.seed()
    body = "SPECIFICATION Spec\nCONSTANTS\n  Keys = %s\n  NoVal = 99\nINVARIANT %s\nCHECK_DEADLOCK FALSE\n"
    cfg = os.path.join(res.wd, "MC_MarkMap.cfg")
    with open(cfg, "w") as f:
        f.write(body % ("{0, 1}" if thorough else "{0}", "Laws"))
    r = core.run_tlc("MC_MarkMap", cfg, {}, res.wd, timeout=2400, workers=8 if thorough else 4, heap="8g")
    res.add_tlc(r)
    res.notes["mc_markmap"] = dict(distinct=r["distinct"], keys=2 if thorough else 1,
                                   what="every pair of maps (all marks, merge behaviours, defaults, values): OursLaw (builder values survive the "
                                        "merge with the parsed section, section-only values are taken over, own marks are kept), ExclLaw")
    if r["error"]:
        res.violation("bounded model MC_MarkMap.tla: " + r["error"][:400], dict(kind="mc"))
    cfg2 = os.path.join(res.wd, "MC_MarkMap_doc.cfg")
    with open(cfg2, "w") as f:
        f.write(body % ("{0}", "Doc"))
    r2 = core.run_tlc("MC_MarkMap", cfg2, {}, res.wd, timeout=600, workers=2, heap="2g")
    res.notes["mc_markmap_named_deviation"] = dict(refuted=bool(r2["error"]),
                                                   what="MergeBehavior::Theirs as documented (only a present value overwrites) - the code also copies a missing one")
    if not r2["error"]:
        raise core.ToolError("the model no longer shows the documented/actual difference of MergeBehavior::Theirs (vacuity)")
    job = os.path.join(res.wd, "mm-job.json")
    trace = os.path.join(res.wd, "mm-trace.ndjson")
    with open(job, "w") as f:
        json.dump(dict(seed=seed, n=3000 if thorough else 300, len=14), f)
    core.run_vh(["markmap", job, trace])
    lines = open(trace).readlines()
    # binding self-test: one observed value altered
    for k, x in enumerate(lines[:40]):
        e = json.loads(x)
        if e["ev"] == "mm_op" and e["op"] == "insert":
            e["obs"][e["w"]]["keys"][e["k"]]["get"] = 77
            v = p_src.validate(res, "TraceMarkMap", 9002, lines[:k] + [json.dumps(e) + "\n"], dict(PROP=prop))
            st = dict(rejected=len(v["devs"]) > 0, corruption="value reported by get() after an insert altered")
            res.notes["binding_selftest_markmap"] = st
            if not st["rejected"]:
                raise core.ToolError("binding self-test (MarkMap) failed")
            break
    # sequences stay together: split at resets
    seqs = []
    for x in lines:
        if '"mm_reset"' in x[:40]:
            seqs.append([x])
        else:
            seqs[-1].append(x)
    nparts = 8 if thorough else 2
    parts = [sum(seqs[i::nparts], []) for i in range(nparts)]
    for i, part in enumerate(parts):
        if not part:
            continue
        v = p_src.validate(res, "TraceMarkMap", 100 + i, part, dict(PROP=prop))
        res.add_tlc(v["r"])
        for d in v["devs"]:
            res.deviation(d, dict(seed=seed, sequence=d["inst"]))
        if v["consumed"] == v["nlines"]:
            res.cov["traces_validated_against_impl"] += sum(1 for x in part if '"mm_reset"' in x[:40])
        elif v["r"]["timeout"]:
            res.cov["inconclusive"] += 1
        else:
            res.violation("MarkMap trace rejected by the specification: " + (v["r"]["error"] or "")[:300], dict(tlc_out=v["r"]["out"][-1500:]))
    res.notes["markmap_operations_validated"] = sum(1 for x in lines if '"mm_op"' in x[:40])
