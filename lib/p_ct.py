"""C18 (and the %expect clause of C03): incremental compile-time builds.
Bounded model checking of CTBuild.tla (all histories to a depth) + trace validation of histories
executed on the real CTParserBuilder / CTLexerBuilder, one process per build, file times driven
by the model's logical clock, every result compared with a clean build."""
import concurrent.futures
import json
import os
import random
import shutil
import subprocess

from . import core

G = {
    "g1": "%start S\n%%\nS: 'a' S | 'b';\n",
    "g2": "%start S\n%%\nS: 'b' S | 'a' | 'a' 'b';\n",
    "g3": "%start S\n%%\nS: 'a' S 'a' | 'b';\n",
    "gwarn": "%start S\n%token c\n%%\nS: 'a' S | 'b';\n",
    "gbad": "%start S\n%%\nS: 'a' S | 'b'\n",
    "gconf": "%start S\n%%\nS: S 'a' S | 'b';\n",
    "gconfe": "%start S\n%expect 1\n%%\nS: S 'a' S | 'b';\n",
    "gexp": "%start S\n%expect 1\n%%\nS: 'a' S | 'b';\n",
    "gexprr": "%start S\n%expect-rr 1\n%%\nS: 'a' S | 'b';\n",
    "grr": "%start S\n%%\nS: A 'a' | B 'a';\nA: 'b';\nB: 'b';\n",
    "grre": "%start S\n%expect-rr 1\n%%\nS: A 'a' | B 'a';\nA: 'b';\nB: 'b';\n",
    "grre2": "%start S\n%expect 1\n%%\nS: A 'a' | B 'a';\nA: 'b';\nB: 'b';\n",
    "gboth": "%start S\n%%\nS: S 'a' S | 'b' | A 'a' | B 'a';\nA: 'b' 'b';\nB: 'b' 'b';\n",
    "gbothe": "%start S\n%expect 1\n%%\nS: S 'a' S | 'b' | A 'a' | B 'a';\nA: 'b' 'b';\nB: 'b' 'b';\n",
    "gbothrr": "%start S\n%expect-rr 1\n%%\nS: S 'a' S | 'b' | A 'a' | B 'a';\nA: 'b' 'b';\nB: 'b' 'b';\n",
    "gbothok": "%start S\n%expect 1\n%expect-rr 1\n%%\nS: S 'a' S | 'b' | A 'a' | B 'a';\nA: 'b' 'b';\nB: 'b' 'b';\n",
}
GTOK = {"g1": ["a", "b"], "g2": ["b", "a"], "g3": ["a", "b"], "gwarn": ["c", "a", "b"], "gbad": [], "gconf": ["a", "b"],
        "gconfe": ["a", "b"], "gexp": ["a", "b"], "gexprr": ["a", "b"], "grr": ["a", "b"], "grre": ["a", "b"], "grre2": ["a", "b"],
        "gboth": ["a", "b"], "gbothe": ["a", "b"], "gbothrr": ["a", "b"], "gbothok": ["a", "b"]}
L = {
    "l1": "%%\na 'a'\nb 'b'\n[ ]+ ;\n",
    "l2": "%%\nb 'b'\na 'a'\n[ \\t]+ ;\n",
    "lbad": "%%\na 'a\n",
    "lmiss": "%%\na 'a'\n[ ]+ ;\n",
    "lextra": "%%\na 'a'\nb 'b'\nz 'z'\n[ ]+ ;\n",
}
LNAMES = {"l1": ["a", "b"], "l2": ["a", "b"], "lbad": [], "lmiss": ["a"], "lextra": ["a", "b", "z"]}

OPTS0 = dict(yacckind="original_generic", recoverer="cpctplus", sformat="variable", eoc=True, wae=False, showw=False,
             vis="private", edition="2021", mod_name="unset", lex_vis="private", lex_mod_name="unset", case_insensitive=False,
             dot_matches_new_line=True, lex_wae=False)
ALT = dict(yacckind="original_noaction", recoverer="none", sformat="fixed", eoc=False, wae=True, showw=True, vis="public",
           edition="2018", mod_name="pm", lex_vis="public", lex_mod_name="lm", case_insensitive=True, dot_matches_new_line=False)
# every value a setting can take; each ordered pair of values is exercised as a change between builds
VALUES = dict(yacckind=["original_generic", "original_noaction"], recoverer=["cpctplus", "none"], sformat=["variable", "fixed"],
              eoc=[True, False], wae=[False, True], showw=[False, True], vis=["private", "public", "crate", "super", "self", "in"],
              edition=["2021", "2018", "2015"], mod_name=["unset", "pm", "pm2"], lex_vis=["private", "public", "super", "self", "crate", "in"],
              lex_mod_name=["unset", "lm"], case_insensitive=[False, True], dot_matches_new_line=[True, False],
              lex_wae=[False, True])
BASE = 1_700_000_000


def ident(table):
    ids = {}
    out = {}
    for k, v in table.items():
        key = json.dumps(v)
        ids.setdefault(key, len(ids) + 1)
        out[k] = ids[key]
    return out


def ginfo(conf):
    tok = ident(GTOK)
    names = ident({k: sorted(v) for k, v in GTOK.items()})
    out = {}
    for k in G:
        c = conf[k]
        out[k] = dict(valid=c["valid"], warn=(k == "gwarn"), sr=c["sr"], rr=c["rr"], expect=c["expect"], expectrr=c["expectrr"],
                      tok=tok[k], names=sorted(GTOK[k]))
    return out


def linfo():
    names = ident({k: sorted(v) for k, v in GTOK.items()})
    byset = {json.dumps(sorted(GTOK[k])): names[k] for k in GTOK}
    out = {}
    for k in L:
        out[k] = dict(valid=(k != "lbad"), names=sorted(LNAMES[k]))
    return out


def probe(res):
    """ask the run-time pipeline what each grammar version is (validity, conflicts, %expect)"""
    jobs = [dict(id=k, y=y, kind="original", width=32, sections=["table"], inputs={}, recovery="off", iseed=1, budget_ms=100)
            for k, y in G.items()]
    jf = os.path.join(res.wd, "probe.json")
    of = os.path.join(res.wd, "probe.ndjson")
    with open(jf, "w") as f:
        json.dump(dict(seed=1, instances=jobs, workers=4), f)
    core.run_vh(["lr", jf, of])
    conf = {}
    cur = None
    for line in open(of):
        e = json.loads(line)
        if e["ev"] == "reset":
            cur = e["id"]
            conf[cur] = dict(valid=False, sr=0, rr=0, expect=-1, expectrr=-1)
        elif e["ev"] == "grammar":
            conf[cur].update(valid=True, expect=e["expect"], expectrr=e["expectrr"])
        elif e["ev"] == "table":
            conf[cur].update(sr=len(e["sr"]), rr=len(e["rr"]))
    return conf


def histories(seed, n):
    rng = random.Random(seed * 77 + 18)
    hs = []
    # every setting toggled between builds: a change must regenerate, the repeat must not
    for k in VALUES:
        for v1 in VALUES[k]:
            for v2 in VALUES[k]:
                if v1 == v2:
                    continue
                which = "both" if k in ("lex_vis", "lex_mod_name", "case_insensitive", "dot_matches_new_line") else rng.choice(["parser", "both"])
                hs.append([("set", k, v1), ("build", which), ("set", k, v2), ("build", which), ("build", which)])
    # every grammar / lexer version after a good build, then repaired
    for v in G:
        for which in ("parser", "both"):
            hs.append([("build", which), ("edit_g", v), ("build", which), ("build", which), ("edit_g", "g1"), ("build", which)])
    for v in L:
        hs.append([("build", "both"), ("edit_l", v), ("build", "both"), ("edit_l", "l1"), ("build", "both"), ("build", "both")])
    # the grammar changes within the same tick as the generated file was written: regenerate
    for v in ("g2", "g3", "gconf", "g1"):
        for which in ("parser", "both"):
            hs.append([("build", which), ("edit_g_same", v), ("build", which), ("build", which), ("edit_g_same", "g1"), ("build", which)])
            hs.append([("build", which), ("edit_g", "g3"), ("edit_g_same", v), ("build", which)])
    hs.append([("build", "parser"), ("edit_g", "gbad"), ("edit_l", "lbad"), ("build", "both"), ("edit_l", "l1"), ("build", "both")])
    # lexer tokens the grammar does not know: a warning, or an error with warnings_are_errors
    hs.append([("build", "both"), ("edit_l", "lextra"), ("build", "both"), ("set", "lex_wae", True), ("build", "both"), ("edit_l", "l1"), ("build", "both")])
    hs.append([("set", "lex_wae", True), ("build", "both"), ("edit_g", "g3"), ("edit_l", "lextra"), ("build", "both"), ("build", "both")])
    # the %expect matrix with error_on_conflicts on and off
    for v in ("gconf", "gconfe", "gexp", "gexprr", "grr", "grre", "grre2", "gboth", "gbothe", "gbothrr", "gbothok"):
        hs.append([("edit_g", v), ("build", "parser"), ("set", "eoc", False), ("build", "parser"), ("set", "eoc", True), ("build", "parser")])
    ops = [("edit_g", v) for v in G] + [("edit_g_same", v) for v in ("g1", "g2", "g3", "gconf")] + [("edit_l", v) for v in L] + [("build", "parser")] * 6 + [("build", "both")] * 6
    for i in range(n):
        h = []
        for _ in range(rng.randint(4, 9)):
            if rng.random() < 0.3:
                k = rng.choice(sorted(VALUES))
                h.append(("set", k, rng.choice(VALUES[k])))
            else:
                h.append(rng.choice(ops))
        h.append(("build", rng.choice(["parser", "both"])))
        hs.append(h)
    return hs


def ctstep(d, sub, which, opts, rule_ids_map=None):
    """one build in its own process; returns the harness's JSON"""
    dd = os.path.join(d, sub) if sub else d
    req = dict(grammar_path=os.path.join(dd, "g.y"), grammar_out=os.path.join(dd, "g.y.rs"),
               lexer_path=os.path.join(dd, "l.l"), lexer_out=os.path.join(dd, "l.l.rs"), which=which,
               opts={k: v for k, v in opts.items() if v != "unset"})
    if rule_ids_map is not None:
        req["rule_ids_map"] = rule_ids_map
    rp = os.path.join(dd, "req.json")
    with open(rp, "w") as f:
        json.dump(req, f)
    p = subprocess.run([core.VH, "ctstep", rp], stdout=subprocess.PIPE, stderr=subprocess.DEVNULL, text=True, timeout=120)
    lines = [x for x in p.stdout.splitlines() if x.startswith("{")]
    if not lines:
        return dict(ev="build", which=which, ok=False, regenerated=False, err="HARNESS: no output (crash) rc=%d" % p.returncode,
                    grammar_out=dict(exists=os.path.exists(req["grammar_out"]), digest="?"),
                    lexer_out=dict(exists=os.path.exists(req["lexer_out"]), digest="?"))
    return json.loads(lines[-1])


def deprecated_entry(res, prop):
    """CTParserBuilder::process_file (deprecated, still public) copies the builder field by field and
    then builds: for every parser setting, every value, and grammars with / without conflicts and
    warnings, it must succeed or fail exactly as build() does and generate the same module
    (two fresh directories per configuration)."""
    import shutil
    cfgs = []
    PKEYS = ["yacckind", "recoverer", "sformat", "eoc", "wae", "showw", "vis", "edition", "mod_name"]
    for g in ("g1", "gconf", "gwarn", "gconfe"):
        for k in PKEYS:
            for v in VALUES[k]:
                for k2, v2 in (("eoc", True), ("eoc", False), ("wae", True)):
                    o = dict(OPTS0)
                    o[k2] = v2
                    o[k] = v
                    if g == "g1" and k2 != "eoc":
                        continue
                    c = (g, tuple(sorted((a, str(b)) for a, b in o.items())))
                    if c not in [x[0] for x in cfgs]:
                        cfgs.append((c, g, o, "%s/%s=%s/%s=%s" % (g, k, v, k2, v2)))
    lines = []
    root = os.path.join(res.wd, "entry")

    def one(i):
        _, g, o, label = cfgs[i]
        out = {}
        for which in ("parser", "process_file"):
            d = os.path.join(root, "c%d-%s" % (i, which))
            shutil.rmtree(d, ignore_errors=True)
            os.makedirs(d)
            open(os.path.join(d, "g.y"), "w").write(G[g])
            open(os.path.join(d, "l.l"), "w").write(L["l1"])
            r = ctstep(d, None, which, o)
            out[which] = "%s|%s" % ("ok" if r.get("ok") else "err", r.get("grammar_out", {}).get("digest") if r.get("ok") else "")
            shutil.rmtree(d, ignore_errors=True)
        return json.dumps(dict(ev="entry", id="entry-" + label, build=out["parser"], process_file=out["process_file"])) + "\n"
    with concurrent.futures.ThreadPoolExecutor(max_workers=max(2, core.NCPU - 4)) as ex:
        lines = list(ex.map(one, range(len(cfgs))))
    shutil.rmtree(root, ignore_errors=True)
    from . import p_src
    v = p_src.validate(res, "TracePipe", 77, lines, dict(PROP=prop))
    res.add_tlc(v["r"])
    for d in v["devs"]:
        res.deviation(d, dict(config=d["inst"]))
    nok = sum(1 for x in lines if '"build": "ok|' in x)
    res.notes["deprecated_entry_point"] = dict(configurations=len(lines), succeeded=nok, failed=len(lines) - nok)
    res.cov["traces_validated_against_impl"] += len(lines)
    if not lines or nok == 0 or nok == len(lines):
        raise core.ToolError("vacuity: the process_file family has no succeeding / no failing configuration")


def run_history(wd, hid, h, gi, li):
    d = os.path.join(wd, "h", hid)
    shutil.rmtree(d, ignore_errors=True)
    os.makedirs(os.path.join(d, "clean"))
    clock = 2
    state = dict(g="g1", l="l1", opts=dict(OPTS0))

    def put(name, text, t, sub=None):
        p = os.path.join(d, sub, name) if sub else os.path.join(d, name)
        with open(p, "w") as f:
            f.write(text)
        os.utime(p, (BASE + t * 10, BASE + t * 10))
    put("g.y", G["g1"], 1)
    put("l.l", L["l1"], 1)
    ev = [dict(ev="hist", id=hid, ginfo=gi, linfo=li, g0="g1", l0="l1", opts0=dict(OPTS0))]
    for op in h:
        if op[0] == "edit_g":
            put("g.y", G[op[1]], clock)
            state["g"] = op[1]
            clock += 1
            ev.append(dict(ev="edit_g", v=op[1]))
        elif op[0] == "edit_g_same":
            # same modification time as the generated parser (if there is one)
            op_ = os.path.join(d, "g.y.rs")
            put("g.y", G[op[1]], clock)
            if os.path.exists(op_):
                st = os.stat(op_)
                os.utime(os.path.join(d, "g.y"), ns=(st.st_mtime_ns, st.st_mtime_ns))
            state["g"] = op[1]
            clock += 1
            ev.append(dict(ev="edit_g_same", v=op[1]))
        elif op[0] == "edit_l":
            put("l.l", L[op[1]], clock)
            state["l"] = op[1]
            clock += 1
            ev.append(dict(ev="edit_l", v=op[1]))
        elif op[0] == "set":
            state["opts"][op[1]] = op[2]
            ev.append(dict(ev="set", k=op[1], v=op[2]))
        else:
            which = op[1]
            before = {n: (os.stat(os.path.join(d, n)).st_mtime_ns if os.path.exists(os.path.join(d, n)) else None) for n in ("g.y.rs", "l.l.rs")}
            r = ctstep(d, None, which, state["opts"])
            # generated files get the model's logical time
            for n in ("g.y.rs", "l.l.rs"):
                p = os.path.join(d, n)
                if os.path.exists(p) and os.stat(p).st_mtime_ns != before[n]:
                    os.utime(p, (BASE + clock * 10, BASE + clock * 10))
            r["rewritten_g"] = os.path.exists(os.path.join(d, "g.y.rs")) and os.stat(os.path.join(d, "g.y.rs")).st_mtime_ns != before["g.y.rs"] or False
            # the clean build of the same sources and settings, in an empty directory
            cd = os.path.join(d, "clean")
            for n in os.listdir(cd):
                os.remove(os.path.join(cd, n))
            put("g.y", G[state["g"]], 1, "clean")
            put("l.l", L[state["l"]], 1, "clean")
            c = ctstep(d, "clean", which, state["opts"])
            r["clean_g"] = c["grammar_out"]
            r["clean_l"] = c.get("lexer_out", dict(exists=False, digest=""))
            r["clean_ok"] = c["ok"]
            if "lexer_out" not in r:
                r["lexer_out"] = dict(exists=False, digest="")
            clock += 1
            ev.append(r)
    shutil.rmtree(d, ignore_errors=True)
    return [json.dumps(x) + "\n" for x in ev]


def validate(res, idx, hs, prop):
    path = os.path.join(res.wd, "trace-%d.ndjson" % idx)
    n = 0
    with open(path, "w") as f:
        for lines in hs:
            f.writelines(lines)
            n += len(lines)
    r = core.run_tlc("TraceCT", "TraceCT.cfg", dict(TRACE=path, PROP=prop), res.wd, timeout=900, workers=1, heap="3g")
    tup = core.tuples(r["out"])
    devs = [core.parse_dev(t) for t in tup if '"DEV"' in t[:12]]
    done = [t for t in tup if '"DONE"' in t[:12]]
    consumed = int(done[-1].replace("<<", "").replace(">>", "").split(",")[1]) if done else None
    return dict(r=r, devs=devs, consumed=consumed, nlines=n, hs=hs)


def run(res, prop, tier, replay=None):
    seed = core.seed()
    thorough = tier == "thorough"
    core.build_harness()
    conf = probe(res)
    gi, li = ginfo(conf), linfo()
    if replay:
        with open(replay) as f:
            hs = [json.load(f)["history"]]
        hs = [[tuple(x) for x in h] for h in hs]
    else:
        hs = histories(seed, 3000 if thorough else 60)
        if prop in ("C01", "C13", "C14", "C15"):
            # the builds-over-a-used-directory part of those properties: histories whose builds succeed
            # (setting changes, edits - also within the same tick - between valid versions)
            hs = [h for h in hs if not any(op[0] in ("edit_g", "edit_g_same") and op[1] not in ("g1", "g2", "g3") or op[0] == "edit_l" and op[1] != "l1" for op in h)]
            # same-tick edits first, then one history per setting, then the rest
            same = [h for h in hs if any(op[0] == "edit_g_same" for op in h)]
            rest = [h for h in hs if h not in same]
            hs = (same[:(60 if thorough else 14)] + rest)[:(400 if thorough else 90)]
        if prop == "C03":
            hs = [h for h in hs if any(op[0] == "edit_g" and ("conf" in op[1] or "exp" in op[1] or "rr" in op[1] or "both" in op[1]) for op in h)]
    with concurrent.futures.ThreadPoolExecutor(max_workers=max(2, core.NCPU - 4)) as ex:
        traces = list(ex.map(lambda a: run_history(res.wd, "h%d" % a[0], a[1], gi, li), enumerate(hs)))
    sub = prop not in ("C18", "C03")
    res.notes["incremental_histories" if sub else "histories"] = len(hs)
    res.notes["incremental_builds" if sub else "builds"] = sum(sum(1 for x in t if '"ev": "build"' in x) for t in traces)
    if not replay:
        # binding self-test: flip `regenerated' of a build
        st = None
        for t in traces:
            for k, x in enumerate(t):
                e = json.loads(x)
                if e.get("ev") == "build" and e["which"] == "parser" and e["ok"]:
                    e["regenerated"] = not e["regenerated"]
                    e["grammar_out"]["exists"] = not e["grammar_out"]["exists"]
                    v = validate(res, 9000, [t[:k] + [json.dumps(e) + "\n"] + t[k + 1:]], "C18")
                    st = dict(rejected=len(v["devs"]) > 0, corruption="regenerated flag and file presence flipped")
                    break
            if st:
                break
        res.notes["incremental_binding_selftest" if sub else "binding_selftest"] = st
        if st and not st["rejected"]:
            raise core.ToolError("binding self-test failed")
    n = 1 if replay else (12 if thorough else 4)
    parts = [traces[i::n] for i in range(n)]
    with concurrent.futures.ThreadPoolExecutor(max_workers=n) as ex:
        results = list(ex.map(lambda a: validate(res, a[0], a[1], prop), enumerate(parts)))
    hid = {"h%d" % i: h for i, h in enumerate(hs)}
    for v in results:
        res.add_tlc(v["r"])
        for d in v["devs"]:
            res.deviation(d, dict(history=hid.get(d["inst"]), seed=seed))
        if v["consumed"] == v["nlines"]:
            res.cov["traces_validated_against_impl"] += len(v["hs"])
        elif v["r"]["timeout"]:
            res.cov["inconclusive"] += len(v["hs"])
        else:
            res.violation("trace rejected by the specification: " + (v["r"]["error"] or "not all events consumed")[:400],
                          dict(tlc_out=v["r"]["out"][-2000:]))
    if not sub:
        for h in hs[:3]:
            res.sample(dict(history=h))


def main(pid, tier, replay=None):
    res = core.Result(pid, "model_checking", tier)
    if not replay:
        cfg = os.path.join(res.wd, "MC_CTBuild.cfg")
        with open(cfg, "w") as f:
            f.write("SPECIFICATION MCSpec\nCONSTANTS\n  Depth = %d\nINVARIANT InvClean\nINVARIANT InvClean2\nINVARIANT InvNoStale\n"
                    "INVARIANT InvNoStaleLexer\nCHECK_DEADLOCK FALSE\n" % (8 if tier == "thorough" else 6))
        r = core.run_tlc("MC_CTBuild", cfg, {}, res.wd, timeout=1800, workers=8, heap="8g")
        res.add_tlc(r)
        res.notes["mc"] = dict(distinct=r["distinct"], depth=8 if tier == "thorough" else 6,
                               what="all histories of edits / setting changes / parser and combined builds over 4 grammar and 3 lexer versions")
        if r["error"]:
            res.violation("bounded model CTBuild.tla: " + r["error"][:400], dict(kind="mc"))
        # the parser builder's part of the same statement for histories of ANY length over ANY set of
        # grammar versions: inductive invariant + theorems, TLAPS (a proof concerns the specification
        # alone; one that does not go through is no verdict on the code)
        proof = core.run_tlapm("CTBuildProof", ["CTBuild"], res.wd, threads=8)
        p_out = proof.pop("out")
        res.notes["tlaps_theorems"] = dict(proof, what="CTBuildProof.tla: Inv inductive (an output newer than the grammar file was made from its current version); "
                                                        "AfterBuild (successful build = clean build), NoStale, Unchanged, BothLexer, BothParser")
        if proof["outcome"] != "proved":
            res.cov["inconclusive"] += 1
            res.notes["tlaps_output"] = p_out[-600:]
    run(res, "C18", tier, replay)
    if not replay:
        deprecated_entry(res, "C18")
    res.assumptions += ["file modification times follow a monotonic clock (edits get a newer time than anything written before)",
                        "rustc, the file system and the build timestamp embedded in generated files are outside the model",
                        "a combined build that fails in the lexer specification is not expected to touch the parser's output"]
    return res.finish()
