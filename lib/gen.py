"""Instance generation: catalogue and seeded-random grammars (text renderings only - the
abstract grammar the specification works on is what the implementation reports for them)."""
import random

RULES = ["S", "A", "B", "C", "D", "E", "F", "G"]
TOKS = ["a", "b", "c", "d", "e", "f", "g", "h"]

PROFILES = {
    # general mix: nullable symbols, recursion of all kinds, occasional conflicts
    "mix": dict(nr=(1, 5), nt=(1, 5), np=(1, 3), maxlen=4, p_empty=0.18, p_rule=0.45,
                p_prec=0.25, p_precprod=0.15, p_avoid=0.15, productive=0.9, p_unit=0.1),
    # biased towards deterministic grammars: short productions, token-led
    "det": dict(nr=(2, 5), nt=(2, 5), np=(1, 3), maxlen=3, p_empty=0.08, p_rule=0.4,
                p_prec=0.0, p_precprod=0.0, p_avoid=0.1, productive=1.0, p_unit=0.05, token_led=0.7),
    # conflict-rich with precedence declarations
    "conflict": dict(nr=(1, 3), nt=(2, 5), np=(2, 4), maxlen=3, p_empty=0.1, p_rule=0.6,
                     p_prec=0.9, p_precprod=0.35, p_avoid=0.0, productive=1.0, p_unit=0.1),
    # anything goes: unproductive, unreachable, cyclic
    "wild": dict(nr=(1, 6), nt=(1, 5), np=(1, 3), maxlen=4, p_empty=0.2, p_rule=0.55,
                 p_prec=0.1, p_precprod=0.05, p_avoid=0.1, productive=0.8, p_unit=0.12),
    # for recovery: productive, mostly acyclic, few conflicts
    "rec": dict(nr=(2, 4), nt=(2, 5), np=(1, 3), maxlen=3, p_empty=0.1, p_rule=0.4,
                p_prec=0.15, p_precprod=0.0, p_avoid=0.3, productive=1.0, p_unit=0.03, token_led=0.5),
}


def gen_grammar(rng, prof):
    """Return (yacc text, info)."""
    P = PROFILES[prof] if isinstance(prof, str) else prof
    nr = rng.randint(*P["nr"])
    nt = rng.randint(*P["nt"])
    rules = RULES[:nr]
    toks = TOKS[:nt]
    prods = {}
    for r in rules:
        ps = []
        for _ in range(rng.randint(*P["np"])):
            if rng.random() < P["p_empty"]:
                ps.append([])
                continue
            if rng.random() < P.get("p_unit", 0):
                ps.append([rng.choice(rules)])
                continue
            n = rng.randint(1, P["maxlen"])
            rhs = []
            for i in range(n):
                if i == 0 and rng.random() < P.get("token_led", 0):
                    rhs.append(rng.choice(toks))
                elif rng.random() < P["p_rule"]:
                    rhs.append(rng.choice(rules))
                else:
                    rhs.append(rng.choice(toks))
            ps.append(rhs)
        if rng.random() < P["productive"] and not any(all(s in toks for s in p) for p in ps):
            ps.append([rng.choice(toks) for _ in range(rng.randint(0, 2))])
        # no duplicate productions (they would be reduce/reduce noise)
        seen = []
        for p in ps:
            if p not in seen:
                seen.append(p)
        prods[r] = seen
    used_toks = [t for t in toks if any(t in p for ps in prods.values() for p in ps)]
    decls = []
    prec = {}
    if used_toks and rng.random() < P["p_prec"]:
        pool = used_toks[:]
        rng.shuffle(pool)
        nlev = rng.randint(1, 3)
        for lv in range(nlev):
            if not pool:
                break
            k = rng.randint(1, max(1, len(pool) // (nlev - lv)))
            grp, pool = pool[:k], pool[k:]
            kind = rng.choice(["%left", "%right", "%nonassoc"])
            decls.append("%s %s" % (kind, " ".join("'%s'" % t for t in grp)))
            for t in grp:
                prec[t] = (lv, kind)
    avoid = [t for t in used_toks if rng.random() < P["p_avoid"]]
    if avoid:
        decls.append("%%avoid_insert %s" % " ".join("'%s'" % t for t in avoid))
    lines = ["%start S"] + decls + ["%%"]
    for r in rules:
        alts = []
        for p in prods[r]:
            s = " ".join(("'%s'" % x) if x in toks else x for x in p)
            if prec and rng.random() < P["p_precprod"]:
                s += " %%prec '%s'" % rng.choice(sorted(prec))
            alts.append(s)
        lines.append("%s: %s;" % (r, " | ".join(alts)))
    return "\n".join(lines) + "\n", dict(profile=prof if isinstance(prof, str) else "custom")


def gen_nonlalr(rng):
    """LR(1)-but-not-LALR(1) family (merging by core alone gives a reduce/reduce conflict),
    with random decoration so that Pager has to keep the critical states apart while merging
    others."""
    t = TOKS[:]
    rng.shuffle(t)
    a, b, c, d, e, f = t[:6]
    variants = []
    # classic: S: a A d | b B d | a B e | b A e; A: c; B: c;
    tail = rng.choice(["", " '%s'" % f])
    body_a = rng.choice(["'%s'" % c, "'%s' '%s'" % (c, c), "C", "'%s' C" % c])
    body_b = body_a
    lines = ["%start S", "%%",
             "S: '%s' A '%s'%s | '%s' B '%s'%s | '%s' B '%s'%s | '%s' A '%s'%s%s;" % (
                 a, d, tail, b, d, tail, a, e, tail, b, e, tail,
                 rng.choice(["", " | '%s' S" % f, " | S '%s'" % f]) if not tail else ""),
             "A: %s;" % body_a, "B: %s;" % body_b]
    if "C" in body_a:
        lines.append("C: '%s' | '%s' C;" % (c, c) if rng.random() < 0.5 else "C: '%s';" % c)
    return "\n".join(lines) + "\n", dict(profile="nonlalr")


def gen_expr(rng):
    """Ambiguous expression grammars with every mix of precedence declarations (C03)."""
    ops = TOKS[:rng.randint(1, 4)]
    kinds = ["%left", "%right", "%nonassoc"]
    decls = []
    pool = ops[:]
    rng.shuffle(pool)
    declared = []
    while pool and rng.random() < 0.8:
        k = rng.randint(1, len(pool))
        grp, pool = pool[:k], pool[k:]
        decls.append("%s %s" % (rng.choice(kinds), " ".join("'%s'" % x for x in grp)))
        declared += grp
    alts = []
    for o in ops:
        form = rng.choice(["E '%s' E", "E '%s' E", "'%s' E", "E '%s'"]) % o
        if declared and rng.random() < 0.3:
            form += " %%prec '%s'" % rng.choice(declared)
        alts.append(form)
    alts.append("'n'")
    if rng.random() < 0.3:
        alts.append("'(' E ')'")
    exp = []
    if rng.random() < 0.2:
        exp.append("%%expect %d" % rng.randint(0, 3))
    return "\n".join(["%start E"] + exp + decls + ["%%", "E: " + " | ".join(alts) + ";"]) + "\n", dict(profile="expr")


def family(seed, n, profiles):
    """n seeded-random grammars drawn round-robin from `profiles` (names or callables)."""
    rng = random.Random(seed)
    out = []
    for i in range(n):
        p = profiles[i % len(profiles)]
        if p == "nonlalr":
            y, info = gen_nonlalr(rng)
        elif p == "expr":
            y, info = gen_expr(rng)
        else:
            y, info = gen_grammar(rng, p)
        out.append(dict(id="rnd%d-%s" % (i, info["profile"]), y=y, kind="original"))
    return out
