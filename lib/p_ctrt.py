"""C13: a compile-time generated parser and lexer behave like the run-time ones (translation
validation).  Generates grammar/lexer pairs with RECORDING actions, compiles them in one throw-away
crate (build.rs runs the real CTLexerBuilder / CTParserBuilder), runs the generated code and the
run-time pipeline side by side on generated inputs and hands both observations to TLC."""
import json
import os
import random
import shutil
import subprocess

from . import core, p_src

TOKS = ["a", "b", "c", "d", "e"]


def gen_pair(rng, i):
    nt = rng.randint(2, 5)
    toks = TOKS[:nt]
    nr = rng.randint(1, 4)
    rules = ["S", "A", "B", "C"][:nr]
    prods = {}
    for r in rules:
        ps = []
        for _ in range(rng.randint(1, 3)):
            n = rng.choice([0, 1, 1, 2, 2, 3])
            rhs = []
            for k in range(n):
                if k == 0 and rng.random() < 0.6:
                    rhs.append(rng.choice(toks))
                elif rng.random() < 0.4:
                    rhs.append(rng.choice(rules))
                else:
                    rhs.append(rng.choice(toks))
            if rhs not in ps and rhs != [r]:
                ps.append(rhs)
        if not any(all(s in toks for s in p) for p in ps):
            ps.append([rng.choice(toks)])
        prods[r] = ps
    kind = ["grmtools", "original_useraction", "original_generic", "original_noaction"][i % 4]
    decls = []
    if rng.random() < 0.4:
        grp = rng.sample(toks, rng.randint(1, 2))
        decls.append("%s %s" % (rng.choice(["%left", "%right", "%nonassoc"]), " ".join("'%s'" % t for t in grp)))
    if rng.random() < 0.3:
        decls.append("%%avoid_insert '%s'" % rng.choice(toks))
    if rng.random() < 0.3:
        decls.append("%%epp '%s' \"tok %s\"" % (toks[0], toks[0]))
    # 8 consecutive pairs cover yacc kind x recoverer
    opts = dict(recoverer=["cpctplus", "none"][(i // 4) % 2], sformat=rng.choice(["fixed", "variable"]),
                edition=rng.choice(["2021", "2018", "2015"]), vis=rng.choice(["private", "public", "crate"]),
                via_header=rng.random() < 0.4,
                case_insensitive=rng.random() < 0.25, lex_header=rng.random() < 0.5)
    return dict(id="p%d" % i, kind=kind, toks=toks, rules=rules, prods=prods, decls=decls, opts=opts)


def long_pair():
    """a production with eleven symbols: $10 and $11 (not $1 followed by a digit), a nullable rule
    in the middle and at the end"""
    return dict(id="plong", kind="grmtools", toks=["a", "b"], rules=["S", "A"],
                prods={"S": [["a", "b", "A", "b", "a", "b", "a", "b", "a", "b", "A"], ["b"]], "A": [["a", "a"], []]},
                decls=[], opts=dict(recoverer="cpctplus", sformat="variable", edition="2021", vis="private", via_header=False,
                                    case_insensitive=False, lex_header=False))


def fix_pair(p):
    """keep only tokens the productions use (the lexer must not define others) and declarations
    about them"""
    used = set(s for ps in p["prods"].values() for rhs in ps for s in rhs if s in p["toks"])
    # only rules reachable from S count: a token used only in an unreachable rule is still a token
    # of the grammar, so `used' is right as it is; but a grammar without any token gets one
    if not used:
        p["prods"]["S"].append([p["toks"][0]])
        used = {p["toks"][0]}
    p["toks"] = [t for t in p["toks"] if t in used]
    p["decls"] = [dl for dl in p["decls"] if all(("'%s'" % t not in dl) or t in used for t in TOKS)]
    return p


def buildable(pairs, wd):
    """drop pairs whose grammar the library (rightly) refuses to build a table for, e.g. an
    accept/reduce conflict from S: A; A: S - CT and RT both fail on those, there is nothing to compare"""
    job = os.path.join(wd, "pairs-job.json")
    out = os.path.join(wd, "pairs-digest.ndjson")
    with open(job, "w") as f:
        json.dump(dict(instances=[dict(id=p["id"], y=render_pair(p)[0], kind=p["kind"]) for p in pairs]), f)
    core.run_vh(["digest", job, out])
    bad = set()
    for line in open(out):
        e = json.loads(line)
        if "ERR" in e["digest"] or "PANIC" in e["digest"]:
            bad.add(e["id"])
    return [p for p in pairs if p["id"] not in bad]


LEXFLAGS = ["dot_matches_new_line", "multi_line", "swap_greed", "ignore_whitespace", "case_insensitive"]
FLAG_L = "%%\na a+ 'AA'\nb. 'BD'\nc$ 'CE'\n^d 'DS'\ne+ 'EP'\n[a-z] 'ANY'\n[\\t\\x20]+ ;\n\\n ;\n"
FLAG_INPUTS = ["aaa a aa a a", "b\nb c\nc c", "d\nd d", "eee e", "AAA B\n CE", "a  a", "bb b\n", "c c\n", "E eE", "a aa a", "bc\nd"]


def lex_names(ltext):
    import re
    names = []
    for line in ltext.split("\n"):
        m = re.search(r"""(?:>|\s)['"]([^'"]+)['"]\s*$""", line)
        if m and m.group(1) not in names:
            names.append(m.group(1))
    return names


def hdr(flags):
    return "%grmtools{" + ", ".join((k if v else "!" + k) for k, v in flags.items()) + "}\n"


def lex_cases(rng, thorough):
    """lexer-only CT vs RT: every flag x both values x given in the section / through the builder,
    section + builder together (the builder wins), and start-state machines with every kind of
    target operation"""
    from . import p_lex
    cases = []
    for f in LEXFLAGS:
        for v in (True, False):
            for via in ("header", "builder"):
                cases.append(dict(l=(hdr({f: v}) if via == "header" else "") + FLAG_L, builder=({f: v} if via == "builder" else {}),
                                  rt_l=hdr({f: v}) + FLAG_L, inputs=FLAG_INPUTS))
    for _ in range(60 if thorough else 6):
        hf = {f: rng.random() < 0.5 for f in rng.sample(LEXFLAGS, rng.randint(1, 3))}
        bf = {f: rng.random() < 0.5 for f in rng.sample(LEXFLAGS, rng.randint(1, 3))}
        merged = dict(hf)
        merged.update(bf)
        cases.append(dict(l=hdr(hf) + FLAG_L, builder=bf, rt_l=hdr(merged) + FLAG_L, inputs=FLAG_INPUTS))
    sm = [i for i in p_lex.instances(rng.randrange(1 << 30), 600 if thorough else 0) if i["id"].startswith(("lexsm", "lex-fixed"))]
    rng.shuffle(sm)
    fixed = [i for i in sm if i["id"].startswith("lex-fixed")]
    other = [i for i in sm if not i["id"].startswith("lex-fixed")]
    for i in fixed + other[:(120 if thorough else 8)]:
        cases.append(dict(l=i["l"], builder={}, rt_l=i["l"], inputs=i["inputs"][:12]))
    for k, c in enumerate(cases):
        c["id"] = "lx%d" % k
        c["names"] = lex_names(c["l"])
    return cases


def lex_crate_parts(d, cases):
    """-> (build.rs lines, main.rs include lines, main body lines)"""
    build, incl, body = [], [], []
    for c in cases:
        with open(os.path.join(d, "src", c["id"] + ".l"), "w") as f:
            f.write(c["l"])
        with open(os.path.join(d, "src", c["id"] + ".rt.l"), "w") as f:
            f.write(c["rt_l"])
        ins = "".join("m.insert(%s.to_string(), %du32); " % (json.dumps(n), k) for k, n in enumerate(c["names"]))
        fl = "".join(".%s(%s)" % (f, "true" if v else "false") for f, v in c["builder"].items())
        build.append('    { let mut m = std::collections::HashMap::new(); %sCTLexerBuilder::new().rule_ids_map(m)%s'
                     '.lexer_path("src/%s.l").output_path(format!("{}/%s.l.rs", out)).build().unwrap(); }' % (ins, fl, c["id"], c["id"]))
        incl.append('include!(concat!(env!("OUT_DIR"), "/%s.l.rs"));' % c["id"])
        body.append("    if !threaded {")
        body.append('        let ct = %s_l::lexerdef();' % c["id"])
        body.append('        let mut rtdef = LRNonStreamingLexerDef::<DefaultLexerTypes<u32>>::from_str(include_str!("%s.rt.l")).unwrap();' % c["id"])
        body.append("        let map: HashMap<&str, u32> = vec![%s].into_iter().collect();" % ", ".join("(%s, %du32)" % (json.dumps(n), k) for k, n in enumerate(c["names"])))
        body.append("        rtdef.set_rule_ids(&map);")
        body.append("        for input in %s {" % json.dumps(c["inputs"]))
        body.append('            let a = lexemes_str(&ct.lexer(input)); let b = lexemes_str(&rtdef.lexer(input));')
        body.append('            emit("%s", input, (a, "LEXONLY".to_string(), "[]".to_string()), (b, "LEXONLY".to_string(), "[]".to_string()));' % c["id"])
        body.append("        }")
        body.append("    }")
    return build, incl, body


def action_text(pair, pid, rhs):
    """a recording action: production id, $span, every $k (Ok / Err lexeme or child value), the
    text under the span through $lexer, and a literal dollar sign"""
    args = []
    for k, s in enumerate(rhs):
        if s in pair["toks"]:
            args.append('match $%d { Ok(l) => format!("T{}@{}+{}", l.tok_id(), l.span().start(), l.span().len()), '
                        'Err(l) => format!("E{}@{}+{}", l.tok_id(), l.span().start(), l.span().len()) }' % (k + 1))
        else:
            args.append("$%d" % (k + 1))
    vec = "vec![%s]" % ", ".join(args) if args else "Vec::<String>::new()"
    return ('{ format!("(p%d {}..{} [{}] <{}> $$)", $span.start(), $span.end(), %s.join(","), $lexer.span_str($span)) }' % (pid, vec))


def render_pair(pair):
    kind = pair["kind"]
    lines = []
    o = pair["opts"]
    hdr = []
    if o["via_header"]:
        yk = {"grmtools": "Grmtools", "original_useraction": "Original(YaccOriginalActionKind::UserAction)",
              "original_generic": "Original(YaccOriginalActionKind::GenericParseTree)",
              "original_noaction": "Original(YaccOriginalActionKind::NoAction)"}[kind]
        hdr.append("yacckind: " + yk)
        hdr.append("recoverer: RecoveryKind::%s" % ("CPCTPlus" if o["recoverer"] == "cpctplus" else "None"))
        lines.append("%grmtools{" + ", ".join(hdr) + "}")
    lines.append("%start S")
    if kind == "original_useraction":
        lines.append("%actiontype String")
    lines += pair["decls"]
    lines.append("%%")
    pid = 0
    for r in pair["rules"]:
        alts = []
        for rhs in pair["prods"][r]:
            body = " ".join(("'%s'" % s) if s in pair["toks"] else s for s in rhs)
            if kind in ("grmtools", "original_useraction"):
                body += " " + action_text(pair, pid, rhs)
            alts.append(body)
            pid += 1
        head = ("%s -> String" % r) if kind == "grmtools" else r
        lines.append("%s: %s ;" % (head, "\n  | ".join(alts)))
    ytext = "\n".join(lines) + "\n"
    ll = []
    if o["lex_header"]:
        ll.append("%grmtools{" + ("case_insensitive" if o["case_insensitive"] else "!case_insensitive") + "}")
    ll.append("%%")
    for t in pair["toks"]:
        ll.append("%s '%s'" % (t, t))
    ll.append("[ \\t\\n]+ ;")
    ltext = "\n".join(ll) + "\n"
    return ytext, ltext


def gen_inputs(pair, rng, n):
    toks = pair["toks"]
    # sentences by random derivation, then corrupted
    def derive(r, depth):
        ps = pair["prods"][r]
        cands = [p for p in ps if depth > 0 or all(s in toks for s in p)] or ps
        p = rng.choice(cands)
        out = []
        for s in p:
            if s in toks:
                out.append(s)
            else:
                if depth <= -3:
                    return None
                sub = derive(s, depth - 1)
                if sub is None:
                    return None
                out += sub
        return out
    res = []
    for _ in range(n):
        s = derive("S", 3) or []
        s = s[:10]
        r = rng.random()
        if r < 0.5 and s:
            k = rng.randint(1, 2)
            for _ in range(k):
                op = rng.randrange(3)
                i = rng.randrange(len(s) + 1)
                if op == 0:
                    s.insert(i, rng.choice(toks))
                elif op == 1 and s:
                    s.pop(min(i, len(s) - 1))
                elif s:
                    s[min(i, len(s) - 1)] = rng.choice(toks)
        text = " ".join(s)
        if pair["opts"]["case_insensitive"] and pair["opts"]["lex_header"] and rng.random() < 0.5:
            text = text.upper()
        if rng.random() < 0.1:
            text += " ?"        # lexing error
        res.append(text)
    res.append("")
    return res


MAIN_RS = r'''
// generated by /verif/lib/p_ctrt.py - CT vs RT side by side
#![allow(unused, deprecated, clippy::all)]
use std::collections::HashMap;
use cfgrammar::{Span, yacc::{YaccGrammar, YaccKind, YaccOriginalActionKind}};
use lrlex::{DefaultLexerTypes, DefaultLexeme, LRNonStreamingLexerDef, LexerDef};
use lrpar::{LexParseError, Lexeme, Lexer, NonStreamingLexer, ParseRepair, RTParserBuilder, RecoveryKind, LexError, parser::AStackType};
use lrtable::{Minimiser, from_yacc};

fn esc(s: &str) -> String { serde_free_json_string(s) }
fn serde_free_json_string(s: &str) -> String {
    let mut o = String::from("\"");
    for c in s.chars() {
        match c { '"' => o.push_str("\\\""), '\\' => o.push_str("\\\\"), '\n' => o.push_str("\\n"), '\t' => o.push_str("\\t"), '\r' => o.push_str("\\r"),
                  c if (c as u32) < 0x20 => o.push_str(&format!("\\u{:04x}", c as u32)), c => o.push(c) }
    }
    o.push('"');
    o
}
fn errs_str(errs: &[LexParseError<u32, DefaultLexerTypes<u32>>]) -> String {
    // a JSON array of {d: description, set: sorted repair sequences, first: the one that was applied}
    let mut out = Vec::new();
    for e in errs {
        match e {
            LexParseError::LexError(le) => out.push(format!("{{\"d\":{},\"set\":\"\",\"first\":\"\"}}", esc(&format!("LEX@{}", le.span().start())))),
            LexParseError::ParseError(pe) => {
                let mut reps: Vec<String> = pe.repairs().iter().map(|seq| seq.iter().map(|r| match r {
                    ParseRepair::Insert(t) => format!("I{}", usize::from(*t)),
                    ParseRepair::Delete(l) => format!("D{}@{}", l.tok_id(), l.span().start()),
                    ParseRepair::Shift(l) => format!("S{}@{}", l.tok_id(), l.span().start()),
                }).collect::<Vec<_>>().join(" ")).collect();
                let first = reps.first().cloned().unwrap_or_default();
                reps.sort();
                let d = format!("PARSE st{} lx{}@{}+{}{}", usize::from(pe.stidx()), pe.lexeme().tok_id(), pe.lexeme().span().start(), pe.lexeme().span().len(),
                                if pe.lexeme().faulty() { "F" } else { "" });
                out.push(format!("{{\"d\":{},\"set\":{},\"first\":{}}}", esc(&d), esc(&reps.join(" | ")), esc(&first)));
            }
        }
    }
    format!("[{}]", out.join(","))
}
fn lexemes_str(lexer: &dyn NonStreamingLexer<DefaultLexerTypes<u32>>) -> String {
    lexer.iter().map(|r| match r { Ok(l) => format!("{}@{}+{}", l.tok_id(), l.span().start(), l.span().len()), Err(e) => format!("ERR@{}", e.span().start()) }).collect::<Vec<_>>().join(" ")
}
fn node_str(n: &lrpar::Node<DefaultLexeme<u32>, u32>) -> String {
    match n {
        lrpar::Node::Term { lexeme } => format!("{}{}@{}+{}", if lexeme.faulty() { "E" } else { "T" }, lexeme.tok_id(), lexeme.span().start(), lexeme.span().len()),
        lrpar::Node::Nonterm { ridx, nodes } => format!("(r{} {})", usize::from(*ridx), nodes.iter().map(node_str).collect::<Vec<_>>().join(" ")),
    }
}

/// the run-time pipeline on the same sources
fn rt(kind: &str, recoverer: RecoveryKind, ytext: &str, ltext: &str, input: &str) -> (String, String, String) {
    let yk = match kind {
        "grmtools" => YaccKind::Grmtools,
        "original_useraction" => YaccKind::Original(YaccOriginalActionKind::UserAction),
        "original_generic" => YaccKind::Original(YaccOriginalActionKind::GenericParseTree),
        _ => YaccKind::Original(YaccOriginalActionKind::NoAction),
    };
    let (_, pos) = cfgrammar::header::GrmtoolsSectionParser::new(ytext, false).parse().unwrap();
    let _ = pos;
    let grm = YaccGrammar::<u32>::new(yk, ytext).unwrap();
    let (_, stable) = from_yacc(&grm, Minimiser::Pager).unwrap();
    let mut lexerdef = LRNonStreamingLexerDef::<DefaultLexerTypes<u32>>::from_str(ltext).unwrap();
    let map: HashMap<&str, u32> = grm.tokens_map().into_iter().map(|(k, v)| (k, u32::from(v))).collect();
    lexerdef.set_rule_ids(&map);
    let lexer = lexerdef.lexer(input);
    let lx = lexemes_str(&lexer);
    let pb = RTParserBuilder::new(&grm, &stable).recoverer(recoverer);
    match kind {
        "grmtools" | "original_useraction" => {
            type AFn<'a, 'b> = dyn Fn(cfgrammar::RIdx<u32>, &'b dyn NonStreamingLexer<'b, DefaultLexerTypes<u32>>, Span,
                                      std::vec::Drain<AStackType<DefaultLexeme<u32>, String>>, ()) -> String + 'a;
            let closures: Vec<Box<AFn>> = grm.iter_pidxs().map(|pidx| {
                let b: Box<AFn> = Box::new(move |_r, lexer: &dyn NonStreamingLexer<DefaultLexerTypes<u32>>, span: Span, args: std::vec::Drain<AStackType<DefaultLexeme<u32>, String>>, _p: ()| {
                    let a = args.map(|x| match x {
                        AStackType::ActionType(s) => s,
                        AStackType::Lexeme(l) => format!("{}{}@{}+{}", if l.faulty() { "E" } else { "T" }, l.tok_id(), l.span().start(), l.span().len()),
                    }).collect::<Vec<_>>();
                    format!("(p{} {}..{} [{}] <{}> $)", usize::from(pidx), span.start(), span.end(), a.join(","), lexer.span_str(span))
                });
                b
            }).collect();
            let actions: Vec<&AFn> = closures.iter().map(|b| b.as_ref()).collect();
            let (v, errs) = pb.parse_actions(&lexer, &actions, ());
            (lx, v.unwrap_or_else(|| "NONE".to_string()), errs_str(&errs))
        }
        "original_generic" => {
            let (v, errs) = pb.parse_generictree(&lexer);
            (lx, v.map(|n| node_str(&n)).unwrap_or_else(|| "NONE".to_string()), errs_str(&errs))
        }
        _ => {
            let errs = pb.parse_noaction(&lexer);
            (lx, "NOACTION".to_string(), errs_str(&errs))
        }
    }
}

fn emit(id: &str, input: &str, ct: (String, String, String), rt: (String, String, String)) {
    println!("{{\"ev\":\"ctrt\",\"id\":{},\"input\":{},\"ct\":{{\"lexemes\":{},\"value\":{},\"errors\":{}}},\"rt\":{{\"lexemes\":{},\"value\":{},\"errors\":{}}}}}",
             esc(id), esc(input), esc(&ct.0), esc(&ct.1), ct.2, esc(&rt.0), esc(&rt.1), rt.2);
}
fn emit_consts(id: &str, what: &str, ct: String, rt: String) {
    println!("{{\"ev\":\"ctrt\",\"id\":{},\"input\":{},\"ct\":{{\"lexemes\":\"\",\"value\":{},\"errors\":[]}},\"rt\":{{\"lexemes\":\"\",\"value\":{},\"errors\":[]}}}}",
             esc(id), esc(what), esc(&ct), esc(&rt));
}
'''


def gen_crate(d, pairs, inputs, lexcases=()):
    shutil.rmtree(d, ignore_errors=True)
    os.makedirs(os.path.join(d, "src"))
    os.makedirs(os.path.join(d, ".cargo"))
    shutil.copy(os.path.join(core.VERIF, "harness", "Cargo.lock"), os.path.join(d, "Cargo.lock"))
    repo = os.environ.get("VERIF_REPO_DIR", "/repo")
    # the scratch-repository override used when evaluating seeded changes
    ht = open(os.path.join(core.HARNESS, "Cargo.toml")).read()
    import re
    m = re.search(r'cfgrammar = \{ path = "([^"]+)/cfgrammar"', ht)
    if m:
        repo = m.group(1)
    with open(os.path.join(d, "Cargo.toml"), "w") as f:
        f.write('[package]\nname = "ctgen"\nversion = "0.1.0"\nedition = "2021"\nbuild = "build.rs"\n\n[workspace]\n\n'
                '[build-dependencies]\ncfgrammar = { path = "%s/cfgrammar" }\nlrlex = { path = "%s/lrlex" }\nlrpar = { path = "%s/lrpar" }\n\n'
                '[dependencies]\ncfgrammar = { path = "%s/cfgrammar" }\nlrlex = { path = "%s/lrlex" }\nlrpar = { path = "%s/lrpar" }\nlrtable = { path = "%s/lrtable" }\n\n'
                '[profile.dev]\nopt-level = 1\ndebug = false\n' % ((repo,) * 7))
    with open(os.path.join(d, ".cargo", "config.toml"), "w") as f:
        f.write('[net]\noffline = true\n\n[build]\ntarget-dir = "%s"\nrustflags = ["--cfg", "grmtools_verif", "--check-cfg", "cfg(grmtools_verif)"]\n'
                % os.path.join(core.HARNESS, "target"))
    build = ["use lrlex::CTLexerBuilder;", "use lrpar::RecoveryKind;", "use cfgrammar::yacc::{YaccKind, YaccOriginalActionKind};",
             "fn main() {", '    let out = std::env::var("OUT_DIR").unwrap();']
    main = [MAIN_RS]
    body = ["fn main() {", "    cfgrammar::verif::set_recovery_budget_ms(Some(4000));",
            '    let threaded = std::env::args().nth(1).as_deref() == Some("threads");']
    for p in pairs:
        ytext, ltext = render_pair(p)
        with open(os.path.join(d, "src", p["id"] + ".y"), "w") as f:
            f.write(ytext)
        with open(os.path.join(d, "src", p["id"] + ".l"), "w") as f:
            f.write(ltext)
        o = p["opts"]
        yk = {"grmtools": "YaccKind::Grmtools", "original_useraction": "YaccKind::Original(YaccOriginalActionKind::UserAction)",
              "original_generic": "YaccKind::Original(YaccOriginalActionKind::GenericParseTree)",
              "original_noaction": "YaccKind::Original(YaccOriginalActionKind::NoAction)"}[p["kind"]]
        ed = {"2015": "Rust2015", "2018": "Rust2018", "2021": "Rust2021"}[o["edition"]]
        vis = {"private": "Private", "public": "Public", "crate": "PublicCrate"}[o["vis"]]
        cfgp = "ctp.rust_edition(lrpar::RustEdition::%s).visibility(lrpar::Visibility::%s).warnings_are_errors(false).show_warnings(false).error_on_conflicts(false)" % (ed, vis)
        cfgp += ".serialisation_format(lrpar::SerialisationFormat::%s)" % ("FixedSizeInteger" if o["sformat"] == "fixed" else "VariableSizedInteger")
        if not o["via_header"]:
            cfgp += ".yacckind(%s).recoverer(RecoveryKind::%s)" % (yk, "CPCTPlus" if o["recoverer"] == "cpctplus" else "None")
        cfgp += '.grammar_path("src/%s.y").output_path(format!("{}/%s.y.rs", out))' % (p["id"], p["id"])
        lb = "    { let out = out.clone(); CTLexerBuilder::new().rust_edition(lrlex::RustEdition::%s)" % ed
        if not o["lex_header"] and o["case_insensitive"]:
            lb += ".case_insensitive(true)"
        lb += '.lrpar_config(move |ctp| %s).lexer_path("src/%s.l").output_path(format!("{}/%s.l.rs", std::env::var("OUT_DIR").unwrap())).build().unwrap(); }' % (cfgp, p["id"], p["id"])
        build.append(lb)
        main.append('include!(concat!(env!("OUT_DIR"), "/%s.l.rs"));' % p["id"])
        main.append('include!(concat!(env!("OUT_DIR"), "/%s.y.rs"));' % p["id"])
        rk = "RecoveryKind::CPCTPlus" if o["recoverer"] == "cpctplus" else "RecoveryKind::None"
        body.append("    {")
        body.append('        let ytext = include_str!("%s.y"); let ltext = include_str!("%s.l");' % (p["id"], p["id"]))
        body.append("        let lexerdef = %s_l::lexerdef();" % p["id"])
        # C15: first use of the generated parser from 8 threads released together
        body.append("        if threaded {")
        body.append("            let input = %s;" % json.dumps(inputs[p["id"]][0]))
        body.append("            let barrier = std::sync::Barrier::new(8);")
        body.append("            let results: Vec<(String, String, String)> = std::thread::scope(|sc| {")
        body.append("                let hs: Vec<_> = (0..8).map(|_| sc.spawn(|| {")
        body.append("                    cfgrammar::verif::set_recovery_budget_ms(Some(4000));")
        body.append("                    let lexer = lexerdef.lexer(input);")
        body.append("                    let lx = lexemes_str(&lexer);")
        body.append("                    barrier.wait();")
        if p["kind"] in ("grmtools", "original_useraction"):
            body.append("                    let (v, errs) = %s_y::parse(&lexer);" % p["id"])
            body.append('                    (lx, v.unwrap_or_else(|| "NONE".to_string()), errs_str(&errs))')
        elif p["kind"] == "original_generic":
            body.append("                    let (v, errs) = %s_y::parse(&lexer);" % p["id"])
            body.append('                    (lx, v.map(|n| node_str(&n)).unwrap_or_else(|| "NONE".to_string()), errs_str(&errs))')
        else:
            body.append("                    let errs = %s_y::parse(&lexer);" % p["id"])
            body.append('                    (lx, "NOACTION".to_string(), errs_str(&errs))')
        body.append("                })).collect();")
        body.append("                hs.into_iter().map(|h| h.join().unwrap()).collect()")
        body.append("            });")
        if not p["opts"]["lex_header"] and p["opts"]["case_insensitive"]:
            body.append('            let ltext2 = format!("%grmtools{{case_insensitive}}\\n{}", ltext); let ltext = ltext2.as_str();')
        body.append('            let reference = rt("%s", %s, ytext, ltext, input);' % (p["kind"], "RecoveryKind::CPCTPlus" if p["opts"]["recoverer"] == "cpctplus" else "RecoveryKind::None"))
        body.append('            for r in results { emit("%s", input, r, reference.clone()); }' % p["id"])
        body.append("        } else {")
        body.append("        for input in %s {" % json.dumps(inputs[p["id"]]))
        body.append("            let lexer = lexerdef.lexer(input);")
        body.append("            let lx = lexemes_str(&lexer);")
        if p["kind"] in ("grmtools", "original_useraction"):
            body.append("            let (v, errs) = %s_y::parse(&lexer);" % p["id"])
            body.append('            let ct = (lx, v.unwrap_or_else(|| "NONE".to_string()), errs_str(&errs));')
        elif p["kind"] == "original_generic":
            body.append("            let (v, errs) = %s_y::parse(&lexer);" % p["id"])
            body.append('            let ct = (lx, v.map(|n| node_str(&n)).unwrap_or_else(|| "NONE".to_string()), errs_str(&errs));')
        else:
            body.append("            let errs = %s_y::parse(&lexer);" % p["id"])
            body.append('            let ct = (lx, "NOACTION".to_string(), errs_str(&errs));')
        # the lexer flags reach the RT side only through the .l text: when they were given through
        # the builder, say so in the RT source by prepending the equivalent section
        if not o["lex_header"] and o["case_insensitive"]:
            body.append('            let ltext2 = format!("%grmtools{{case_insensitive}}\\n{}", ltext); let ltext = ltext2.as_str();')
        body.append('            emit("%s", input, ct, rt("%s", %s, ytext, ltext, input));' % (p["id"], p["kind"], rk))
        body.append("        }")
        body.append("        }")
        # constants: token_epp, R_*, N_*
        body.append("        let grm = YaccGrammar::<u32>::new(%s, ytext).unwrap();" % yk.replace("YaccKind::", "YaccKind::").replace("YaccOriginalActionKind::", "YaccOriginalActionKind::"))
        body.append('        let ct_epp = grm.iter_tidxs().map(|t| format!("{:?}", %s_y::token_epp(t))).collect::<Vec<_>>().join(",");' % p["id"])
        body.append('        let rt_epp = grm.iter_tidxs().map(|t| format!("{:?}", grm.token_epp(t))).collect::<Vec<_>>().join(",");')
        body.append('        emit_consts("%s", "token_epp", ct_epp, rt_epp);' % p["id"])
        rc = ", ".join('format!("%s={}", %s_y::R_%s)' % (r, p["id"], r.upper()) for r in p["rules"])
        rr = ", ".join('format!("%s={}", usize::from(grm.rule_idx("%s").unwrap()))' % (r, r) for r in p["rules"])
        body.append('        emit_consts("%s", "rule constants", vec![%s].join(","), vec![%s].join(","));' % (p["id"], rc, rr))
        nc = ", ".join('format!("%s={}", %s_l::N_%s)' % (t, p["id"], t.upper()) for t in p["toks"])
        nr = ", ".join('format!("%s={}", grm.token_idx("%s").map(|x| usize::from(x) as i64).unwrap_or(-1))' % (t, t) for t in p["toks"])
        body.append('        emit_consts("%s", "token constants", vec![%s].join(","), vec![%s].join(","));' % (p["id"], nc, nr))
        body.append("    }")
    lb_, li_, lbody_ = lex_crate_parts(d, lexcases)
    build += lb_
    main += li_
    body += lbody_
    build.append("}")
    body.append("}")
    with open(os.path.join(d, "build.rs"), "w") as f:
        f.write("\n".join(build) + "\n")
    with open(os.path.join(d, "src", "main.rs"), "w") as f:
        f.write("\n".join(main) + "\n" + "\n".join(body) + "\n")


def run_lex_flags(res, prop, tier):
    """C11: `flags given through the builder are the ones in force' for the compile-time builder:
    every CTLexerBuilder flag setter (and %grmtools section + setter together) against the run-time
    lexer built from the same text with the flags written in its section"""
    seed = core.seed()
    rng = random.Random(seed * 31 + 11)
    cases = [c for c in lex_cases(rng, tier == "thorough") if c["l"].endswith(FLAG_L)]
    d = os.path.join(res.wd, "ctgen")
    gen_crate(d, [], {}, cases)
    b = subprocess.run(["cargo", "build", "--offline", "--quiet"], cwd=d, env=dict(os.environ, CARGO_NET_OFFLINE="true"),
                       stdout=subprocess.PIPE, stderr=subprocess.STDOUT, text=True)
    if b.returncode != 0:
        res.violation("compile-time lexers did not build: " + b.stdout[-1200:], dict(seed=seed))
        return
    r = subprocess.run([os.path.join(core.HARNESS, "target", "debug", "ctgen")], cwd=d, stdout=subprocess.PIPE, stderr=subprocess.PIPE, text=True, timeout=600)
    lines = [x + "\n" for x in r.stdout.splitlines() if x.startswith("{")]
    if r.returncode != 0 or not lines:
        res.violation("the generated lexers crashed: " + r.stderr[-800:], dict(seed=seed))
        return
    v = p_src.validate(res, "TraceCTRT", 77, lines, dict(PROP=prop))
    res.add_tlc(v["r"])
    byid = {c["id"]: c for c in cases}
    for dv in v["devs"]:
        res.deviation(dv, dict(instance=byid.get(dv["inst"]), seed=seed))
    if v["consumed"] != v["nlines"] and not v["r"]["timeout"]:
        res.violation("trace rejected by the specification", dict(tlc_out=v["r"]["out"][-1500:]))
    distinct = len(set(json.loads(x)["ct"]["lexemes"] for x in lines if json.loads(x)["input"] == FLAG_INPUTS[1]))
    if distinct < 3 and not res.violations:
        raise core.ToolError("flag cases are not distinguishing (vacuous)")
    res.notes["ct_builder_flag_cases"] = len(cases)
    res.cov["traces_validated_against_impl"] += len(lines)
    shutil.rmtree(d, ignore_errors=True)


def ct_lexers(res, prop, tier):
    """the lexer that CTLexerBuilder GENERATES is a lexer too: the start-state machines and fixed cases
    of C09 compiled, run on their inputs and compared with the run-time lexer of the same text (whose
    behaviour C09's trace specification decides)"""
    seed = core.seed()
    rng = random.Random(seed * 37 + 9)
    cases = [c for c in lex_cases(rng, tier == "thorough") if not c["l"].endswith(FLAG_L)]
    d = os.path.join(res.wd, "ctgen")
    gen_crate(d, [], {}, cases)
    b = subprocess.run(["cargo", "build", "--offline", "--quiet"], cwd=d, env=dict(os.environ, CARGO_NET_OFFLINE="true"),
                       stdout=subprocess.PIPE, stderr=subprocess.STDOUT, text=True)
    if b.returncode != 0:
        res.violation("compile-time lexers did not build: " + b.stdout[-1200:], dict(seed=seed))
        return
    exe = os.path.join(res.wd, "ctgen-bin")
    shutil.copy(os.path.join(core.HARNESS, "target", "debug", "ctgen"), exe)
    r = subprocess.run([exe], cwd=d, stdout=subprocess.PIPE, stderr=subprocess.PIPE, text=True, timeout=600)
    lines = [x + "\n" for x in r.stdout.splitlines() if x.startswith("{")]
    if r.returncode != 0 or not lines:
        res.violation("the generated lexers crashed: " + r.stderr[-800:], dict(seed=seed))
        return
    v = p_src.validate(res, "TraceCTRT", 78, lines, dict(PROP=prop))
    res.add_tlc(v["r"])
    byid = {c["id"]: c for c in cases}
    for dv in v["devs"]:
        dv["prop"] = prop
        res.deviation(dv, dict(instance=byid.get(dv["inst"]), seed=seed))
    res.notes["compile_time_lexers"] = len(cases)
    res.cov["traces_validated_against_impl"] += len(lines)
    shutil.rmtree(d, ignore_errors=True)


def startup(res, prop, seed, thorough=False):
    """C14's last clause on the code that is generated: compiled parsers, one per serialisation format
    (x yacc kind), reconstitute their embedded grammar and table at start-up and must then parse every
    input like the parser built from the originals (the run-time side)"""
    rng = random.Random(seed * 53 + 5)
    pairs = []
    for k, kind in enumerate(["grmtools", "original_generic", "original_noaction", "original_useraction"][:(4 if thorough else 2)]):
        for sf in ("fixed", "variable"):
            p = long_pair()
            p.update(id="pser_%s_%s" % (kind, sf), kind=kind)
            p["opts"] = dict(p["opts"], sformat=sf, recoverer=["cpctplus", "none"][k % 2])
            pairs.append(p)
    inputs = {p["id"]: gen_inputs(p, rng, 10) for p in pairs}
    d = os.path.join(res.wd, "ctgen")
    gen_crate(d, pairs, inputs)
    b = subprocess.run(["cargo", "build", "--offline", "--quiet"], cwd=d, env=dict(os.environ, CARGO_NET_OFFLINE="true"),
                       stdout=subprocess.PIPE, stderr=subprocess.STDOUT, text=True)
    if b.returncode != 0:
        res.violation("the generated parsers did not build: " + b.stdout[-800:], dict(seed=seed))
        return
    exe = os.path.join(res.wd, "ctgen-bin")
    shutil.copy(os.path.join(core.HARNESS, "target", "debug", "ctgen"), exe)
    r = subprocess.run([exe], cwd=d, stdout=subprocess.PIPE, stderr=subprocess.PIPE, text=True, timeout=600)
    lines = [x + "\n" for x in r.stdout.splitlines() if x.startswith('{"ev":"ctrt"')]
    if r.returncode != 0:
        res.violation("a generated parser crashed while reconstituting its tables / parsing: " + r.stderr[-600:], dict(seed=seed))
    res.notes["generated_startup"] = dict(parsers=len(pairs), formats=["fixed", "variable"], results=len(lines))
    if lines:
        v = p_src.validate(res, "TraceCTRT", 2, lines, dict(PROP=prop))
        res.add_tlc(v["r"])
        for dv in v["devs"]:
            dv["prop"] = prop
            res.deviation(dv, dict(seed=seed, what="a generated parser (tables reconstituted at start-up) differs from the parser built from the originals"))
        res.cov["traces_validated_against_impl"] += len(lines)
    shutil.rmtree(d, ignore_errors=True)


def main(pid, tier, replay=None):
    res = core.Result(pid, "translation_validation", tier)
    if replay:
        with open(replay) as f:
            if "history" in json.load(f):
                from . import p_ct
                p_ct.run(res, pid, tier, replay)
                return res.finish()
    seed = core.seed()
    rng = random.Random(seed * 29 + 13)
    core.build_harness()
    n = 160 if tier == "thorough" else 8
    pairs = [gen_pair(rng, i) for i in range(2 * n)]
    cands = buildable([fix_pair(p) for p in pairs], res.wd)
    # every yacc kind x recoverer combination first (whatever the filter dropped), then the rest
    chosen = []
    for k in ("grmtools", "original_useraction", "original_generic", "original_noaction"):
        for rk in ("cpctplus", "none"):
            c = [p for p in cands if p["kind"] == k and p["opts"]["recoverer"] == rk and p not in chosen]
            if c:
                chosen.append(c[0])
    chosen += [p for p in cands if p not in chosen]
    pairs = [long_pair()] + chosen[:max(n, 8)]
    inputs = {p["id"]: gen_inputs(p, rng, 80 if tier == "thorough" else 28) for p in pairs}
    d = os.path.join(res.wd, "ctgen")
    lexcases = lex_cases(rng, tier == "thorough")
    gen_crate(d, pairs, inputs, lexcases)
    env = dict(os.environ, CARGO_NET_OFFLINE="true")
    b = subprocess.run(["cargo", "build", "--offline", "--quiet"], cwd=d, env=env, stdout=subprocess.PIPE, stderr=subprocess.STDOUT, text=True)
    if b.returncode != 0:
        # a generated module that does not compile (or a builder that fails on a valid pair) is a
        # disagreement between CT and RT in itself - but first make sure it is not our own crate
        res.violation("the generated parsers / lexers did not build: " + b.stdout[-1500:], dict(pairs=[dict(id=p["id"], y=render_pair(p)[0], l=render_pair(p)[1]) for p in pairs], seed=seed))
        res.cov.update(programs=len(pairs), disagreements_checked=0)
        return res.finish()
    r = subprocess.run([os.path.join(core.HARNESS, "target", "debug", "ctgen")], cwd=d, stdout=subprocess.PIPE, stderr=subprocess.PIPE, text=True, timeout=1800)
    lines = [x + "\n" for x in r.stdout.splitlines() if x.startswith("{")]
    if r.returncode != 0:
        res.violation("the generated program crashed: " + r.stderr[-800:], dict(seed=seed))
    trace = os.path.join(res.wd, "trace.ndjson")
    with open(trace, "w") as f:
        f.writelines(lines)
    if lines:
        # (values are compared only for inputs without errors: corrupt such a line)
        cand = [x for x in lines if '"errors":[]' in x and "LEXONLY" not in x] or lines
        e = json.loads(cand[0])
        e["ct"]["value"] += "x"
        v = p_src.validate(res, "TraceCTRT", 9000, [json.dumps(e) + "\n"], {})
        st = dict(rejected=len(v["devs"]) > 0, corruption="CT value altered")
        res.notes["binding_selftest"] = st
        if not st["rejected"]:
            raise core.ToolError("binding self-test failed")
    v = p_src.validate(res, "TraceCTRT", 0, lines, {})
    res.add_tlc(v["r"])
    byid = {p["id"]: dict(id=p["id"], kind=p["kind"], opts=p["opts"], y=render_pair(p)[0], l=render_pair(p)[1]) for p in pairs}
    byid.update({c["id"]: c for c in lexcases})
    res.notes["lexer_only_cases"] = len(lexcases)
    for dv in v["devs"]:
        res.deviation(dv, dict(instance=byid.get(dv["inst"]), seed=seed))
    if v["consumed"] != v["nlines"] and not v["r"]["timeout"]:
        res.violation("trace rejected by the specification", dict(tlc_out=v["r"]["out"][-1500:]))
    nerr = sum(1 for x in lines if '"errors":[{' in x)
    res.cov.update(programs=len(pairs), disagreements_checked=len(lines), traces_validated_against_impl=len(lines),
                   inputs_with_errors=nerr, kinds=sorted(set(p["kind"] for p in pairs)),
                   settings=[p["opts"] for p in pairs][:4])
    for p in pairs[:2]:
        res.sample(dict(id=p["id"], kind=p["kind"], opts=p["opts"], y=render_pair(p)[0]))
    res.assumptions += ["rustc compiles the generated modules faithfully", "the RT side's behaviour is itself validated by the checks of C05-C09"]
    shutil.rmtree(d, ignore_errors=True)
    if not replay:
        # the module left in place by a build over a used output directory is the module validated
        # above: the one a clean build generates (shared with C18: lib/p_ct.py, TraceCT.tla)
        from . import p_ct
        p_ct.run(res, pid, tier)
        # ... and the deprecated entry point generates the module build() generates
        p_ct.deprecated_entry(res, pid)
    return res.finish()
