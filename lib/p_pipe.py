"""C14 (serialise + reconstitute is a stuttering step on the projection) and C15 (the same sources
give the same projection in every process / thread)."""
import concurrent.futures
import json
import os
import random
import subprocess

from . import catalog, core, gen, genyacc, p_src


def grammars(seed, n):
    rng = random.Random(seed * 23 + 14)
    out = []
    for c in catalog.select(exclude=["arconf"]):
        out.append(dict(id=c["id"], y=c["y"], kind=c["kind"]))
    for i in range(n):
        d = genyacc.gen_doc(rng)
        y, _ = genyacc.render(d, rng)
        out.append(dict(id="doc%d" % i, y=y, kind=d["kind"]))
    for g in gen.family(seed * 3 + 14, n // 2, ["mix", "conflict", "expr", "det"]):
        out.append(g)
    for g in out:
        g["inputs"] = [[rng.randrange(6) for _ in range(rng.randint(0, 6))] for _ in range(6)]
    return out


def c14(pid, tier, replay):
    res = core.Result(pid, "exploration", tier)
    seed = core.seed()
    if replay:
        with open(replay) as f:
            insts = [json.load(f)["instance"]]
    else:
        insts = grammars(seed, 400 if tier == "thorough" else 60)
    job = os.path.join(res.wd, "job.json")
    trace = os.path.join(res.wd, "trace.ndjson")
    with open(job, "w") as f:
        json.dump(dict(instances=insts), f)
    core.run_vh(["ser", job, trace])
    lines = open(trace).readlines()
    evs = [json.loads(x) for x in lines]
    rec = [e for e in evs if e["ev"] == "reconstitute"]
    built = [e for e in evs if e["ev"] == "built"]
    nontrivial = set()
    for e in built:
        o = e["optional"]
        if e["states"] >= 2 and (o["precs"] or o["epp"] or o["avoid"] or o["expect"] or o["actions"] or o["nonascii"]):
            nontrivial.add(e["id"])
    if not replay:
        bad = dict(rec[0])
        bad["digest"] = "0000"
        k = lines.index(json.dumps(rec[0], separators=(",", ":")) + "\n") if (json.dumps(rec[0], separators=(",", ":")) + "\n") in lines else None
        test = [x for x in lines[:3]]
        # corrupt the first reconstitute event of the first instance
        t2 = []
        done = False
        for x in lines[:12]:
            e = json.loads(x)
            if e["ev"] == "reconstitute" and not done:
                e["digest"] = "0000"
                done = True
            t2.append(json.dumps(e) + "\n")
        v = p_src.validate(res, "TracePipe", 9000, t2, dict(PROP="C14"))
        st = dict(rejected=len(v["devs"]) > 0, corruption="digest after reconstitute changed")
        res.notes["binding_selftest"] = st
        if not st["rejected"]:
            raise core.ToolError("binding self-test failed")
    byid = {i["id"]: i for i in insts}
    # instances must stay together (built precedes its reconstitutes): one TLC run
    v = p_src.validate(res, "TracePipe", 0, lines, dict(PROP="C14"))
    res.add_tlc(v["r"])
    for d in v["devs"]:
        res.deviation(d, dict(instance=byid.get(d["inst"]), seed=seed))
    if v["consumed"] != v["nlines"] and not v["r"]["timeout"]:
        res.violation("trace rejected by the specification: " + (v["r"]["error"] or "not all events consumed")[:400], dict(tlc_out=v["r"]["out"][-2000:]))
    widths = {}
    for e in rec:
        widths["u%d/%s" % (e["width"], e["format"])] = widths.get("u%d/%s" % (e["width"], e["format"]), 0) + 1
    res.cov.update(evaluations=len(rec), distinct_nontrivial=len(nontrivial),
                   rule="one evaluation = (grammar, storage width, integer encoding) round trip with the full observation (every accessor, every cell, views, conflicts, parses of 6 inputs) compared before / after; distinct non-trivial = distinct grammars with >= 2 states and at least one optional declaration (precedence, %epp, %avoid_insert, %expect, actions, non-ASCII text)",
                   round_trips=widths, table_size_mod_64=sorted(set(e["optional"]["table_bits_mod64"] for e in built))[:20])
    res.cov["traces_validated_against_impl"] = len(rec)
    for i in insts[:2]:
        res.sample(dict(id=i["id"], y=i["y"]))
    res.assumptions += ["wincode itself is trusted; what is checked is that nothing observable is lost or altered by the derive'd schemas and the reconstitution path"]
    return res.finish()


def main(pid, tier, replay=None):
    if pid == "C14":
        return c14(pid, tier, replay)
    raise core.ToolError("not built: " + pid)
