"""C14 (serialise + reconstitute is a stuttering step on the projection) and C15 (the same sources
give the same projection in every process / thread)."""
import concurrent.futures
import json
import os
import random
import subprocess

from . import catalog, core, gen, genyacc, p_src


def grammars(seed, n):
    rng = random.Random(seed * 23 + 14)
    out = []
    for c in catalog.select(exclude=["arconf"]):
        out.append(dict(id=c["id"], y=c["y"], kind=c["kind"]))
    for i in range(n):
        d = genyacc.gen_doc(rng)
        y, _ = genyacc.render(d, rng)
        out.append(dict(id="doc%d" % i, y=y, kind=d["kind"]))
    for g in gen.family(seed * 3 + 14, n // 2, ["mix", "conflict", "expr", "det"]):
        out.append(g)
    for g in out:
        g["inputs"] = [[rng.randrange(6) for _ in range(rng.randint(0, 6))] for _ in range(6)]
    # the optional declarations the document generator does not write (%parse-param, %parse-generics):
    # variants of every second instance with one or both inserted at the end of the declarations
    # (found missing by seeded change C14-m13: a skipped `parse_param` field)
    r2 = random.Random(seed * 29 + 14)
    PP = ["%parse-param p: u8", "%parse-param ctx: &'a mut Vec<u64>", "%parse-param st: std::collections::HashMap<String, (u8, é)>"]
    PG = ["%parse-generics 'a", "%parse-generics 'a, K, V: Clone"]
    for g in list(out):
        k = g["y"].find("\n%%")
        if k < 0 or "%parse-" in g["y"] or r2.random() < 0.5:
            continue
        ins = r2.choice([[r2.choice(PP)], [r2.choice(PG)], [r2.choice(PP), r2.choice(PG)], [r2.choice(PG), r2.choice(PP)]])
        out.append(dict(g, id=g["id"] + "+pp", y=g["y"][:k] + "\n" + "\n".join(ins) + g["y"][k:]))
    return out


def is_history_replay(replay):
    if not replay:
        return False
    with open(replay) as f:
        return "history" in json.load(f)


def incremental(res, pid, tier, replay=None):
    """the module a build leaves in place over a used output directory is the one of a clean build
    (shared with C18: lib/p_ct.py, TraceCT.tla, deviations tagged with this property)"""
    from . import p_ct
    p_ct.run(res, pid, tier, replay)


def c14(pid, tier, replay):
    res = core.Result(pid, "exploration", tier)
    if is_history_replay(replay):
        incremental(res, pid, tier, replay)
        return res.finish()
    seed = core.seed()
    if replay:
        with open(replay) as f:
            insts = [json.load(f)["instance"]]
    else:
        insts = grammars(seed, 3000 if tier == "thorough" else 60)
    job = os.path.join(res.wd, "job.json")
    trace = os.path.join(res.wd, "trace.ndjson")
    with open(job, "w") as f:
        json.dump(dict(instances=insts), f)
    core.run_vh(["ser", job, trace])
    lines = open(trace).readlines()
    evs = [json.loads(x) for x in lines]
    rec = [e for e in evs if e["ev"] == "reconstitute"]
    built = [e for e in evs if e["ev"] == "built"]
    nontrivial = set()
    for e in built:
        o = e["optional"]
        if e["states"] >= 2 and (o["precs"] or o["epp"] or o["avoid"] or o["expect"] or o["actions"] or o["nonascii"]):
            nontrivial.add(e["id"])
    if not replay:
        bad = dict(rec[0])
        bad["digest"] = "0000"
        k = lines.index(json.dumps(rec[0], separators=(",", ":")) + "\n") if (json.dumps(rec[0], separators=(",", ":")) + "\n") in lines else None
        test = [x for x in lines[:3]]
        # corrupt the first reconstitute event of the first instance
        t2 = []
        done = False
        for x in lines[:12]:
            e = json.loads(x)
            if e["ev"] == "reconstitute" and not done:
                e["digest"] = "0000"
                done = True
            t2.append(json.dumps(e) + "\n")
        v = p_src.validate(res, "TracePipe", 9000, t2, dict(PROP="C14"))
        st = dict(rejected=len(v["devs"]) > 0, corruption="digest after reconstitute changed")
        res.notes["binding_selftest"] = st
        if not st["rejected"]:
            raise core.ToolError("binding self-test failed")
    byid = {i["id"]: i for i in insts}
    # instances must stay together (built precedes its reconstitutes): one TLC run
    v = p_src.validate(res, "TracePipe", 0, lines, dict(PROP="C14"))
    res.add_tlc(v["r"])
    for d in v["devs"]:
        res.deviation(d, dict(instance=byid.get(d["inst"]), seed=seed))
    if v["consumed"] != v["nlines"] and not v["r"]["timeout"]:
        res.violation("trace rejected by the specification: " + (v["r"]["error"] or "not all events consumed")[:400], dict(tlc_out=v["r"]["out"][-2000:]))
    widths = {}
    for e in rec:
        widths["u%d/%s" % (e["width"], e["format"])] = widths.get("u%d/%s" % (e["width"], e["format"]), 0) + 1
    res.cov.update(evaluations=len(rec), distinct_nontrivial=len(nontrivial),
                   rule="one evaluation = (grammar, storage width, integer encoding) round trip with the full observation (every accessor, every cell, views, conflicts, parses of 6 inputs) compared before / after; distinct non-trivial = distinct grammars with >= 2 states and at least one optional declaration (precedence, %epp, %avoid_insert, %expect, actions, non-ASCII text)",
                   with_parse_param_or_generics=len(set(e["id"] for e in built if e["id"].endswith("+pp"))),
                   round_trips=widths, table_size_mod_64=sorted(set(e["optional"]["table_bits_mod64"] for e in built))[:20])
    res.cov["traces_validated_against_impl"] = len(rec)
    for i in insts[:2]:
        res.sample(dict(id=i["id"], y=i["y"]))
    res.assumptions += ["wincode itself is trusted; what is checked is that nothing observable is lost or altered by the derive'd schemas and the reconstitution path"]
    if not replay:
        # "as every generated parser does at start-up": compiled generated parsers, both formats
        from . import p_ctrt
        p_ctrt.startup(res, pid, seed, tier == "thorough")
        incremental(res, pid, tier)
    return res.finish()


def c15(pid, tier, replay):
    from . import p_ct, p_ctrt
    res = core.Result(pid, "model_checking", tier)
    if is_history_replay(replay):
        incremental(res, pid, tier, replay)
        return res.finish()
    seed = core.seed()
    thorough = tier == "thorough"
    core.build_harness()
    # (1) the once-cell protocol of first use, all interleavings of 3 threads
    r = core.run_tlc("OnceInit", "OnceInit.cfg", {}, res.wd, timeout=600, workers=4)
    res.add_tlc(r)
    res.notes["once_init_model"] = dict(distinct=r["distinct"], threads=3)
    if r["error"]:
        res.violation("OnceInit.tla: " + r["error"][:300], dict(kind="mc"))
    # (1b) the same two invariants for ANY set of threads: an inductive invariant, proved by TLAPS
    proof = core.run_tlapm("OnceInitProof", ["OnceInit"], res.wd, threads=6)
    p_out = proof.pop("out")
    res.notes["tlaps_theorem"] = dict(proof, what="THEOREM Safety: Spec => [](OneInit /\\ NoUseBeforePublish) for any set of threads (inductive invariant IndInv)")
    # (a proof is about the specification alone - the code is bound to it by the traces - so a
    # proof that does not go through, e.g. a prover timing out on a loaded machine, is no verdict)
    if proof["outcome"] != "proved":
        res.cov["inconclusive"] += 1
        res.notes["tlaps_output"] = p_out[-600:]
    # (2) K independent processes (fresh hash seeds) must observe the same grammar, Pager
    #     decisions, graph and table for every instance, all yacc kinds incl. Eco implicit tokens
    K = 16 if thorough else 5
    if replay:
        with open(replay) as f:
            insts = [json.load(f)["instance"]]
    else:
        insts = grammars(seed, 2000 if thorough else 60)
        rng = random.Random(seed)
        for i in range(300 if thorough else 10):
            d = genyacc.gen_doc(rng, kind="eco")
            y, _ = genyacc.render(d, rng)
            insts.append(dict(id="eco%d" % i, y=y, kind="eco"))
        insts.append(dict(id="eco-implicit3", kind="eco", y="%start S\n%implicit_tokens 'w1' 'w2' 'w3' 'w4'\n%%\nS: 'a' S | 'b';\n"))
    job = os.path.join(res.wd, "job.json")
    with open(job, "w") as f:
        json.dump(dict(instances=[dict(id=i["id"], y=i["y"], kind=i["kind"]) for i in insts]), f)

    def one(k):
        out = os.path.join(res.wd, "digest-%d.ndjson" % k)
        core.run_vh(["digest", job, out])
        return open(out).readlines()
    with concurrent.futures.ThreadPoolExecutor(max_workers=min(K, 8)) as ex:
        traces = list(ex.map(one, range(K)))
    lines = [x for t in traces for x in t]
    # (3) generated modules byte-identical (timestamp aside) across processes
    gen_lines = []
    gd = os.path.join(res.wd, "gen")
    LANY = "%%\n[a-z] 'a'\n[ ]+ ;\n"
    mods = [("g1-l1", p_ct.G["g1"], p_ct.L["l1"], True), ("g2-l2", p_ct.G["g2"], p_ct.L["l2"], True),
            ("gwarn-lextra", p_ct.G["gwarn"], p_ct.L["lextra"], True), ("gconfe-l1", p_ct.G["gconfe"], p_ct.L["l1"], True),
            # several conflicts: the order they are serialised in must not depend on the hash seed
            ("gconf4", "%start E\n%%\nE: E '+' E | E '*' E | E '-' E | E '/' E | 'n';\n",
             "%%\n\\+ '+'\n\\* '*'\n- '-'\n/ '/'\nn 'n'\n", False),
            ("gboth-l1", p_ct.G["gboth"], p_ct.L["l1"], False),
            ("grr3", "%start S\n%%\nS: A 'a' | B 'a' | C 'a' | A 'b' | B 'b' | C 'b';\nA: 'c';\nB: 'c';\nC: 'c';\n", LANY, False)]
    LNAMED = "%%\na 'a'\nb 'b'\nq 'q'\nv 'v'\nx 'x'\ny 'y'\nz 'z'\nw 'w'\n[ ]+ ;\n"
    for c in catalog.select():
        if c["id"] in ("cat-core-reduces3", "cat-core-reduces4"):
            # three or more distinct reductions in one state; eight named token constants in the lexer
            mods.append((c["id"], c["y"], LNAMED, False))
    cand = [i for i in insts if i["kind"] in ("original", "original_noaction") and not i["id"].startswith("doc")]
    rng3 = random.Random(seed * 7 + 3)
    rng3.shuffle(cand)
    for i in cand[:(150 if thorough else 8)]:
        mods.append(("sampled-" + i["id"], i["y"], LANY, False))      # (ids must differ from the fixed modules above)
    built_ok = 0
    for gi, (mid, ytext, ltext, eoc) in enumerate(mods):
        for k in range(4 if thorough else 3):
            d = os.path.join(gd, "g%d" % gi)
            shutil_rm(d)
            os.makedirs(d)
            open(os.path.join(d, "g.y"), "w").write(ytext)
            open(os.path.join(d, "l.l"), "w").write(ltext)
            o = dict(p_ct.OPTS0)
            o["wae"] = False
            o["eoc"] = eoc
            o["allow_missing_terms_in_lexer"] = True
            o["allow_missing_tokens_in_parser"] = True
            rr = p_ct.ctstep(d, None, "both", o)
            if k == 0 and rr.get("ok"):
                built_ok += 1
            gen_lines.append(json.dumps(dict(ev="built", id="generated-%s" % mid, width=0, proc=k,
                                             digest="%s|%s" % (rr["grammar_out"].get("digest"), rr.get("lexer_out", {}).get("digest")),
                                             diff="generated parser|generated lexer")) + "\n")
        shutil_rm(os.path.join(gd, "g%d" % gi))
    # a lexer on its own with a user-supplied id map in which several names share an id
    lmap = dict(a=0, b=0, q=0, v=1, x=1, y=1, z=2, w=2)
    for k in range(6 if thorough else 4):
        d = os.path.join(gd, "lexmap")
        shutil_rm(d)
        os.makedirs(d)
        open(os.path.join(d, "g.y"), "w").write(p_ct.G["g1"])
        open(os.path.join(d, "l.l"), "w").write(LNAMED)
        rr = p_ct.ctstep(d, None, "lexer", dict(yacckind="original_generic"), rule_ids_map=lmap)
        if k == 0 and rr.get("ok"):
            built_ok += 1
        gen_lines.append(json.dumps(dict(ev="built", id="generated-lexer-shared-ids", width=0, proc=k,
                                         digest="%s|%s" % ("", rr.get("lexer_out", {}).get("digest")),
                                         diff="-|generated lexer")) + "\n")
    shutil_rm(os.path.join(gd, "lexmap"))
    # the module of token-id constants for hand-written lexers (CTTokenMapBuilder): several
    # processes per token map; content against TokenMap.tla, bytes against each other
    tm_lines, ntm = tokmaps(res, random.Random(seed * 101 + 7), 40 if thorough else 8, 4 if thorough else 3)
    gen_lines += tm_lines
    res.notes["token_maps"] = ntm
    res.notes["generated_module_pairs"] = len(mods) + 1
    res.notes["generated_module_pairs_built"] = built_ok
    if built_ok < 6:
        raise core.ToolError("too few generated modules were actually built (%d)" % built_ok)
    lines += gen_lines
    res.notes["processes"] = K
    res.notes["instances"] = len(insts)
    if not replay:
        e = json.loads(lines[0])
        e2 = dict(e, digest=e["digest"] + "x", proc=-1)
        v = p_src.validate(res, "TracePipe", 9000, [lines[0], json.dumps(e2) + "\n"], dict(PROP="C15"))
        st = dict(rejected=len(v["devs"]) > 0, corruption="second process reports a different digest")
        res.notes["binding_selftest"] = st
        if not st["rejected"]:
            raise core.ToolError("binding self-test failed")
    v = p_src.validate(res, "TracePipe", 0, lines, dict(PROP="C15"))
    res.add_tlc(v["r"])
    byid = {i["id"]: i for i in insts}
    for d in v["devs"]:
        res.deviation(d, dict(instance=byid.get(d["inst"]), seed=seed))
    if v["consumed"] != v["nlines"] and not v["r"]["timeout"]:
        res.violation("trace rejected by the specification: " + (v["r"]["error"] or "")[:300], dict(tlc_out=v["r"]["out"][-1500:]))
    res.cov["traces_validated_against_impl"] += len(lines)
    # (4) first use of generated parsers from 8 threads at once, in fresh processes
    rng = random.Random(seed * 31 + 15)
    pairs = [p_ctrt.gen_pair(rng, i) for i in range(8)]
    pairs = p_ctrt.buildable([p_ctrt.fix_pair(p) for p in pairs], res.wd)[:4]
    inputs = {p["id"]: [x for x in p_ctrt.gen_inputs(p, rng, 6) if x][:3] or ["a"] for p in pairs}
    cd = os.path.join(res.wd, "ctgen")
    p_ctrt.gen_crate(cd, pairs, inputs)
    b = subprocess.run(["cargo", "build", "--offline", "--quiet"], cwd=cd, env=dict(os.environ, CARGO_NET_OFFLINE="true"),
                       stdout=subprocess.PIPE, stderr=subprocess.STDOUT, text=True)
    tl = []
    rounds = 200 if thorough else 25
    if b.returncode != 0:
        res.notes["thread_rounds"] = 0
        res.violation("the generated parsers did not build: " + b.stdout[-800:], dict(seed=seed))
    else:
        exe = os.path.join(core.HARNESS, "target", "debug", "ctgen")
        tmp = os.path.join(res.wd, "ctgen-bin")
        shutil.copy(exe, tmp)
        for _ in range(rounds):
            r2 = subprocess.run([tmp, "threads"], cwd=cd, stdout=subprocess.PIPE, stderr=subprocess.PIPE, text=True, timeout=120)
            if r2.returncode != 0:
                res.violation("concurrent first use crashed: " + r2.stderr[-500:], dict(seed=seed))
                break
            tl += [x + "\n" for x in r2.stdout.splitlines() if x.startswith('{"ev":"ctrt"') and '"input":"token' not in x and '"input":"rule' not in x]
        res.notes["thread_rounds"] = rounds
        res.notes["thread_results"] = len(tl)
        if tl:
            v2 = p_src.validate(res, "TraceCTRT", 1, tl, dict(PROP="C15"))
            res.add_tlc(v2["r"])
            for d in v2["devs"]:
                d["prop"] = "C15"
                res.deviation(d, dict(seed=seed, what="a thread's result differs from the sequential (run-time) result"))
            res.cov["traces_validated_against_impl"] += len(tl)
    shutil_rm(cd)
    for i in insts[:2]:
        res.sample(dict(id=i["id"], y=i["y"], kind=i["kind"]))
    res.assumptions += ["thread schedules are sampled on the real code (exhaustive only in OnceInit.tla); std::sync::OnceLock is trusted",
                        "hash seeds: each process gets fresh RandomState keys from the OS"]
    if not replay:
        incremental(res, pid, tier)
    return res.finish()


TM_POOL = ["ID", "int", "Int", "a", "b", "c", "while", "IF", "x1", "long_name", "z", "q", "w", "e", "r", "t", "y", "u", "i", "o", "p",
           "+", "-", "*", "<=", "a b", "\u00e9", "\u00e9t\u00e9", "\u4e16", "_", "A_B", "k9"]
TM_NAMES = {"+": "PLUS", "-": "MINUS", "*": "STAR", "<=": "LE", "a b": "A_B2"}


def tokmaps(res, rng, n, procs):
    """n token maps (names -> ids, rename maps that cover all / some / none of the names that are not
    identifiers), each built by CTTokenMapBuilder in `procs' fresh processes"""
    lines = []
    d = os.path.join(res.wd, "tokmap")
    for i in range(n):
        names = rng.sample(TM_POOL, rng.randint(2, 6) if i % 4 == 3 else rng.randint(10, 22))
        ids = list(range(len(names)))
        rng.shuffle(ids)
        if rng.random() < 0.3:
            ids = [x // 2 for x in ids]            # ids may be shared
        mode = i % 4                               # 0: complete rename map, 1: partial, 2: none, 3: small + odd entries
        bad = [x for x in names if x in TM_NAMES]
        if mode == 0:
            rename = [[x, TM_NAMES[x]] for x in bad]
        elif mode == 1:
            rename = [[x, TM_NAMES[x]] for x in bad[: len(bad) // 2]] + [["ID", "IDENT"]]
        elif mode == 2:
            rename = None
            if rng.random() < 0.5:
                names = [x for x in names if x not in TM_NAMES]
                ids = ids[: len(names)]
        else:
            rename = [["nosuch", "X"], [names[0], "first"], [names[0], "FIRST2"]] + [[x, TM_NAMES[x]] for x in bad]
            if rng.random() < 0.3:
                rename.append([names[-1], "not ok"])
        req = dict(mod_name="toks%d" % i, tokens=[[a, b] for a, b in zip(names, ids)], allow_dead_code=bool(i % 2))
        if rename is not None:
            req["rename"] = rename
        for k in range(procs):
            shutil_rm(d)
            os.makedirs(d)
            rq = os.path.join(d, "req.json")
            with open(rq, "w") as f:
                json.dump(req, f)
            p = subprocess.run([core.VH, "tokmap", rq], env=dict(os.environ, OUT_DIR=d), stdout=subprocess.PIPE, stderr=subprocess.PIPE, text=True, timeout=120)
            if p.returncode != 0 or not p.stdout.startswith("{"):
                raise core.ToolError("vh tokmap failed: " + p.stderr[-500:])
            r = json.loads(p.stdout)
            cps = lambda s: [ord(c) for c in s]
            lines.append(json.dumps(dict(ev="tokmap", id="tokmap%d" % i, proc=k, adc=req["allow_dead_code"],
                                         tokens=[[cps(a), b] for a, b in req["tokens"]],
                                         rename=[[cps(a), cps(b)] for a, b in (rename or [])], res=r)) + "\n")
            lines.append(json.dumps(dict(ev="built", id="generated-tokmap%d" % i, width=0, proc=k, digest=r["digest"] + ("|ok" if r["ok"] else "|err"),
                                         diff="generated token map")) + "\n")
    shutil_rm(d)
    return lines, n


def shutil_rm(d):
    import shutil
    shutil.rmtree(d, ignore_errors=True)


import shutil  # noqa: E402


def main(pid, tier, replay=None):
    if pid == "C15":
        return c15(pid, tier, replay)
    if pid == "C14":
        return c14(pid, tier, replay)
    raise core.ToolError("not built: " + pid)
