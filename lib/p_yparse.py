"""The .y parser (section parser + grammar parser + AST validation) against its transcription
(spec/YaccParse.tla + Header.tla via TraceYaccParse.tla): the AST and the errors of every recorded
ASTWithValidityInfo::new are predicted exactly.  Part of C12 (and C10's spans)."""
import json
import os
import re

from . import core, p_hdr

NAMED = [(re.compile(r"^Start rule '(.*)' does not appear in grammar$", re.S), "invalid start rule"),
         (re.compile(r"^Unknown reference to rule '(.*)'$", re.S), "unknown rule ref"),
         (re.compile(r"^Unknown token '(.*)'$", re.S), "unknown token"),
         (re.compile(r"^Token '(.*)' used in %prec has no precedence attached$", re.S), "no precedence for token"),
         (re.compile(r"^Token '(.*)' in %epp declaration is not referenced in the grammar$", re.S), "unknown epp")]


def cps(s):
    return [ord(c) for c in s]


def norm_err(er):
    for rx, kind in NAMED:
        m = rx.match(er["kind"])
        if m:
            return dict(kind=kind, name=cps(m.group(1)), spans=er["spans"])
    return dict(kind=er["kind"], name=[], spans=er["spans"])


def events(items, lines):
    byid = {i["id"]: i for i in items}
    out = []
    for ln in lines:
        e = json.loads(ln)
        if not e.get("entry", "").startswith("yast_"):
            continue
        it = byid.get(e["id"])
        if it is None:
            continue
        res = e["res"]
        if "errors" in res:
            res["errors"] = [norm_err(x) for x in res["errors"]]
        out.append(json.dumps(dict(ev="yparse", id=e["id"], kind=e["entry"][5:], src=cps(it["s"]), hsrc=p_hdr.classify(it["s"]), res=res)) + "\n")
    return out


def mc(res, tier):
    cfg = os.path.join(res.wd, "MC_YaccParse.cfg")
    n = 4 if tier == "thorough" else 3
    with open(cfg, "w") as f:
        f.write("SPECIFICATION Spec\nCONSTANTS\n  MaxChunks = %d\nINVARIANT Inv\nCHECK_DEADLOCK FALSE\n" % n)
    r = core.run_tlc("MC_YaccParse", cfg, {}, res.wd, timeout=3000, workers=10 if tier == "thorough" else 8, heap="10g")
    res.add_tlc(r)
    res.notes["mc_yaccparse"] = dict(distinct=r["distinct"], max_chunks=n,
                                     what="the transcribed .y parser on every concatenation of up to max_chunks lexical chunks (28 chunks) x 3 yacc kinds: "
                                          "terminates, all spans in bounds, validation yields a result")
    if r["error"]:
        res.violation("bounded model MC_YaccParse.tla: " + r["error"][:500], dict(kind="mc"))
    elif not r["finished"]:
        res.cov["inconclusive"] += 1
