"""C09: the runtime lexer.  Bounded model of Lexer.tla (every definition x every regex
environment) + trace validation of lrlex over seeded-random specifications and inputs."""
import concurrent.futures
import json
import os
import random

from . import core, genlex

DEFAULT_EFF = dict(dot_matches_new_line=True, multi_line=True, octal=True)


def instances(seed, n):
    rng = random.Random(seed * 101 + 9)
    out = []
    for i in range(n):
        doc = genlex.gen_lexdoc(rng)
        inst = dict(id="lex%d" % i, l=genlex.render_lex(doc), eff=DEFAULT_EFF,
                    inputs=[genlex.gen_input(rng) for _ in range(16)] + [""])
        named = [r["name"] for r in doc["rules"] if r["name"]]
        if i % 3 != 2:
            # a parser's token map: most names, some missing, some extra
            mp = {}
            k = 0
            for nm in named:
                if rng.random() < 0.8:
                    mp[nm] = k
                    k += 1
            if rng.random() < 0.4:
                mp["EXTRA%d" % i] = k
            inst["map"] = mp
        out.append(inst)
    # start-state machines: single-letter rules with every kind of stack operation, long inputs
    for i in range(max(20, n // 5)):
        ns = rng.randint(1, 3)
        names = ["S%d" % (k + 1) for k in range(ns)]
        lines = ["%s %s" % (rng.choice(["%x", "%s"]), nm) for nm in names] + ["%%"]
        letters = list("abcdefgh")[:rng.randint(3, 7)]
        for j, ch in enumerate(letters):
            pre = ("<%s>" % ",".join(rng.sample(names + ["INITIAL"], rng.randint(1, 2)))) if rng.random() < 0.4 else ""
            tgt = ("<%s%s>" % (rng.choice(["", "+", "-", "+", "-"]), rng.choice(names + ["INITIAL"]))) if rng.random() < 0.6 else ""
            lines.append("%s%s %s'T%d'" % (pre, ch, tgt, j))
        for nm in names:
            lines.append("<%s>x 'X%s'" % (nm, nm))
        lines.append("x 'X0'")
        out.append(dict(id="lexsm%d" % i, l="\n".join(lines) + "\n", eff=DEFAULT_EFF,
                        inputs=["".join(rng.choice(letters + ["x"]) for _ in range(rng.randint(4, 14))) for _ in range(20)]))
    out.append(dict(id="lex-fixed-replace", eff=DEFAULT_EFF,
                    l="%s A\n%s B\n%%\na <+A>'PA'\nb <+B>'PB'\nc <A>'RA'\np <-A>'POP'\n<A>x 'XA'\n<B>x 'XB'\nx 'X0'\n",
                    inputs=["abcpx", "acpx", "abpx", "abppx", "aabcppx", "bacpx", "x"]))
    # a state pushed onto itself (run-length compressed stack entry), then replaced, then popped
    out.append(dict(id="lex-fixed-count", eff=DEFAULT_EFF,
                    l="%s A\n%x B\n%%\np <+INITIAL>'P'\na <+A>'PA'\nr <A>'R'\nb <B>'RB'\n<B>b <+B>'PB'\n<B>c <INITIAL>'RI'\nq <-A>'Q'\n<B>q <-B>'QB'\n<A>x 'XA'\n<B>x 'XB'\nx 'X0'\n",
                    inputs=["pprqx", "prqx", "pprqqx", "aarqx", "aaqqx", "aaqx", "bbbcqx", "bbqqx", "bbbqx", "ppaarqqqx", "x"]))
    # fixed cases: stack discipline, exclusive states, ties
    out.append(dict(id="lex-fixed-stack", eff=DEFAULT_EFF, l="%x A\n%s B\n%%\n\\( <+A>'LP'\n<A>\\( <+A>'LP2'\n<A>\\) <-A>'RP'\n<A>a 'AA'\na 'A0'\nb <B>'B0'\n<B>c <INITIAL>'C0'\n<A,B>[ ]+ ;\n[ ]+ ;\n",
                    inputs=["((a))a", "(a)(a", "a b a c a", "( ( a ) ) a", ")", "((a)))a", "b a c a"]))
    # regex flags (C09 quantifies over them): rules whose matches depend on each flag, the flag given
    # in the %grmtools section or through the builder, alone and with the opposite value of a neighbour;
    # the match environment is computed under the flags the DOCUMENT asks for
    flagrules = [dict(re=r, name="T%d" % k, states=[], target=None, quote="'") for k, r in enumerate(["a.", "b$", "^c", "d+d", "e e", "k"])] + \
                [dict(re="[\\t\\x20]+", name=None, states=[], target=None, quote="'"), dict(re="\\n", name=None, states=[], target=None, quote="'")]
    finputs = ["a\nb", "b\nb", "c\nc c", "ddd", "e e", "ee", "K k", "a\n", "b", "dd dd"]
    k = 0
    for f in ["dot_matches_new_line", "multi_line", "case_insensitive", "swap_greed", "ignore_whitespace"]:
        for v in (True, False):
            for via in ("header", "builder"):
                for other in (None, "multi_line", "dot_matches_new_line"):
                    if other == f:
                        continue
                    fl = {f: v}
                    if other:
                        fl[other] = not v
                    d = dict(states=[], rules=[dict(r) for r in flagrules], header=(fl if via == "header" else None), builder=(fl if via == "builder" else None))
                    text, rd = genlex.render_lsrc(d, rng)
                    inst = dict(id="lexflag%d" % k, l=text, eff=rd["eff"], inputs=finputs)
                    if via == "builder":
                        inst["builder_flags"] = fl
                    out.append(inst)
                    k += 1
    # start states that are only ever TARGETS of rules (never a prerequisite), inclusive and exclusive
    out.append(dict(id="lex-fixed-target-only", eff=DEFAULT_EFF,
                    l="%s MODE\n%x QUIET\n%%\non <+MODE>'ON'\noff <-MODE>'OFF'\nq <QUIET>'Q'\n[a-p] 'A'\n[ ]+ ;\n",
                    inputs=["a on b off a", "on on off off a", "a q a", "on q", "off a"]))
    out.append(dict(id="lex-fixed-ties", eff=DEFAULT_EFF, l="%%\nif 'IF'\n[a-z]+ 'ID'\n[a-z]+ 'ID2'\ni 'I'\n[ ]+ ;\n",
                    inputs=["if", "ifx", "i", "x if i", "if if"], map={"IF": 5, "ID": 3, "I": 1, "NOPE": 9}))
    return out


def split(path):
    cases = []
    with open(path) as f:
        for line in f:
            if line.startswith('{"doc"') or '"ev":"lexreset"' in line[:400]:
                cases.append([line])
            else:
                cases[-1].append(line)
    return cases


def validate(res, idx, cases, module="TraceLex"):
    path = os.path.join(res.wd, "trace-%d.ndjson" % idx)
    n = 0
    with open(path, "w") as f:
        for c in cases:
            f.writelines(c)
            n += len(c)
    r = core.run_tlc(module, module + ".cfg", dict(TRACE=path), res.wd, timeout=1500, workers=1, heap="3g")
    tup = core.tuples(r["out"])
    devs = [core.parse_dev(t) for t in tup if '"DEV"' in t[:12]]
    done = [t for t in tup if '"DONE"' in t[:12]]
    consumed = int(done[-1].replace("<<", "").replace(">>", "").split(",")[1]) if done else None
    return dict(r=r, devs=devs, consumed=consumed, nlines=n, cases=cases)


def main(pid, tier, replay=None):
    res = core.Result(pid, "model_checking", tier)
    seed = core.seed()
    thorough = tier == "thorough"
    if not replay:
        cfg = os.path.join(res.wd, "MC_Lexer.cfg")
        with open(cfg, "w") as f:
            f.write("SPECIFICATION Spec\nCONSTANTS\n  NR = 2\n  NS = 2\n  InLen = %d\n  StateSets = %s\n  Tgts = %s\n"
                    "INVARIANT Inv\nINVARIANT RunAgrees\nCHECK_DEADLOCK FALSE\n" % (
                        2, "{{}, {0}, {1}, {0, 1}}" if thorough else "{{}, {1}}", "{0, 1}" if thorough else "{1}"))
        r = core.run_tlc("MC_Lexer", cfg, {}, res.wd, timeout=2400, workers=12 if thorough else 6, heap="8g")
        res.add_tlc(r)
        res.notes["mc"] = dict(distinct=r["distinct"], what="every 2-rule definition over 2 start states x every match environment, inputs of 2 bytes")
        if r["error"]:
            res.violation("bounded model Lexer.tla: " + r["error"][:400], dict(kind="mc"))
    if replay:
        with open(replay) as f:
            insts = [json.load(f)["instance"]]
    else:
        insts = instances(seed, 12000 if thorough else 250)
    job = os.path.join(res.wd, "job.json")
    trace = os.path.join(res.wd, "trace.ndjson")
    with open(job, "w") as f:
        json.dump(dict(instances=insts), f)
    core.run_vh(["lex", job, trace])
    cases = split(trace)
    byid = {i["id"]: i for i in insts}
    res.notes["instances"] = len(cases)
    res.notes["lexruns"] = sum(sum(1 for x in c if '"ev":"lexrun"' in x[:30] or x.startswith('{"bounds"')) for c in cases)
    res.notes["rejected_specs"] = sum(1 for c in cases if any('"ev":"lexdef_err"' in x for x in c))
    if not replay:
        # binding self-test: drop the first lexeme of some run
        st = None
        for c in cases:
            done = False
            for k, x in enumerate(c):
                e = json.loads(x)
                if e.get("ev") == "lexrun" and "lexemes" in e["run"] and e["run"]["lexemes"]:
                    e["run"]["lexemes"].pop(0)
                    v = validate(res, 9000, [c[:k] + [json.dumps(e) + "\n"] + c[k + 1:]])
                    st = dict(rejected=len(v["devs"]) > 0, corruption="first lexeme dropped")
                    done = True
                    break
            if done:
                break
        res.notes["binding_selftest"] = st
        if st and not st["rejected"]:
            raise core.ToolError("binding self-test failed")
    n = 1 if replay else (14 if thorough else 5)
    parts = [cases[i::n] for i in range(n)]
    with concurrent.futures.ThreadPoolExecutor(max_workers=n) as ex:
        results = list(ex.map(lambda a: validate(res, a[0], a[1]), enumerate(parts)))
    for v in results:
        res.add_tlc(v["r"])
        for d in v["devs"]:
            res.deviation(d, dict(instance=byid.get(d["inst"]), seed=seed))
        if v["consumed"] == v["nlines"]:
            res.cov["traces_validated_against_impl"] += len(v["cases"])
        elif v["r"]["timeout"]:
            res.cov["inconclusive"] += len(v["cases"])
        else:
            res.violation("trace rejected by the specification: " + (v["r"]["error"] or "not all events consumed")[:400],
                          dict(tlc_out=v["r"]["out"][-2000:]))
    for c in cases[:2]:
        res.sample([json.loads(x) for x in c][:3])
    res.assumptions += ["the regex crate decides what a rule's regular expression matches at an offset (environment); selection, ties, start states, tiling and errors are decided by the specification"]
    if not replay:
        # the generated (compile-time) lexer is a lexer too
        from . import p_ctrt
        p_ctrt.ct_lexers(res, pid, tier)
    return res.finish()
