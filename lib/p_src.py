"""C10 / C11 / C12: the specification parsers.
C10: every rendering of an abstract .y document must give GrammarOf(doc) (YaccSrc.tla).
C11: every rendering of an abstract .l document must give LexerDefOf(doc) (LexSrc.tla).
C12: near-valid inputs (mutations of valid renderings) must satisfy the outcome contract
     (Totality.tla); the %grmtools section parser is additionally model-checked (Header.tla)."""
import concurrent.futures
import json
import os
import random

from . import core, genyacc


def validate(res, module, idx, lines, env):
    path = os.path.join(res.wd, "trace-%s-%d.ndjson" % (module, idx))
    with open(path, "w") as f:
        f.writelines(lines)
    e = dict(env)
    e["TRACE"] = path
    r = core.run_tlc(module, module + ".cfg", e, res.wd, timeout=1800, workers=1, heap="4g")
    tup = core.tuples(r["out"])
    devs = [core.parse_dev(t) for t in tup if '"DEV"' in t[:12]]
    done = [t for t in tup if '"DONE"' in t[:12]]
    consumed = int(done[-1].replace("<<", "").replace(">>", "").split(",")[1]) if done else None
    return dict(r=r, devs=devs, consumed=consumed, nlines=len(lines), lines=lines)


def run_parts(res, module, lines, env, nparts, byid, seed):
    parts = [lines[i::nparts] for i in range(nparts)]
    parts = [p for p in parts if p]
    with concurrent.futures.ThreadPoolExecutor(max_workers=len(parts)) as ex:
        results = list(ex.map(lambda a: validate(res, module, a[0], a[1], env), enumerate(parts)))
    for v in results:
        res.add_tlc(v["r"])
        for d in v["devs"]:
            res.deviation(d, dict(instance=byid.get(d["inst"]), seed=seed))
        if v["consumed"] == v["nlines"]:
            res.cov["traces_validated_against_impl"] += v["nlines"]
        elif v["r"]["timeout"]:
            res.cov["inconclusive"] += v["nlines"]
        else:
            res.violation("trace rejected by the specification: " + (v["r"]["error"] or "not all events consumed")[:400],
                          dict(tlc_out=v["r"]["out"][-2000:]))


def c10(pid, tier, replay):
    res = core.Result(pid, "model_checking", tier)
    seed = core.seed()
    rng = random.Random(seed * 13 + 10)
    n = 25000 if tier == "thorough" else 350
    insts = []
    if replay:
        with open(replay) as f:
            insts = [json.load(f)["instance"]]
    else:
        for i in range(n):
            d = genyacc.gen_doc(rng)
            # the same document in two renderings: a plain one and one with randomised layout
            for k, plain in enumerate((True, False, False) if i % 4 == 0 else (False,)):
                y, rd = genyacc.render(d, rng, plain=plain)
                insts.append(dict(id="y%d-%d" % (i, k), y=y, kind=d["kind"], doc=rd))
            if i % 3 == 1:
                # the same document behind a %grmtools section naming its kind: the text form that the
                # other public entry point (from_str) reads - both entry points are observed
                y, rd = genyacc.render(d, rng, header=True)
                insts.append(dict(id="y%d-h" % i, y=y, kind=d["kind"], doc=rd, from_str=True))
    job = os.path.join(res.wd, "job.json")
    trace = os.path.join(res.wd, "trace.ndjson")
    with open(job, "w") as f:
        json.dump(dict(instances=insts), f)
    core.run_vh(["ysrc", job, trace])
    lines = open(trace).readlines()
    byid = {i["id"]: dict(id=i["id"], y=i["y"], kind=i["kind"], doc=i["doc"]) for i in insts}
    res.notes["documents"] = n
    res.notes["renderings"] = len(insts)
    kinds = {}
    for i in insts:
        kinds[i["kind"]] = kinds.get(i["kind"], 0) + 1
    res.notes["kinds"] = kinds
    if not replay:
        # binding self-test: swap two tokens' names in the observation
        st = None
        for ln in lines:
            e = json.loads(ln)
            if e["res"]["class"] == "ok" and len(e["res"]["obs"]["tokens"]) >= 3:
                t = e["res"]["obs"]["tokens"]
                t[0]["name"], t[1]["name"] = t[1]["name"], t[0]["name"]
                v = validate(res, "TraceYSrc", 9000, [json.dumps(e) + "\n"], dict(PROP="C10"))
                st = dict(rejected=len(v["devs"]) > 0, corruption="two token names swapped")
                break
        res.notes["binding_selftest"] = st
        if st and not st["rejected"]:
            raise core.ToolError("binding self-test failed")
    run_parts(res, "TraceYSrc", lines, dict(PROP="C10"), 1 if replay else (14 if tier == "thorough" else 6), byid, seed)
    # second, independent route to the same statement: text -> AST (YaccParse.tla) -> grammar object
    # (AstGrammar.tla), predicted from the rendered text alone and compared with what the code built
    from . import p_yparse
    kmap = {"original": "original", "original_noaction": "original", "original_useraction": "original", "grmtools": "grmtools", "eco": "eco"}
    step = 1 if tier == "quick" or replay else 4
    titems = [dict(id=i["id"], entry="yast_" + kmap.get(i["kind"], "original"), s=i["y"]) for i in insts[::step]]
    # %parse-param / %parse-generics (not written by the document generator) must reach the grammar object
    for i, t in enumerate(list(titems[:12])):
        k = t["s"].find("\n%%")
        if k >= 0 and "%parse-" not in t["s"]:
            ins = ["%parse-param ctx: &'a mut Vec<u64>", "%parse-generics 'a, K, V: Clone"][i % 2:][: 1 + (i % 3 == 0)]
            titems.append(dict(t, id=t["id"] + "+pp", s=t["s"][:k] + "\n" + "\n".join(ins) + t["s"][k:]))
    tjob = os.path.join(res.wd, "tjob.json")
    ttrace = os.path.join(res.wd, "ttrace.ndjson")
    with open(tjob, "w") as f:
        json.dump(dict(items=titems, workers=max(2, core.NCPU - 4), timeout_ms=4000), f)
    core.run_vh(["total", tjob, ttrace], timeout=3000)
    yl = p_yparse.events(titems, open(ttrace).readlines())
    res.notes["text_to_grammar_predicted"] = len(yl)
    if yl:
        run_parts(res, "TraceYaccParse", yl, dict(PROP="C10"), 1 if replay else (14 if tier == "thorough" else 6), byid, seed)
    if not replay:
        # the grammar object at the edge of a narrow index type (sizes, dense numbering, indices in range)
        from . import p_width
        p_width.narrow_grammars(res, "C10")
    for i in insts[:2]:
        res.sample(dict(id=i["id"], kind=i["kind"], y=i["y"]))
    res.assumptions += ["documents are generated valid; invalid / near-valid sources are C12's business",
                        "rule names without '.', no clash between synthesised names (^, ~, ^~) and user names"]
    return res.finish()


def c11(pid, tier, replay):
    from . import genlex
    res = core.Result(pid, "model_checking", tier)
    seed = core.seed()
    rng = random.Random(seed * 17 + 11)
    n = 20000 if tier == "thorough" else 300
    insts = []
    if replay:
        with open(replay) as f:
            insts = [json.load(f)["instance"]]
    else:
        for i in range(n):
            d = genlex.gen_lsrc(rng)
            text, rd = genlex.render_lsrc(d, rng)
            inputs = [genlex.gen_input(rng, 8) for _ in range(5)] + ["a\nb", "A", "K k", "a b", "ab", "\x08a", "A\n", "é", "a<b", "x y"]
            inst = dict(id="l%d" % i, l=text, doc=rd, eff=rd["eff"], inputs=inputs)
            if d["builder"] is not None:
                inst["builder_flags"] = d["builder"]
            insts.append(inst)
        # every flag x both values, through the section and through the options, on rules that are
        # sensitive to it (a catch must not depend on the random documents)
        flagrules = [dict(re=r, name="T%d" % k, states=[], target=None, quote="'") for k, r in enumerate(["a.", "b$", "^c", "d+d", "e e", "k"])] + \
                    [dict(re="[\\t\\x20]+", name=None, states=[], target=None, quote="'"), dict(re="\\n", name=None, states=[], target=None, quote="'")]
        finputs = ["a\nb", "b\nb", "c\nc c", "ddd", "e e", "ee", "K k", "a\n", "b", "dd dd"]
        k = 0
        for f in ["dot_matches_new_line", "multi_line", "case_insensitive", "swap_greed", "ignore_whitespace"]:
            for v in (True, False):
                for via in ("header", "builder"):
                    for other in (None, "multi_line", "dot_matches_new_line"):
                        fl = {f: v}
                        if other and other != f:
                            fl[other] = not v
                        d = dict(states=[], rules=[dict(r) for r in flagrules], header=(fl if via == "header" else None), builder=(fl if via == "builder" else None))
                        text, rd = genlex.render_lsrc(d, rng)
                        inst = dict(id="lflag%d" % k, l=text, doc=rd, eff=rd["eff"], inputs=finputs)
                        if via == "builder":
                            inst["builder_flags"] = fl
                        insts.append(inst)
                        k += 1
        # escapes: one that lex drops, followed in the same regular expression by escaped regex
        # metacharacters that must stay escaped (with and without a start-state prefix)
        for j, st in enumerate(([], ["E"])):
            erules = [dict(re=r, name="E%d" % k, states=list(st), target=None, quote="'") for k, r in enumerate(genlex.ESCAPE_COMBOS)] + \
                     [dict(re="[\\t\\x20\\n]+", name=None, states=list(st), target=None, quote="'")]
            d = dict(states=[dict(name="E", excl=False)] if st else [], rules=erules, header=None, builder=None)
            text, rd = genlex.render_lsrc(d, rng)
            insts.append(dict(id="lesc%d" % j, l=text, doc=rd, eff=rd["eff"], inputs=["/* <+ a/b.c '(x) ,|, =?= :[] @$^", "/", "a/bxc", "=="]))
    job = os.path.join(res.wd, "job.json")
    trace = os.path.join(res.wd, "trace.ndjson")
    with open(job, "w") as f:
        json.dump(dict(instances=insts), f)
    core.run_vh(["lex", job, trace])
    # split into instances
    cases = []
    for line in open(trace):
        if '"ev":"lexreset"' in line:
            cases.append([line])
        else:
            cases[-1].append(line)
    byid = {i["id"]: i for i in insts}
    res.notes["documents"] = len(insts)
    res.notes["with_grmtools_section"] = sum(1 for i in insts if i["l"].lstrip().startswith("%grmtools"))
    res.notes["through_builder_flags"] = sum(1 for i in insts if "builder_flags" in i)
    res.notes["rejected"] = sum(1 for c in cases if any('"ev":"lexdef_err"' in x for x in c))
    if not replay:
        st = None
        for c in cases:
            for k, x in enumerate(c):
                e = json.loads(x)
                if e.get("ev") == "lexdef" and e["rules"]:
                    e["rules"][0]["name_span"][0] += 1
                    v = validate(res, "TraceLSrc", 9000, c[:k] + [json.dumps(e) + "\n"] + c[k + 1:], dict(PROP="C11"))
                    st = dict(rejected=len(v["devs"]) > 0, corruption="name span start + 1")
                    break
            if st:
                break
        res.notes["binding_selftest"] = st
        if st and not st["rejected"]:
            raise core.ToolError("binding self-test failed")
    nparts = 1 if replay else (14 if tier == "thorough" else 5)
    parts = [sum(cases[i::nparts], []) for i in range(nparts)]
    parts = [p for p in parts if p]
    with concurrent.futures.ThreadPoolExecutor(max_workers=len(parts)) as ex:
        results = list(ex.map(lambda a: validate(res, "TraceLSrc", a[0], a[1], dict(PROP="C11")), enumerate(parts)))
    for v in results:
        res.add_tlc(v["r"])
        for d in v["devs"]:
            res.deviation(d, dict(instance=byid.get(d["inst"]), seed=seed))
        if v["consumed"] == v["nlines"]:
            res.cov["traces_validated_against_impl"] += sum(1 for x in v["lines"] if '"ev":"lexreset"' in x)
        elif v["r"]["timeout"]:
            res.cov["inconclusive"] += 1
        else:
            res.violation("trace rejected by the specification: " + (v["r"]["error"] or "not all events consumed")[:400],
                          dict(tlc_out=v["r"]["out"][-2000:]))
    if not replay:
        from . import p_ctrt
        p_ctrt.run_lex_flags(res, "C11", tier)
        from . import p_mm
        p_mm.run(res, "C11", tier)
    for i in insts[:2]:
        res.sample(dict(id=i["id"], l=i["l"], flags_in_force=i["eff"]))
    res.assumptions += ["the regex crate decides what a regular expression matches; the documents are generated valid"]
    return res.finish()


HEADERS = ["%grmtools{yacckind: Grmtools}", "%grmtools{yacckind: Original(YaccOriginalActionKind::NoAction), recoverer: RecoveryKind::CPCTPlus}",
           "%grmtools {test_files: [\"*.txt\", 'a b'], size_limit: 1024, !octal, case_insensitive,}", "%grmtools{a: [1, 2, [3]], b: X::Y(Z)}",
           " %grmtools\n{ x : \"é\" }", "%grmtools{}", "%grmtools{dfa_size_limit: 18446744073709551615}"]


def mutants(text, rng, k):
    """near-valid variants of a valid specification"""
    out = []
    specials = list("{}[]()'\"<>%|;:,*!\\/") + ["é", "\u4e16", "\U0001F600", "\n", "\r\n", "\r", "\t", "%%", "/*", "*/", "//", "%grmtools{", "18446744073709551616", "99999999999999999999999",
                                                  # Unicode Pattern_White_Space beyond ASCII, also escaped; other odd blanks
                                                  "\u0085", "\u200e", "\u200f", "\u2028", "\u2029", "\x0b", "\x0c", "\u00a0", "\ufeff",
                                                  "\\\u200e", "\\\u0085", "\\ ", "\\\\", "\\\t"]
    n = len(text)
    for _ in range(k):
        op = rng.randrange(11)
        t = text
        if n == 0:
            out.append(rng.choice(specials))
            continue
        i = rng.randrange(n)
        if op == 0:
            t = text[:i]                                        # truncate
        elif op == 1:
            t = text[:i] + text[i + 1:]                         # drop a character
        elif op == 2:
            t = text[:i] + text[i] + text[i:]                   # duplicate a character
        elif op == 3:
            t = text[:i] + rng.choice(specials) + text[i:]      # insert something special
        elif op == 4:
            cands = [j for j, c in enumerate(text) if c in "{}[]()'\"<>|;:"]
            if cands:
                j = rng.choice(cands)
                t = text[:j] + text[j + 1:]                     # unbalance a bracket / quote
        elif op == 5:
            t = text.replace("\n", "\r\n") if rng.random() < 0.5 else text.replace("\n", "\r")
        elif op == 6:
            import re
            t = re.sub(r"\d+", rng.choice(["18446744073709551616", "18446744073709551615", "99999999999999999999999", "0"]), text, count=1)
        elif op == 7:
            j = rng.randrange(n)
            a, b2 = min(i, j), max(i, j)
            t = text[:a] + text[b2:]                            # cut a stretch out
        elif op == 8:
            t = text[:i] + rng.choice(specials) + text[i + 1:]  # replace a character
        elif op == 9:
            ls = text.split("\n")                               # duplicate a line (duplicate declarations / rules)
            j = rng.randrange(len(ls))
            t = "\n".join(ls[:j + 1] + [ls[j]] + ls[j + 1:])
        else:
            ls = text.split("\n")                               # swap two lines
            if len(ls) > 1:
                a, b2 = rng.randrange(len(ls)), rng.randrange(len(ls))
                ls[a], ls[b2] = ls[b2], ls[a]
            t = "\n".join(ls)
        out.append(t)
    return out


DIAG_SAFE = set(chr(c) for c in range(32, 127)) | set("\n\r\t\u00e9\u4e16\U0001F600")


def diag_events(lines):
    """one event per error / warning of an outcome whose text stays within the alphabet whose display
    widths Diagnostics.tla models"""
    out = []
    for ln in lines:
        e = json.loads(ln)
        r = e["res"]
        if r.get("class") not in ("err", "ok") or not set(e["s"]) <= DIAG_SAFE:
            continue
        for k, er in enumerate(list(r.get("errors", [])) + list(r.get("warnings", []))):
            if "rd" not in er:
                continue
            out.append(json.dumps(dict(ev="diag", id=e["id"], entry=e["entry"], bytes=list(e["s"].encode()), spans=er["spans"],
                                       dup=er["dup"], msg=[ord(c) for c in er["kind"]], rd=er["rd"])) + "\n")
    return out


def c12(pid, tier, replay):
    from . import genlex, p_hdr, p_lexparse, p_yparse
    res = core.Result(pid, "model_checking", tier)
    seed = core.seed()
    rng = random.Random(seed * 19 + 12)
    thorough = tier == "thorough"
    items = []

    def add(entry, s):
        items.append(dict(id="t%d" % len(items), entry=entry, s=s))
    if replay:
        with open(replay) as f:
            it = json.load(f)["instance"]
        items.append(it)
    else:
        ndoc = 2500 if thorough else 60
        k = 40 if thorough else 14
        for i in range(ndoc):
            d = genyacc.gen_doc(rng)
            y, _ = genyacc.render(d, rng)
            kind = {"original": "yacc_original", "original_noaction": "yacc_original_noaction", "grmtools": "yacc_grmtools", "eco": "yacc_eco"}[d["kind"]]
            if rng.random() < 0.3:
                y = rng.choice(HEADERS) + "\n" + y
            ykind = "yast_" + ("original" if kind.startswith("yacc_original") else kind[5:])
            for m in [y] + mutants(y, rng, k):
                add(kind, m)
                add(ykind, m)               # the parser on its own: AST + errors, predicted exactly
                if rng.random() < 0.25:
                    add(rng.choice(["yacc_original", "yacc_grmtools", "yacc_eco"]), m)
            ld = genlex.gen_lsrc(rng)
            lt, _ = genlex.render_lsrc(ld, rng)
            for m in [lt] + mutants(lt, rng, k):
                add("lex", m)
                if rng.random() < 0.2:
                    add("lex_opts", m)      # the other public entry point (flags given by the caller)
        for h in HEADERS:
            for m in [h] + mutants(h, rng, 60 if thorough else 25):
                add("header", m)
                add(rng.choice(["lex", "yacc_grmtools"]), m + "\n%%\n")
        # every truncation of a few specifications
        for base in HEADERS[:3] + [genyacc.render(genyacc.gen_doc(rng), rng)[0] for _ in range(3)]:
            for i in range(len(base) + 1):
                add("header" if base.lstrip().startswith("%grmtools") else "yacc_grmtools", base[:i])
        # multi-byte characters (plain and escaped) at every offset of a few specifications
        lbases = ["%%\na 'x'\n[ ]+ ;\n", "%x S\n%%\n<S>a+ <INITIAL>'t'\nb\\  \"u\"\n"] + \
                 [genlex.render_lsrc(genlex.gen_lsrc(rng), rng)[0] for _ in range(4 if thorough else 1)]
        ybases = ["%start S\n%token a\n%%\nS: a 'b' { $1 } | ;\n",
                  # every kind of declaration once, so that each scanner meets a multi-byte character
                  "%start S\n%token a \"q\"\n%epp a \"an a\"\n%expect 0\n%avoid_insert a\n%left 'b'\n%parse-param p: u8\n%%\nS -> u8: a 'b' \"q\" %prec 'b' { $1 } | ;\n%%\nfn x() {}\n"] + [genyacc.render(genyacc.gen_doc(rng), rng)[0] for _ in range(4 if thorough else 1)]
        for base, entry in [(b, "lex") for b in lbases] + [(b, "yacc_grmtools") for b in ybases] + [(HEADERS[2], "header")]:
            for ch in ["é", "\u200e", "\\\u0085", "\\\u200f", "\U0001F600"]:
                for i in range(len(base) + 1):
                    add(entry, base[:i] + ch + base[i:])
        # shapes that once hid a defect: a regex ending in a lone backslash after a resolved escape,
        # separated from the name by a tab; comments with a line that starts with '/'
        for base in ["%%\n\\qabc\\\t'x'\n", "%%\n\\q\\\t'x'\n", "%%\nabc\\\t'x'\n", "%%\n\\q\\\\\t'x'\n", "%x S\n%%\n<S>\\ma\\\t<INITIAL>'t'\n"]:
            for m in [base] + mutants(base, rng, 6):
                add("lex", m)
        for base in ["%start S\n/* see\n// also\n*/\n%%\nS: 'a' /* x\n/ y */ | ;\n"]:
            for m in [base] + mutants(base, rng, 6):
                add("yacc_original", m)
                add("yast_original", m)
        # generated %grmtools sections (nested arrays, namespaces, constructors, flags, strings
        # with escapes, numbers around u64::MAX, duplicates) and their mutants
        for h in p_hdr.extra_items(rng, 3000 if thorough else 50, 12 if thorough else 8):
            add("header", h)
    job = os.path.join(res.wd, "job.json")
    trace = os.path.join(res.wd, "trace.ndjson")
    with open(job, "w") as f:
        json.dump(dict(items=items, workers=max(2, core.NCPU - 4), timeout_ms=4000), f)
    core.run_vh(["total", job, trace], timeout=3000)
    lines = open(trace).readlines()
    classes = {}
    for ln in lines:
        e = json.loads(ln)
        key = e["entry"].split("_")[0] + ":" + e["res"]["class"]
        classes[key] = classes.get(key, 0) + 1
    res.notes["inputs"] = len(items)
    res.notes["outcome_classes"] = classes
    byid = {i["id"]: i for i in items}
    if not replay:
        e = json.loads(lines[0])
        e["res"] = {"class": "err", "errors": [{"kind": "x", "spans": [[3, 2]]}]}
        v = validate(res, "TraceTotal", 9000, [json.dumps(e) + "\n"], {})
        st = dict(rejected=len(v["devs"]) > 0, corruption="error span with start > end")
        res.notes["binding_selftest"] = st
        if not st["rejected"]:
            raise core.ToolError("binding self-test failed")
        if not any(k.endswith(":err") for k in classes) or not any(k.endswith(":ok") for k in classes):
            raise core.ToolError("vacuity: no erroneous / no accepted inputs: %s" % classes)
    run_parts(res, "TraceTotal", lines, {}, 1 if replay else (12 if thorough else 6), byid, seed)
    # the rendering of every reported error against Diagnostics.tla (texts over the alphabet whose
    # display widths the specification models)
    dl = diag_events(lines)
    res.notes["error_renderings_predicted"] = len(dl)
    if dl:
        if not replay:
            e = json.loads(dl[0])
            e["rd"] = e["rd"][:-1]
            v = validate(res, "TraceDiag", 9002, [json.dumps(e) + "\n"], {})
            if not v["devs"]:
                raise core.ToolError("binding self-test failed (TraceDiag)")
        run_parts(res, "TraceDiag", dl, {}, 1 if replay else (8 if thorough else 4), byid, seed)
    # the section parser against its transcription: exact prediction of every outcome
    hl = p_hdr.events(items, lines)
    res.notes["header_outcomes_predicted"] = len(hl)
    if hl:
        if not replay:
            for x in hl:
                e = json.loads(x)
                if e["res"]["class"] == "ok" and e["res"]["pos"] > 0:
                    e["res"]["pos"] += 1
                    v = validate(res, "TraceHeader", 9001, [json.dumps(e) + "\n"], {})
                    st = dict(rejected=len(v["devs"]) > 0, corruption="end position of an accepted section + 1")
                    res.notes["binding_selftest_header"] = st
                    if not st["rejected"]:
                        raise core.ToolError("binding self-test (header) failed")
                    break
        run_parts(res, "TraceHeader", hl, {}, 1 if replay else (8 if thorough else 4), byid, seed)
    # the .l parser (behind the section parser) against its transcription: exact prediction
    ll = p_lexparse.events(items, lines)
    res.notes["lex_outcomes_predicted"] = len(ll)
    if ll:
        if not replay:
            for x in ll:
                e = json.loads(x)
                if e["res"]["class"] == "ok" and e["res"]["def"]["rules"]:
                    e["res"]["def"]["rules"][0]["name_span"][1] += 1
                    v = validate(res, "TraceLexParse", 9003, [json.dumps(e) + "\n"], {})
                    st = dict(rejected=len(v["devs"]) > 0, corruption="name span end of the first rule + 1")
                    res.notes["binding_selftest_lexparse"] = st
                    if not st["rejected"]:
                        raise core.ToolError("binding self-test (lex parser) failed")
                    break
        run_parts(res, "TraceLexParse", ll, {}, 1 if replay else (12 if thorough else 4), byid, seed)
    # the .y parser + AST validation against their transcription: exact prediction
    yl = p_yparse.events(items, lines)
    res.notes["yacc_outcomes_predicted"] = len(yl)
    if yl:
        if not replay:
            for x in yl:
                e = json.loads(x)
                if e["res"].get("ast", {}).get("prods"):
                    e["res"]["ast"]["prods"][0]["span"][1] += 1
                    v = validate(res, "TraceYaccParse", 9004, [json.dumps(e) + "\n"], {})
                    st = dict(rejected=len(v["devs"]) > 0, corruption="span end of the first production + 1")
                    res.notes["binding_selftest_yaccparse"] = st
                    if not st["rejected"]:
                        raise core.ToolError("binding self-test (yacc parser) failed")
                    break
        run_parts(res, "TraceYaccParse", yl, {}, 1 if replay else (14 if thorough else 6), byid, seed)
    if not replay:
        p_hdr.mc(res, tier)
        p_lexparse.mc(res, tier)
        p_yparse.mc(res, tier)
    for i in items[1:4]:
        res.sample(i)
    res.assumptions += ["a parser that does not answer within 4 s is reported as not returning",
                        "near-valid inputs are mutations of generated valid specifications (operators listed in lib/p_src.py)"]
    return res.finish()


def main(pid, tier, replay=None):
    if pid == "C12":
        return c12(pid, tier, replay)
    if pid == "C10":
        return c10(pid, tier, replay)
    if pid == "C11":
        return c11(pid, tier, replay)
    raise core.ToolError("not built: " + pid)
