"""C19: NewlineCache - bounded model checking of NewlineCache.tla (design: algorithm = meaning),
and trace validation of the real cache over the same exhaustive family plus random texts."""
import concurrent.futures
import json
import os

from . import core


def mc(res, maxlen, maxfeeds, fixed, workers, fixedr="both"):
    cfg = os.path.join(res.wd, "MC_NewlineCache_%s_%s.cfg" % (fixed, fixedr))
    with open(cfg, "w") as f:
        f.write("SPECIFICATION MCSpec\nCONSTANTS\n  MaxLen = %d\n  MaxFeeds = %d\n  Fixed = %s\n  FixedR = \"%s\"\n"
                "INVARIANT InvState\nINVARIANT InvQueries\nINVARIANT InvSpans\nINVARIANT InvRender\nCHECK_DEADLOCK FALSE\n"
                % (maxlen, maxfeeds, fixed, fixedr))
    return core.run_tlc("MC_NewlineCache", cfg, {}, res.wd, timeout=1500, workers=workers, heap="6g")


def split(path):
    cases = []
    with open(path) as f:
        for line in f:
            if line.startswith('{"ev":"begin"'):
                cases.append([line])
            else:
                cases[-1].append(line)
    return cases


def validate(res, idx, cases):
    path = os.path.join(res.wd, "trace-%d.ndjson" % idx)
    n = 0
    with open(path, "w") as f:
        for c in cases:
            f.writelines(c)
            n += len(c)
    r = core.run_tlc("TraceNLC", "TraceNLC.cfg", dict(TRACE=path), res.wd, timeout=1500, workers=1, heap="3g")
    tup = core.tuples(r["out"])
    devs = [core.parse_dev(t) for t in tup if '"DEV"' in t[:12]]
    done = [t for t in tup if '"DONE"' in t[:12]]
    consumed = int(done[-1].replace("<<", "").replace(">>", "").split(",")[1]) if done else None
    return dict(r=r, devs=devs, consumed=consumed, nlines=n, cases=cases)


def main(pid, tier, replay=None):
    res = core.Result(pid, "model_checking", tier)
    seed = core.seed()
    thorough = tier == "thorough"
    # (1) bounded model: the design (transcribed algorithm) against the meaning, all chunkings
    if not replay:
        r = mc(res, 7 if thorough else 5, 3, "TRUE", 12 if thorough else 6)
        res.add_tlc(r)
        res.notes["mc"] = dict(maxlen=7 if thorough else 5, maxfeeds=3, distinct=r["distinct"], ok=r["finished"] and not r["error"])
        if r["error"]:
            res.violation("bounded model NewlineCache.tla: invariant violated (transcribed algorithm # meaning): " + r["error"][:300],
                          dict(kind="mc", tlc_out=r["out"][-3000:]))
        # vacuity guard: the model of the guard as it was before the fix must be refuted
        r2 = mc(res, 4, 2, "FALSE", 4)
        res.notes["mc_mutation_sanity"] = dict(refuted=bool(r2["error"]))
        if not r2["error"]:
            raise core.ToolError("vacuity: the pre-fix span_line_bytes guard was not refuted by the model")
        # ... and so must the formatter's rendering loop without either of its two repairs
        for fr in ("nosat", "noempty"):
            r3 = mc(res, 4, 1, "TRUE", 4, fr)
            res.notes["mc_render_sanity_" + fr] = dict(refuted="InvRender" in (r3["error"] or ""))
            if "InvRender" not in (r3["error"] or ""):
                raise core.ToolError("vacuity: the rendering loop without repair '%s' was not refuted by the model" % fr)
    # (2) the real cache
    job = os.path.join(res.wd, "job.json")
    trace = os.path.join(res.wd, "trace.ndjson")
    if replay:
        with open(replay) as f:
            rp = json.load(f)
        with open(trace, "w") as f:
            f.writelines(rp["lines"])
        # re-run the recorded chunks against the current tree
        chunks = [json.loads(x)["bytes"] for x in rp["lines"] if '"ev":"feed"' in x]
        with open(job, "w") as f:
            json.dump(dict(seed=seed, explicit=[chunks]), f)
    with open(job, "w") as f:
        json.dump(dict(seed=seed, exhaustive=dict(maxlen=6 if thorough else 4, maxfeeds=3),
                       random=dict(n=30000 if thorough else 400, maxlen=200)), f)
    core.run_vh(["nlc", job, trace])
    cases = split(trace)
    res.notes["cases"] = len(cases)
    res.notes["exhaustive_family"] = "all texts over {a, e-acute, LF, CR} up to %d bytes x all chunkings into <= 3 feeds" % (6 if thorough else 4)
    res.notes["rendering"] = "every span of every text is also rendered by SpannedDiagnosticFormatter::underline_span_with_text and compared with Diagnostics.tla's Render (display widths: the drivers' alphabet)"
    # binding self-test: damage one answer
    st = None
    for c in cases:
        if len(c) >= 3 and '"ev":"answers"' in c[-1]:
            e = json.loads(c[-1])
            if e["spans"]:
                e["spans"][0][3] += 1
                v = validate(res, 9000, [c[:-1] + [json.dumps(e) + "\n"]])
                st = dict(rejected=len(v["devs"]) > 0, corruption="span end + 1")
                e = json.loads(c[-1])
                e["spans"][0][20] = e["spans"][0][20] + [32]
                v = validate(res, 9001, [c[:-1] + [json.dumps(e) + "\n"]])
                st["rejected_render"] = any("rendering" in d["code"] for d in v["devs"])
                st["rejected"] = st["rejected"] and st["rejected_render"]
                break
    res.notes["binding_selftest"] = st
    if st and not st["rejected"]:
        raise core.ToolError("binding self-test failed")
    n = 14 if thorough else 6
    parts = [cases[i::n] for i in range(n)]
    with concurrent.futures.ThreadPoolExecutor(max_workers=n) as ex:
        results = list(ex.map(lambda a: validate(res, a[0], a[1]), enumerate(parts)))
    byid = {json.loads(c[0])["id"]: c for c in cases}
    for v in results:
        res.add_tlc(v["r"])
        for d in v["devs"]:
            res.deviation(d, dict(lines=byid.get(d["inst"], []), seed=seed))
        if v["consumed"] == v["nlines"]:
            res.cov["traces_validated_against_impl"] += len(v["cases"])
        elif v["r"]["timeout"]:
            res.cov["inconclusive"] += len(v["cases"])
        else:
            res.violation("trace rejected by the specification: " + (v["r"]["error"] or "not all events consumed")[:300],
                          dict(tlc_out=v["r"]["out"][-2000:]))
    for c in cases[5:8]:
        res.sample([json.loads(x) for x in c][:3])
    res.assumptions += ["UTF-8 texts; offsets and spans on character boundaries; span end read inclusively (as the crate's spanlines_str test fixes it)"]
    return res.finish()
