"""property id -> the module that decides it"""


def run(pid, tier, replay):
    from . import p_lr
    if pid in p_lr.P:
        return p_lr.main(pid, tier, replay)
    if pid == "C19":
        from . import p_nlc
        return p_nlc.main(pid, tier, replay)
    if pid == "C20":
        from . import p_width
        return p_width.main(pid, tier, replay)
    if pid == "C09":
        from . import p_lex
        return p_lex.main(pid, tier, replay)
    if pid == "C18":
        from . import p_ct
        return p_ct.main(pid, tier, replay)
    if pid in ("C10", "C11", "C12"):
        from . import p_src
        return p_src.main(pid, tier, replay)
    if pid in ("C14", "C15"):
        from . import p_pipe
        return p_pipe.main(pid, tier, replay)
    if pid == "C13":
        from . import p_ctrt
        return p_ctrt.main(pid, tier, replay)
    print("unknown or unclaimed property %s" % pid)
    return 2
