"""Shared plumbing of the checks: building the harness from /repo's working tree, running TLC,
collecting deviations, known-findings classification, evidence files, exit codes."""
import json
import os
import re
import shutil
import subprocess
import sys
import time

VERIF = os.path.dirname(os.path.dirname(os.path.abspath(__file__)))
SPEC = os.path.join(VERIF, "spec")
# (the three overrides exist so that seeded changes can be evaluated against a scratch copy of the
# repository while /repo itself is being used; registered checks never set them)
HARNESS = os.environ.get("VERIF_HARNESS_DIR", os.path.join(VERIF, "harness"))
VH = os.path.join(HARNESS, "target", "debug", "vh")
WORK = os.environ.get("VERIF_WORK_DIR", os.path.join(VERIF, "work"))
EVID = os.environ.get("VERIF_EVID_DIR", os.path.join(VERIF, "evidence"))
NCPU = os.cpu_count() or 4


class ToolError(Exception):
    pass


def seed():
    try:
        return int(os.environ.get("VERIF_SEED", "1"))
    except ValueError:
        return 1


def workdir(pid):
    d = os.path.join(WORK, pid)
    shutil.rmtree(d, ignore_errors=True)
    os.makedirs(os.path.join(d, "replay"), exist_ok=True)
    return d


_built = False


def build_harness():
    """(Re)build vh from /repo's current working tree with the hooks enabled."""
    global _built
    if _built:
        return
    lock = os.path.join(HARNESS, "Cargo.lock")
    if not os.path.exists(lock):
        shutil.copy("/repo/Cargo.lock", lock)
    env = dict(os.environ, CARGO_NET_OFFLINE="true")
    p = subprocess.run(["cargo", "build", "--offline", "--quiet"], cwd=HARNESS, env=env,
                       stdout=subprocess.PIPE, stderr=subprocess.STDOUT, text=True)
    if p.returncode != 0:
        raise ToolError("harness build failed:\n" + p.stdout[-4000:])
    _built = True


def run_vh(args, timeout=1800, cwd=None):
    build_harness()
    p = subprocess.run([VH] + args, stdout=subprocess.PIPE, stderr=subprocess.STDOUT, text=True,
                       timeout=timeout, cwd=cwd)
    if p.returncode != 0:
        raise ToolError("vh %s failed (%d):\n%s" % (" ".join(args[:2]), p.returncode, p.stdout[-3000:]))
    return p.stdout


def run_tlapm(module, deps, wd, timeout=900, threads=4):
    """Check the proofs of spec/<module>.tla with the TLA+ proof system (copies the module and the
    modules it extends into a scratch directory).  outcome: proved | failed | unknown | unavailable"""
    import shutil
    td = os.path.join(wd, "tlaps-" + module)
    shutil.rmtree(td, ignore_errors=True)
    os.makedirs(td)
    for m in [module] + list(deps):
        shutil.copy(os.path.join(SPEC, m + ".tla"), td)
    out = ""
    try:
        p = subprocess.run(["timeout", str(timeout), "tlapm", "--threads", str(threads), module + ".tla"], cwd=td,
                           stdout=subprocess.PIPE, stderr=subprocess.STDOUT, text=True)
        out = p.stdout
        m = re.search(r"All (\d+) obligations proved", out)
        res = dict(outcome="proved" if m else ("failed" if "obligations failed" in out else "unknown"), obligations=int(m.group(1)) if m else 0)
    except OSError:
        res = dict(outcome="unavailable", obligations=0)
    shutil.rmtree(td, ignore_errors=True)
    res["out"] = out[-1500:]
    return res


DEV_START = re.compile(r'^<<\s*"(DEV|DONE|CASE|INFO)"')


def tuples(out):
    """Extract the top-level <<...>> tuples that TLC printed (PrintT may wrap them over lines)."""
    res = []
    cur = None
    depth = 0
    for line in out.splitlines():
        if cur is None:
            if DEV_START.match(line):
                cur = line
                depth = line.count("<<") - line.count(">>")
                if depth <= 0:
                    res.append(cur)
                    cur = None
        else:
            cur += " " + line.strip()
            depth += line.count("<<") - line.count(">>")
            if depth <= 0:
                res.append(cur)
                cur = None
    return res


def parse_dev(t):
    """<<"DEV", "C01", "inst", 12, "code", detail>> -> dict"""
    m = re.match(r'^<<\s*"DEV",\s*"([A-Z0-9]+)",\s*"([^"]*)",\s*(\d+),\s*"([^"]*)",\s*(.*)>>\s*$', t, re.S)
    if not m:
        return dict(prop="?", inst="?", line=0, code="unparsed", detail=t)
    return dict(prop=m.group(1), inst=m.group(2), line=int(m.group(3)), code=m.group(4), detail=m.group(5).strip())


def run_tlc(module, cfg, env, wd, timeout=900, workers=1, heap="6g", simulate=None, extra=()):
    """Run TLC on spec/<module>.tla with spec/<cfg>.  Returns dict(out, states, distinct, ok, done)."""
    import uuid
    meta = os.path.join(wd, "states-" + module + "-" + uuid.uuid4().hex[:12])     # unique among parallel runs
    e = dict(os.environ)
    e.update({k: str(v) for k, v in env.items()})
    # (the parser's temporary directories go into the run's own directory, which is removed afterwards,
    # not into /tmp)
    jtmp = meta + "-tmp"
    os.makedirs(jtmp, exist_ok=True)
    e["JAVA_TOOL_OPTIONS"] = ("-Xss1g -Dtlc2.tool.queue.IStateQueue=StateDeque" if workers == 1 else "-Xss512m") + " -Djava.io.tmpdir=" + jtmp
    cmd = ["timeout", str(timeout), "java", "-Xmx" + heap, "-XX:+UseParallelGC", "-cp", "/opt/veriftools/tla/tla2tools.jar:/opt/veriftools/tla/CommunityModules-deps.jar",
           "tlc2.TLC", "-workers", str(workers), "-metadir", meta, "-cleanup", "-noGenerateSpecTE",
           "-config", os.path.join(SPEC, cfg)]
    if simulate:
        cmd += ["-simulate", simulate]
    cmd += list(extra)
    cmd += [os.path.join(SPEC, module + ".tla")]
    t0 = time.time()
    p = subprocess.run(cmd, stdout=subprocess.PIPE, stderr=subprocess.STDOUT, text=True, env=e, cwd=wd)
    out = p.stdout
    shutil.rmtree(meta, ignore_errors=True)
    shutil.rmtree(jtmp, ignore_errors=True)
    with open(os.path.join(wd, "tlc-%s.out" % module), "a") as f:
        f.write(out)
    res = dict(out=out, rc=p.returncode, wall=time.time() - t0, states=0, distinct=0)
    m = re.findall(r"(\d+) states generated, (\d+) distinct states found", out)
    if m:
        res["states"], res["distinct"] = int(m[-1][0]), int(m[-1][1])
    res["timeout"] = p.returncode == 124
    res["finished"] = "Model checking completed" in out or "Finished in" in out
    res["error"] = None
    if "Parsing or semantic analysis failed" in out or "Could not find" in out:
        raise ToolError("TLC could not load the specification:\n" + out[-2500:])
    if re.search(r"java\.io\.\w*(Exception|Error)", out) or "OutOfMemoryError" in out or "No space left" in out:
        # the tool failed (files, memory), not the specification or the trace
        raise ToolError("TLC failed for an environmental reason:\n" + out[-1500:])
    if "Error:" in out:
        i = out.index("Error:")
        res["error"] = out[i:i + 1500]
    return res


def load_known():
    with open(os.path.join(VERIF, "known_findings.json")) as f:
        return json.load(f)


class Result:
    """Collects what a check covered and found, then writes evidence and decides the exit code."""

    def __init__(self, pid, level, tier):
        self.pid = pid
        self.level = level
        self.tier = tier
        self.t0 = time.time()
        self.violations = []      # (summary, replay dict)
        self.known_hits = {}      # finding id -> example
        self.cov = dict(states=0, transitions=0, traces_validated_against_impl=0, samples=[],
                        inconclusive=0, skipped=0, tlc_runs=0)
        self.assumptions = []
        self.notes = {}
        self.wd = workdir(pid)
        self.known = [k for k in load_known() if k["property"] == pid]

    def add_tlc(self, r):
        self.cov["states"] += r["distinct"]
        self.cov["transitions"] += r["states"]
        self.cov["tlc_runs"] += 1

    def sample(self, s):
        if len(self.cov["samples"]) < 6:
            self.cov["samples"].append(s)

    def violation(self, summary, replay):
        n = len(self.violations)
        path = os.path.join(self.wd, "replay", "v%d.json" % n)
        replay = dict(replay)
        replay["property"] = self.pid
        replay["summary"] = summary
        with open(path, "w") as f:
            json.dump(replay, f, indent=1)
        self.violations.append((summary, path))

    def deviation(self, dev, replay):
        """Classify one deviation reported by a trace specification."""
        code = dev["code"]
        if dev["prop"] == "ANY":
            dev = dict(dev, prop=self.pid)
        if dev["prop"] == "SKIP":
            self.cov["skipped"] += 1
            return
        if code.startswith("INFO:"):
            # an observation that goes beyond what the property states (e.g. WHICH errors an invalid
            # text is rejected with): recorded in the evidence, never a violation
            self.cov["informational_differences"] = self.cov.get("informational_differences", 0) + 1
            ex = self.notes.setdefault("informational_examples", [])
            if len(ex) < 5:
                ex.append("%s [%s] %s: %s" % (dev["prop"], dev["inst"], code, dev["detail"][:300]))
            return
        if code.startswith("KF:"):
            for k in self.known:
                if k["signature"] == code and k["status"] == "open":
                    self.known_hits.setdefault(k["id"], dict(k=k, example=dev, n=0))["n"] += 1
                    return
        self.violation("%s [%s] %s: %s" % (dev["prop"], dev["inst"], code, dev["detail"][:300]), dict(replay, deviation=dev))

    def finish(self, extra_cov=None):
        cov = dict(self.cov)
        if extra_cov:
            cov.update(extra_cov)
        cov["known_findings_hit"] = {k: v["n"] for k, v in self.known_hits.items()}
        cov.update(self.notes)
        if not cov["samples"]:
            cov["samples"] = ["(no instance recorded)"]
        ev = dict(property_id=self.pid, tier=self.tier, seed=seed(), level=self.level, coverage=cov,
                  assumptions=self.assumptions, wall_s=round(time.time() - self.t0, 2),
                  violations=len(self.violations))
        os.makedirs(EVID, exist_ok=True)
        with open(os.path.join(EVID, self.pid + ".json"), "w") as f:
            json.dump(ev, f, indent=1, default=str)
        for kid, v in self.known_hits.items():
            print("KNOWN-FINDING: property=%s %s (%s; %d occurrence(s) this run, e.g. instance %s)" % (
                self.pid, v["k"]["description"], kid, v["n"], v["example"]["inst"]))
        for s, path in self.violations[:20]:
            print("VIOLATION property=%s replay=%s" % (self.pid, path))
            print("  " + s[:400])
        if self.violations:
            return 1
        decided = cov.get("traces_validated_against_impl", 0) + cov.get("states", 0) + cov.get("evaluations", 0) + cov.get("programs", 0)
        if decided == 0:
            print("nothing was decided (tool problem)")
            return 2
        print("OK property=%s tier=%s wall=%.1fs states=%d traces=%d skipped=%d" % (
            self.pid, self.tier, time.time() - self.t0, cov.get("states", 0), cov.get("traces_validated_against_impl", 0), cov.get("skipped", 0)))
        return 0
