"""Yacc source documents: an abstract grammar document (ordered declarations and rules) and its
rendering as .y text with randomised layout (whitespace, comments, quoting style, declaration
order).  The renderer records the byte span of every name occurrence so that the specification
(YaccSrc.tla) can state the span laws.  Used by C10, C12, C13, C14, C15."""
import random

TOKPOOL = ["a", "b", "c", "INT", "ID", "+", "*", "(", ")", "==", "é", "if", "x_1", "T2", ";;", "w_s"]
RULEPOOL = ["S", "Expr", "term", "F", "list_", "A", "Bx", "_r"]
TYPES = ["u64", "Vec<u8>", "Result<(), ()>", "()"]
ACTIONS = ["$1", "Ok(())", "{ let x = 1; x }", "vec![]", "$1 + $3", "foo({}, \"}\")".replace('"}"', "1")]


def is_ident(s):
    import re
    return re.fullmatch(r"[a-zA-Z_][a-zA-Z_0-9]*", s) is not None


def gen_doc(rng, kind=None, maxrules=4):
    kind = kind or rng.choice(["original", "original", "grmtools", "eco", "original_noaction"])
    nt = rng.randint(1, 6)
    toks = rng.sample(TOKPOOL, nt)
    nr = rng.randint(1, maxrules)
    rules = rng.sample(RULEPOOL, nr)
    declared = [t for t in toks if is_ident(t) and rng.random() < 0.5]     # via %token
    doc = dict(kind=kind, decls=[], rules=[], programs=None)
    decls = []
    if declared:
        # possibly split over two %token lines
        k = rng.randint(1, len(declared))
        decls.append(dict(d="token", names=declared[:k]))
        if declared[k:]:
            decls.append(dict(d="token", names=declared[k:]))
    pool = toks[:]
    rng.shuffle(pool)
    precs = {}
    nlev = rng.randint(0, 3)
    for lv in range(nlev):
        if not pool:
            break
        k = rng.randint(1, min(2, len(pool)))
        grp, pool = pool[:k], pool[k:]
        kd = rng.choice(["left", "right", "nonassoc"])
        decls.append(dict(d=kd, names=grp))
        for t in grp:
            precs[t] = kd
    if rng.random() < 0.3:
        decls.append(dict(d="avoid_insert", names=rng.sample(toks, rng.randint(1, min(2, nt)))))
    implicit = []
    if kind == "eco" and rng.random() < 0.7:
        implicit = [t for t in ["ws", "nl", "cm"][:rng.randint(1, 3)]]
        decls.append(dict(d="implicit_tokens", names=implicit))
    epp_at = len(decls)
    if rng.random() < 0.25:
        decls.append(dict(d="expect", v=rng.randint(0, 3)))
    if rng.random() < 0.2:
        decls.append(dict(d="expectrr", v=rng.randint(0, 2)))
    if kind.startswith("original") and rng.random() < 0.4:
        decls.append(dict(d="actiontype", t=rng.choice(TYPES)))
    if rng.random() < 0.6:
        decls.append(dict(d="start", name=rules[0] if rng.random() < 0.7 else rng.choice(rules)))
    doc["_epp_at"] = epp_at
    # %token lines must precede their bare uses, which only occur in the rules section: any order is fine
    doc["decls"] = decls
    # rules; a rule may be defined in several pieces
    pieces = []
    for r in rules:
        for _ in range(1 if rng.random() < 0.8 else 2):
            pieces.append(r)
    rng.shuffle(pieces)
    # the first piece decides the default start rule; keep it as generated
    usable_prec = sorted(precs)
    for r in pieces:
        prods = []
        for _ in range(rng.randint(1, 3)):
            syms = []
            for _ in range(rng.choice([0, 1, 1, 2, 2, 3])):
                if rng.random() < 0.45:
                    syms.append(dict(t="rule", name=rng.choice(rules)))
                else:
                    syms.append(dict(t="tok", name=rng.choice(toks)))
            p = dict(syms=syms, prec=None, action=None, empty_kw=False)
            if not syms and rng.random() < 0.4:
                p["empty_kw"] = True
            if usable_prec and rng.random() < 0.2:
                p["prec"] = rng.choice(usable_prec)
            if rng.random() < 0.35:
                p["action"] = rng.choice(ACTIONS)
            prods.append(p)
        piece = dict(name=r, prods=prods, type=None)
        if kind == "grmtools":
            piece["type"] = TYPES[RULEPOOL.index(r) % len(TYPES)]
        doc["rules"].append(piece)
    used = set(sy["name"] for piece in doc["rules"] for p in piece["prods"] for sy in p["syms"] if sy["t"] == "tok")
    used |= set(declared)
    for t in toks:
        if t in used and rng.random() < 0.25:
            doc["decls"].append(dict(d="epp", name=t, text=rng.choice(["plus sign", "an integer", "'quoted'", "x"])))
    doc.pop("_epp_at")
    rng.shuffle(doc["decls"])
    if rng.random() < 0.25:
        doc["programs"] = rng.choice(["fn helper() {}\n", "// code\nuse std::fmt;\n", "x"])
    return doc


class Out:
    def __init__(self):
        self.b = bytearray()

    def put(self, s):
        self.b += s.encode("utf-8")

    def pos(self):
        return len(self.b)


HEADER_KIND = {"grmtools": "Grmtools", "eco": "Eco", "original": "Original(YaccOriginalActionKind::GenericParseTree)",
               "original_noaction": "Original(NoAction)", "original_useraction": "Original(YaccOriginalActionKind::UserAction)"}


def render(doc, rng, plain=False, header=False):
    """-> (text, rdoc) where rdoc is the document annotated with spans (for the specification).
    header: the text begins with a %grmtools section that names the yacc kind (the form
    YaccGrammar::from_str / ASTWithValidityInfo::from_str read)."""
    o = Out()
    if header:
        o.put(rng.choice(["%grmtools{yacckind: " + HEADER_KIND[doc["kind"]] + "}\n",
                          "%grmtools {\n  yacckind: " + HEADER_KIND[doc["kind"]] + ",\n}\n\n",
                          "\n \t%grmtools{yacckind: " + HEADER_KIND[doc["kind"]] + "} "]))
    declared = set()
    for d in doc["decls"]:
        if d["d"] == "token":
            declared.update(d["names"])

    def ws(nl_ok=True, need=True):
        if plain:
            if need:
                o.put(" ")
            return
        r = rng.random()
        if r < 0.6:
            o.put(" " if need or rng.random() < 0.5 else "")
        elif r < 0.7:
            o.put("\t ")
        elif r < 0.8:
            o.put(rng.choice([" /* c */ ", "/**/ ", " /** banner **/ ", "/* a * b ** c */", " /***/ ", "/* / */ ", " /* é */"]))
        elif nl_ok and r < 0.84:
            o.put(rng.choice(["/* closing in\ncolumn 0\n*/ ", " /*\n * boxed\n **/\n", "/* x\r\n*/",
                              "/* see\n// also this\n*/ ", "/* a\n/b */", "/*\r/ */ "]))
        elif nl_ok and r < 0.9:
            o.put("\n  ")
        elif nl_ok:
            o.put(" // note\n")
        else:
            o.put("  ")

    def tok_occ(name, allow_bare):
        """write one token occurrence; returns the occurrence record with the span of the name"""
        q = None
        if allow_bare and name in declared and is_ident(name) and (plain or rng.random() < 0.6):
            s = o.pos()
            o.put(name)
            return dict(n=name, q="bare", s=s, e=o.pos())
        q = "'" if ('"' in name or plain or rng.random() < 0.5) else '"'
        o.put(q)
        s = o.pos()
        o.put(name)
        e = o.pos()
        o.put(q)
        return dict(n=name, q="q", s=s, e=e)

    rdecls = []
    for d in doc["decls"]:
        k = d["d"]
        if k == "token":
            o.put("%token")
            occ = []
            for i, n in enumerate(d["names"]):
                ws(nl_ok=(i > 0))
                s = o.pos()
                # in a %token line names may be bare or quoted
                if plain or rng.random() < 0.7:
                    o.put(n)
                    occ.append(dict(n=n, q="bare", s=s, e=o.pos()))
                else:
                    o.put("'")
                    s = o.pos()
                    o.put(n)
                    e = o.pos()
                    o.put("'")
                    occ.append(dict(n=n, q="q", s=s, e=e))
            rdecls.append(dict(d="token", occ=occ))
        elif k in ("left", "right", "nonassoc", "avoid_insert", "implicit_tokens"):
            o.put("%" + k)
            occ = []
            for n in d["names"]:
                ws(nl_ok=False)
                occ.append(tok_occ(n, allow_bare=False))
            rdecls.append(dict(d=("prec" if k in ("left", "right", "nonassoc") else k),
                               kind={"left": 0, "right": 1, "nonassoc": 2}.get(k, -1), occ=occ))
        elif k == "epp":
            o.put("%epp")
            ws(nl_ok=False)
            occ = tok_occ(d["name"], allow_bare=False)
            ws(nl_ok=False)
            if "'" in d["text"]:
                o.put('"' + d["text"] + '"')
            else:
                o.put("'" + d["text"] + "'" if rng.random() < 0.5 else '"' + d["text"] + '"')
            rdecls.append(dict(d="epp", occ=[occ], text=d["text"]))
        elif k in ("expect", "expectrr"):
            o.put("%expect-rr" if k == "expectrr" else "%expect")
            ws(nl_ok=False)
            o.put(str(d["v"]))
            rdecls.append(dict(d=k, v=d["v"], occ=[]))
        elif k == "actiontype":
            o.put("%actiontype")
            ws(nl_ok=False)
            o.put(d["t"])
            rdecls.append(dict(d="actiontype", t=d["t"], occ=[]))
        elif k == "start":
            o.put("%start")
            ws(nl_ok=False)
            o.put(d["name"])
            rdecls.append(dict(d="start", name=d["name"], occ=[]))
        o.put("\n")
        if not plain and rng.random() < 0.3:
            o.put(rng.choice(["\n", "// comment line\n", "/* block\n comment */\n", "   \n", "/** doc **/\n", "/*\n*/\n", "// é //\n",
                              "/* see\n// also this\n*/\n", "/*\n/ x\n*/\n"]))
    o.put("%%\n")
    rrules = []
    for piece in doc["rules"]:
        if not plain and rng.random() < 0.3:
            o.put(rng.choice(["\n", "// r\n", "  /* x */ "]))
        s = o.pos()
        o.put(piece["name"])
        e = o.pos()
        if piece["type"] is not None:
            ws()
            o.put("->")
            ws()
            o.put(piece["type"])
            # everything up to the colon is the type: only blanks may follow it
            o.put(rng.choice(["", " ", "  ", "\n"]) if not plain else " ")
        else:
            ws(need=False)
        o.put(":")
        rprods = []
        for pi, p in enumerate(piece["prods"]):
            if pi > 0:
                ws(need=False)
                o.put("|")
            ws(need=False)
            ps = o.pos()
            pe = ps
            syms = []
            for sy in p["syms"]:
                if o.pos() != ps:
                    ws()
                if not syms:
                    ps = o.pos()
                if sy["t"] == "rule":
                    s2 = o.pos()
                    o.put(sy["name"])
                    syms.append(dict(t="rule", n=sy["name"], q="bare", s=s2, e=o.pos()))
                    pe = o.pos()
                else:
                    oc = tok_occ(sy["name"], allow_bare=True)
                    oc["t"] = "tok"
                    syms.append(oc)
                    pe = o.pos()
            first = ps
            if p["empty_kw"]:
                o.put("%empty")
                pe = o.pos()
            precocc = dict(n="", q="", s=0, e=0)
            if p["prec"] is not None:
                if o.pos() != ps or syms or p["empty_kw"]:
                    ws()
                elif not syms:
                    ps = o.pos()
                o.put("%prec")
                ws()
                precocc = tok_occ(p["prec"], allow_bare=False)
                pe = o.pos()
            action = ""
            has_action = False
            amax = pe
            if p["action"] is not None:
                ws(need=False)
                amax = o.pos()
                o.put("{")
                if not plain and rng.random() < 0.5:
                    o.put(" ")
                o.put(p["action"])
                if not plain and rng.random() < 0.5:
                    o.put(" \n ")
                o.put("}")
                action = p["action"].strip()
                has_action = True
            rprods.append(dict(syms=syms, prec=precocc, action=action, has_action=has_action,
                               ps=first if (syms or p["empty_kw"] or p["prec"]) else -1, pe=pe, pemax=amax,
                               nonempty_text=bool(syms or p["empty_kw"] or p["prec"])))
        ws(need=False)
        o.put(";")
        o.put("\n")
        rrules.append(dict(n=piece["name"], s=s, e=e, type=piece["type"] or "", prods=rprods))
    if doc["programs"] is not None:
        o.put("%%\n")
        o.put(doc["programs"])
    text = o.b.decode("utf-8")
    rdoc = dict(kind=doc["kind"], decls=rdecls, rules=rrules,
                programs=(doc["programs"] if doc["programs"] is not None else ""), has_programs=doc["programs"] is not None)
    return text, rdoc
