"""Generation of lex specifications: an abstract document (rules, start states, flags) and its
rendering as .l text.  Used by C09 (runtime behaviour), C11 (faithful image) and C13."""
import random

RE_POOL = ["a", "ab", "a+", "[a-c]+", "b*c", "(ab)*", ".", "[0-9]+", "é", "é+", "[ \\t\\n]+", "a|ab",
           "abc?", "x{2,3}", "\\.", "if", "[a-z]+", "[a-z][a-z0-9]*", "b+", "c", "ba", "[^a]", "a.c", "0x[0-9a-f]+",
           "\\+", "\\(", "==?", "\\n", "[ab]*c", "A", "(?i)k", "^a", "c$"]
ALPHA = list("abc") + ["é", "0", "1", "9", " ", "\n", ".", "x", "i", "f", "+", "(", "=", "A", "k", "K"]


def gen_lexdoc(rng, nrules=(1, 7), nstates=(0, 2), p_named=0.75, p_states=0.3, p_target=0.3, names=None):
    """abstract lex document"""
    ns = rng.randint(*nstates)
    states = [dict(name="S%d" % (i + 1), excl=rng.random() < 0.5) for i in range(ns)]
    rules = []
    pool = RE_POOL[:]
    rng.shuffle(pool)
    for i in range(rng.randint(*nrules)):
        r = dict(re=pool[i % len(pool)], name=None, states=[], target=None)
        if rng.random() < p_named:
            r["name"] = (names[i] if names and i < len(names) else "T%d" % i)
        if states and rng.random() < p_states:
            k = rng.randint(1, min(2, len(states)))
            r["states"] = [s["name"] for s in rng.sample(states, k)]
            if rng.random() < 0.2:
                r["states"].append("INITIAL")
        if states and rng.random() < p_target:
            r["target"] = (rng.choice(["", "+", "-"]), rng.choice([s["name"] for s in states] + ["INITIAL"]))
        rules.append(r)
    return dict(states=states, rules=rules, flags={})


def render_lex(doc, rng=None, header=None):
    """-> .l text (simple canonical layout; C11 uses a richer renderer)"""
    lines = []
    if header is not None:
        lines.append("%grmtools{" + ", ".join(header) + "}")
    for s in doc["states"]:
        lines.append("%s %s" % ("%x" if s["excl"] else "%s", s["name"]))
    lines.append("%%")
    for r in doc["rules"]:
        pre = ("<%s>" % ",".join(r["states"])) if r["states"] else ""
        re = r["re"]
        if not pre and re.startswith("<"):
            re = "\\" + re
        tgt = ("<%s%s>" % r["target"]) if r["target"] else ""
        name = ("'%s'" % r["name"]) if r["name"] is not None else ";"
        lines.append("%s%s %s%s" % (pre, re, tgt, name))
    return "\n".join(lines) + "\n"


def gen_input(rng, maxlen=12):
    return "".join(rng.choice(ALPHA) for _ in range(rng.randint(0, maxlen)))
