"""Generation of lex specifications: an abstract document (rules, start states, flags) and its
rendering as .l text.  Used by C09 (runtime behaviour), C11 (faithful image) and C13."""
import random

RE_POOL = ["a", "ab", "a+", "[a-c]+", "b*c", "(ab)*", ".", "[0-9]+", "é", "é+", "[ \\t\\n]+", "a|ab",
           "abc?", "x{2,3}", "\\.", "if", "[a-z]+", "[a-z][a-z0-9]*", "b+", "c", "ba", "[^a]", "a.c", "0x[0-9a-f]+",
           "\\+", "\\(", "==?", "\\n", "[ab]*c", "A", "(?i)k", "^a", "c$"]
ALPHA = list("abc") + ["é", "0", "1", "9", " ", "\n", ".", "x", "i", "f", "+", "(", "=", "A", "k", "K"]


def gen_lexdoc(rng, nrules=(1, 7), nstates=(0, 2), p_named=0.75, p_states=0.3, p_target=0.3, names=None):
    """abstract lex document"""
    ns = rng.randint(*nstates)
    states = [dict(name="S%d" % (i + 1), excl=rng.random() < 0.5) for i in range(ns)]
    rules = []
    pool = RE_POOL[:]
    rng.shuffle(pool)
    for i in range(rng.randint(*nrules)):
        r = dict(re=pool[i % len(pool)], name=None, states=[], target=None)
        if rng.random() < p_named:
            r["name"] = (names[i] if names and i < len(names) else "T%d" % i)
        if states and rng.random() < p_states:
            k = rng.randint(1, min(2, len(states)))
            r["states"] = [s["name"] for s in rng.sample(states, k)]
            if rng.random() < 0.2:
                r["states"].append("INITIAL")
        if states and rng.random() < p_target:
            r["target"] = (rng.choice(["", "+", "-"]), rng.choice([s["name"] for s in states] + ["INITIAL"]))
        rules.append(r)
    return dict(states=states, rules=rules, flags={})


def render_lex(doc, rng=None, header=None):
    """-> .l text (simple canonical layout; C11 uses a richer renderer)"""
    lines = []
    if header is not None:
        lines.append("%grmtools{" + ", ".join(header) + "}")
    for s in doc["states"]:
        lines.append("%s %s" % ("%x" if s["excl"] else "%s", s["name"]))
    lines.append("%%")
    for r in doc["rules"]:
        pre = ("<%s>" % ",".join(r["states"])) if r["states"] else ""
        re = r["re"]
        if not pre and re.startswith("<"):
            re = "\\" + re
        tgt = ("<%s%s>" % r["target"]) if r["target"] else ""
        name = ("'%s'" % r["name"]) if r["name"] is not None else ";"
        lines.append("%s%s %s%s" % (pre, re, tgt, name))
    return "\n".join(lines) + "\n"


def gen_input(rng, maxlen=12):
    return "".join(rng.choice(ALPHA) for _ in range(rng.randint(0, maxlen)))


# ---------------------------------------------------------------------------------------------
# C11: the lexer definition as a faithful image of the .l source.  Documents with written
# regular expressions (including escapes), start states, targets, flags given in a %grmtools
# section or through the builder; the renderer records the spans of all names.
WRITTEN = ["a", "ab", "[0-9]+", "a.", "^a", "k", "a b", "\\\"", "\\'", "\\,", "\\e", "\\ ", "x\\ y", "\\n", "\\x41", "\\d+",
           "\\.", "\\b", "a\\b", "\\é", "é+", "\\%", "\;", "\\\\", "\\/\\/", "[a-z]+", "\\<", "a\\<b", "\\=", "\\@x", "\\u00e9",
           "\\tq", "q\\:", "\\!",
           # an escape that is dropped followed by escapes that must stay (regex metacharacters)
           "\\/\\*", "\\<\\+", "a\\/b\\.c", "\\'\\(x\\)", "\\,\\|\\,", "\\=\\?\\=", "\\:\\[\\]", "\\@\\$\\^"]
ESCAPE_COMBOS = WRITTEN[-8:]
FLAGS = ["dot_matches_new_line", "multi_line", "octal", "posix_escapes", "case_insensitive", "swap_greed",
         "ignore_whitespace", "allow_wholeline_comments"]
DEFAULTS = dict(allow_wholeline_comments=False, dot_matches_new_line=True, multi_line=True, octal=True, posix_escapes=False)


def gen_lsrc(rng):
    ns = rng.randint(0, 3)
    states = [dict(name=rng.choice(["A", "St8", "cmt", "X_1", "q.r"]) + str(i), excl=rng.random() < 0.5) for i in range(ns)]
    rules = []
    pool = WRITTEN[:]
    rng.shuffle(pool)
    for i in range(rng.randint(1, 6)):
        r = dict(re=pool[i], name=None, states=[], target=None, quote=rng.choice(["'", '"']))
        if rng.random() < 0.8:
            r["name"] = rng.choice(["T", "tok", "N_", "é", "+", "if"]) + str(i)
        if states and rng.random() < 0.4:
            r["states"] = [s["name"] for s in rng.sample(states, rng.randint(1, min(2, len(states))))]
            if rng.random() < 0.2:
                r["states"].append("INITIAL")
        if states and rng.random() < 0.3:
            r["target"] = (rng.choice(["", "+", "-"]), rng.choice([s["name"] for s in states] + ["INITIAL"]))
        rules.append(r)
    header = None
    builder = None
    if rng.random() < 0.5:
        header = {f: rng.random() < 0.5 for f in rng.sample(FLAGS, rng.randint(0, 3))}
    if rng.random() < 0.3:
        builder = {f: rng.random() < 0.5 for f in rng.sample(FLAGS, rng.randint(0, 3))}
    return dict(states=states, rules=rules, header=header, builder=builder)


def eff_flags(doc):
    """flags in force: builder flags (if the builder is used, the section is ignored), else the
    %grmtools section, over the defaults"""
    eff = dict(DEFAULTS)
    src = doc["builder"] if doc["builder"] is not None else (doc["header"] or {})
    eff.update(src)
    return eff


def render_lsrc(doc, rng):
    """-> (text, rdoc with byte spans and code points)"""
    b = bytearray()

    def put(s):
        nonlocal b
        b += s.encode("utf-8")
    eff = eff_flags(doc)
    comments = eff.get("allow_wholeline_comments", False)
    if doc["header"] is not None:
        items = [(k if v else "!" + k) for k, v in doc["header"].items()]
        put(rng.choice(["%grmtools{", "%grmtools {", " %grmtools\n{ "]) + rng.choice([", ", ",", " ,\n "]).join(items) + rng.choice(["}", " }", ",}" if items else "}"]))
        put(rng.choice(["\n", " \n", "\n\n"]))
    rstates = []
    for s in doc["states"]:
        if comments and rng.random() < 0.3:
            put("// a comment\n")
        put(rng.choice(["%x", "%X", "%xstate"]) if s["excl"] else rng.choice(["%s", "%S", "%start"]))
        put(rng.choice([" ", "\t", "  "]))
        st = len(b)
        put(s["name"])
        rstates.append(dict(name=s["name"], excl=s["excl"], s=st, e=len(b)))
        put(rng.choice(["\n", "  \n", "\n\n"]))
    put("%%\n")
    rrules = []
    for r in doc["rules"]:
        if comments and rng.random() < 0.3:
            put("// rule comment 'x'\n")
        if rng.random() < 0.2:
            put("\n")
        pre = ("<%s>" % rng.choice([",", ", "]).join(r["states"])) if r["states"] else ""
        put(pre)
        put(r["re"])
        put(rng.choice([" ", "  ", "\t", " \t "]))
        if r["target"]:
            put("<%s%s>" % r["target"])
        if r["name"] is None:
            pos = len(b)
            put(rng.choice([";", "''", '""']))
            ns, ne = pos, pos
        else:
            put(r["quote"])
            ns = len(b)
            put(r["name"])
            ne = len(b)
            put(r["quote"])
        put(rng.choice(["\n", " \n", "\n"]))
        rrules.append(dict(name=r["name"] or "", named=r["name"] is not None, ns=ns, ne=ne,
                           re=[ord(c) for c in r["re"]], prefixed=bool(r["states"]),
                           states=r["states"], has_target=r["target"] is not None,
                           op={"": 1, "+": 2, "-": 3}[r["target"][0]] if r["target"] else 0,
                           tgt=r["target"][1] if r["target"] else ""))
    text = b.decode("utf-8")
    return text, dict(states=rstates, rules=rrules, eff=eff, posix=eff.get("posix_escapes", False))
