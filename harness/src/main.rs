//! vh: the Rust side of the grmtools verification machinery.
//!
//! It drives the real crates (built from /repo's working tree with `--cfg grmtools_verif`) and
//! writes what happened as NDJSON, which the TLA+ trace specifications under /verif/spec consume.
//! It contains *no oracle*: every judgement is made by TLC on the specification.

mod ct;
mod digest;
mod lex;
mod lr;
mod mm;
mod nlc;
mod width;
mod ysrc;
mod rng;
mod ser;
mod tokmap;
mod total;
mod util;

use std::env;

fn main() {
    let args: Vec<String> = env::args().collect();
    if args.len() < 2 {
        eprintln!("usage: vh <lr|...> args");
        std::process::exit(2);
    }
    // A panic inside code under test is data, not a harness failure: the places that call into
    // grmtools use catch_unwind; silence the default hook's backtrace noise.
    if std::env::var("VH_DEBUG").is_err() {
        std::panic::set_hook(Box::new(|_| {}));
    }
    let rc = match args[1].as_str() {
        "lr" => lr::main(&args[2..]),
        "lr-child" => lr::child_main(),
        "nlc" => nlc::main(&args[2..]),
        "lex" => lex::main(&args[2..]),
        "ctstep" => ct::main(&args[2..]),
        "ysrc" => ysrc::main(&args[2..]),
        "total" => total::main(&args[2..]),
        "ser" => ser::main(&args[2..]),
        "digest" => digest::main(&args[2..]),
        "total-child" => total::child_main(),
        "width" => width::main(&args[2..]),
        "markmap" => mm::main(&args[2..]),
        "tokmap" => tokmap::main(&args[2..]),
        x => {
            eprintln!("unknown subcommand {}", x);
            2
        }
    };
    std::process::exit(rc);
}
