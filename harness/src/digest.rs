//! `vh digest <job.json> <out.ndjson>`: build grammar, state graph and state table for every
//! instance in THIS process (fresh hash seeds) and record digests of the full observation, stage
//! by stage: grammar (every accessor), Pager decision sequence (hook H3), graph, table (conflicts
//! as a set).  Run several times as separate processes, the traces must agree (C15).

use std::{fs, io::{BufWriter, Write}};

use cfgrammar::yacc::YaccGrammar;
use lrtable::{Minimiser, from_yacc};
use serde_json::{Value, json};

use crate::{ct::gen_digest_str, lr::{graph_json, table_json, yacckind}, util::catch, ysrc::observe};

pub fn main(args: &[String]) -> i32 {
    let job: Value = serde_json::from_str(&fs::read_to_string(&args[0]).unwrap()).unwrap();
    let mut out = BufWriter::new(fs::File::create(&args[1]).unwrap());
    let proc = std::process::id();
    for inst in job["instances"].as_array().unwrap() {
        let y = inst["y"].as_str().unwrap();
        let kind = yacckind(inst["kind"].as_str().unwrap_or("original"));
        let r = catch(|| {
            let grm = match YaccGrammar::<u32>::new_with_storaget(kind, y) {
                Ok(g) => g,
                Err(e) => return json!({"g": format!("ERR {:?}", e.iter().map(|x| x.to_string()).collect::<Vec<_>>()), "p": "", "gr": "", "t": ""}),
            };
            let g = gen_digest_str(&observe(&grm).to_string());
            cfgrammar::verif::start();
            let built = from_yacc(&grm, Minimiser::Pager);
            let evs = cfgrammar::verif::take();
            let p = gen_digest_str(&evs.join("\n"));
            match built {
                Ok((sg, st)) => {
                    let gr = gen_digest_str(&graph_json(&sg).to_string());
                    let mut tj = table_json(&grm, &sg, &st);
                    // the order in which conflicts are listed is unspecified: compare them as sets
                    for k in ["sr", "rr"] {
                        let mut v: Vec<String> = tj[k].as_array().unwrap().iter().map(|x| x.to_string()).collect();
                        v.sort();
                        tj[k] = json!(v);
                    }
                    json!({"g": g, "p": p, "gr": gr, "t": gen_digest_str(&tj.to_string())})
                }
                Err(e) => json!({"g": g, "p": p, "gr": "", "t": format!("ERR {}", e)}),
            }
        });
        let d = r.unwrap_or_else(|m| json!({"g": format!("PANIC {}", m), "p": "", "gr": "", "t": ""}));
        let digest = format!("{}|{}|{}|{}", d["g"].as_str().unwrap(), d["p"].as_str().unwrap(), d["gr"].as_str().unwrap(), d["t"].as_str().unwrap());
        writeln!(out, "{}", json!({"ev": "built", "id": inst["id"], "width": 32, "proc": proc, "digest": digest, "diff": "grammar|pager events|graph|table"})).unwrap();
    }
    out.flush().unwrap();
    0
}
