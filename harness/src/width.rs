//! `vh width <job.json> <out.ndjson>`: build the same grammar with u8 / u16 / u32 index storage
//! (each under catch_unwind) and record outcome class, panic message, reported sizes and a
//! digest of the full observation (numbering, graph, table, parse results).

use std::{
    collections::hash_map::DefaultHasher,
    fmt::Debug,
    fs,
    hash::{Hash, Hasher},
    io::{BufWriter, Write},
};

use cfgrammar::yacc::YaccGrammar;
use lrtable::{Minimiser, from_yacc};
use num_traits::{AsPrimitive, PrimInt, Unsigned};
use serde_json::{Value, json};

use crate::{
    lr::{grammar_json, graph_json, table_json, yacckind},
    util::catch,
};

fn digest(v: &Value) -> String {
    let mut h = DefaultHasher::new();
    v.to_string().hash(&mut h);
    format!("{:016x}", h.finish())
}

/// The graph/table observation with states renumbered canonically (breadth-first from the start
/// state, edges in symbol order): equal for two automata iff they are equal up to state
/// numbering.  A projection, not an oracle.
fn canonical(gr: &Value, tb: &Value) -> Value {
    let states = gr["states"].as_array().unwrap();
    let n = states.len();
    let start = gr["start"].as_u64().unwrap() as usize;
    let mut newidx = vec![usize::MAX; n];
    let mut order = Vec::new();
    let mut queue = std::collections::VecDeque::new();
    newidx[start] = 0;
    order.push(start);
    queue.push_back(start);
    while let Some(s) = queue.pop_front() {
        for e in states[s]["edges"].as_array().unwrap() {
            let t = e[1].as_u64().unwrap() as usize;
            if newidx[t] == usize::MAX {
                newidx[t] = order.len();
                order.push(t);
                queue.push_back(t);
            }
        }
    }
    let ren = |x: &Value| json!(newidx.get(x.as_u64().unwrap_or(u64::MAX) as usize).copied().unwrap_or(usize::MAX));
    let cstates: Vec<Value> = order
        .iter()
        .map(|&s| {
            let st = &states[s];
            let edges: Vec<Value> = st["edges"].as_array().unwrap().iter().map(|e| json!([e[0], ren(&e[1])])).collect();
            json!({"core": st["core"], "closed": st["closed"], "edges": edges})
        })
        .collect();
    let act: Vec<Value> = order
        .iter()
        .map(|&s| {
            json!(tb["act"][s].as_array().unwrap().iter().map(|a| {
                if a[0] == "s" { json!(["s", ren(&a[1])]) } else { a.clone() }
            }).collect::<Vec<_>>())
        })
        .collect();
    let goto: Vec<Value> = order
        .iter()
        .map(|&s| {
            json!(tb["goto"][s].as_array().unwrap().iter().map(|g| {
                if g.as_i64().unwrap() < 0 { g.clone() } else { ren(g) }
            }).collect::<Vec<_>>())
        })
        .collect();
    let pick = |k: &str| -> Vec<Value> { order.iter().map(|&s| tb[k][s].clone()).collect() };
    let mut sr: Vec<Value> = tb["sr"].as_array().unwrap().iter().map(|c| json!([c[0], c[1], ren(&c[2])])).collect();
    sr.sort_by_key(|v| v.to_string());
    let mut rr: Vec<Value> = tb["rr"].as_array().unwrap().iter().map(|c| json!([c[0], c[1], c[2], ren(&c[3])])).collect();
    rr.sort_by_key(|v| v.to_string());
    // core_reduces picks among equivalent productions non-deterministically: compare as (rule, len)
    json!({"n": order.len(), "unreached": n - order.len(), "states": cstates, "act": act, "goto": goto,
           "sa": pick("sa"), "ss": pick("ss"), "ro": pick("ro"), "sr": sr, "rr": rr})
}

fn one<S: 'static + Debug + Hash + PrimInt + Unsigned>(inst: &Value) -> Value
where
    usize: AsPrimitive<S>,
    u32: AsPrimitive<S>,
{
    let y = inst["y"].as_str().unwrap();
    let kind = yacckind(inst["kind"].as_str().unwrap_or("original"));
    cfgrammar::verif::start();
    let r = catch(|| {
        let grm = match YaccGrammar::<S>::new_with_storaget(kind, y) {
            Ok(g) => g,
            Err(e) => return json!({"class": "grammar_err", "msg": format!("{:?}", e.iter().map(|x| x.to_string()).collect::<Vec<_>>())}),
        };
        let gj = grammar_json(&grm);
        let lens = json!({"rules": usize::from(grm.rules_len()), "tokens": usize::from(grm.tokens_len()),
                          "prods": usize::from(grm.prods_len()),
                          "maxprodlen": grm.iter_pidxs().map(|p| usize::from(grm.prod_len(p))).max().unwrap_or(0),
                          "iter_rules": grm.iter_rules().count(), "iter_tidxs": grm.iter_tidxs().count(),
                          "iter_pidxs": grm.iter_pidxs().count(),
                          "eof": usize::from(grm.eof_token_idx()), "startprod": usize::from(grm.start_prod())});
        match from_yacc(&grm, Minimiser::Pager) {
            Ok((sg, st)) => {
                let gr = graph_json(&sg);
                let tb = table_json(&grm, &sg, &st);
                let canon = canonical(&gr, &tb);
                json!({"class": "built", "lens": lens, "states": usize::from(sg.all_states_len()),
                       "iter_stidxs": sg.iter_stidxs().count(),
                       "gdigest": digest(&gj), "tdigest": digest(&json!([gr, tb])),
                       "cdigest": digest(&canon)})
            }
            Err(e) => json!({"class": "built_grammar_only", "lens": lens, "gdigest": digest(&gj), "table_err": format!("{:?}", e.kind)}),
        }
    });
    let events = cfgrammar::verif::take();
    let pregc = events
        .iter()
        .rev()
        .find(|e| e.contains("\"pregc\""))
        .and_then(|e| serde_json::from_str::<Value>(e).ok())
        .map(|v| v["n"].clone())
        .unwrap_or(json!(-1));
    match r {
        Ok(mut v) => {
            v["pregc"] = pregc;
            v
        }
        Err(m) => json!({"class": if m.contains("not big enough") { "refused" } else { "panic" }, "msg": m}),
    }
}

pub fn main(args: &[String]) -> i32 {
    if args.len() != 2 {
        eprintln!("usage: vh width <job.json> <out.ndjson>");
        return 2;
    }
    let job: Value = serde_json::from_str(&fs::read_to_string(&args[0]).unwrap()).unwrap();
    let mut out = BufWriter::new(fs::File::create(&args[1]).unwrap());
    for inst in job["instances"].as_array().unwrap() {
        let w8 = one::<u8>(inst);
        let w16 = if inst["skip16"].as_bool().unwrap_or(false) { json!({"class": "skipped"}) } else { one::<u16>(inst) };
        let w32 = one::<u32>(inst);
        writeln!(
            out,
            "{}",
            json!({"ev": "width", "id": inst["id"], "counts": inst["counts"], "w8": w8, "w16": w16, "w32": w32})
        )
        .unwrap();
    }
    out.flush().unwrap();
    0
}
