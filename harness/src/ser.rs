//! `vh ser <job.json> <out.ndjson>`: serialise grammar + state table exactly as generated parsers
//! embed them (wincode, fixed / variable integer encoding), reconstitute them with
//! lrpar::ctbuilder::_reconstitute, and record the full observation before and after, for every
//! storage width that accepts the grammar (C14).

use std::{fmt::Debug, fs, hash::Hash, io::{BufWriter, Write}};

use cfgrammar::{TIdx, yacc::YaccGrammar};
use lrlex::{DefaultLexeme, DefaultLexerTypes, LRNonStreamingLexer};
use lrpar::{Lexeme, RTParserBuilder, RecoveryKind, ctbuilder::{_reconstitute, wincode}};
use lrtable::{Minimiser, StIdx, StateTable, from_yacc};
use num_traits::{AsPrimitive, PrimInt, Unsigned};
use serde_json::{Value, json};

use crate::{lr::{action_json, yacckind}, util::catch, ysrc::observe};

fn table_obs<S: 'static + Debug + Hash + PrimInt + Unsigned>(grm: &YaccGrammar<S>, st: &StateTable<S>, n: usize) -> Value
where
    usize: AsPrimitive<S>,
{
    let mut rows = Vec::new();
    for s in 0..n {
        let s = StIdx::<S>(s.as_());
        rows.push(json!({
            "act": grm.iter_tidxs().map(|t| action_json(st.action(s, t))).collect::<Vec<_>>(),
            "goto": grm.iter_rules().map(|r| st.goto(s, r).map(|x| usize::from(x) as i64).unwrap_or(-1)).collect::<Vec<_>>(),
            "sa": st.state_actions(s).map(usize::from).collect::<Vec<_>>(),
            "ss": st.state_shifts(s).map(usize::from).collect::<Vec<_>>(),
            "cr": st.core_reduces(s).map(usize::from).collect::<Vec<_>>(),
            "ro": st.reduce_only_state(s),
        }));
    }
    let (sr, rr) = match st.conflicts() {
        None => (vec![], vec![]),
        Some(c) => (
            c.sr_conflicts().map(|(t, p, s)| json!([usize::from(*t), usize::from(*p), usize::from(*s)])).collect::<Vec<_>>(),
            c.rr_conflicts().map(|(t, p, q, s)| json!([usize::from(*t), usize::from(*p), usize::from(*q), usize::from(*s)])).collect::<Vec<_>>(),
        ),
    };
    json!({"start": usize::from(st.start_state()), "rows": rows, "sr": sr, "rr": rr, "has_conflicts": st.conflicts().is_some()})
}

fn parses<S: 'static + Debug + Hash + PrimInt + Unsigned>(grm: &YaccGrammar<S>, st: &StateTable<S>, inputs: &[Vec<usize>]) -> Value
where
    usize: AsPrimitive<S>,
    u32: AsPrimitive<S>,
{
    let mut out = Vec::new();
    for toks in inputs {
        let src: String = "x ".repeat(toks.len());
        let lexemes = toks.iter().enumerate().map(|(i, t)| Ok(DefaultLexeme::<S>::new(S::from(*t).unwrap(), 2 * i, 1))).collect::<Vec<_>>();
        let mut nlc = cfgrammar::NewlineCache::new();
        nlc.feed(&src);
        let lexer = LRNonStreamingLexer::<DefaultLexerTypes<S>>::new(&src, lexemes, nlc);
        let calls = std::cell::Cell::new(0usize);
        let r = catch(|| {
            let (tree, errs) = RTParserBuilder::new(grm, st).recoverer(RecoveryKind::None).parse_map(
                &lexer,
                &|l: DefaultLexeme<S>| format!("t{}", l.tok_id().to_usize().unwrap()),
                &|r, ns: Vec<String>| {
                    calls.set(calls.get() + 1);
                    if calls.get() > 5000 {
                        // reduce loop of a grammar in which a rule derives itself
                        panic!("HARNESS-LOOP");
                    }
                    format!("(r{} {})", usize::from(r), ns.join(" "))
                },
            );
            json!({"tree": tree.unwrap_or_default(), "nerrs": errs.len(),
                   "err": errs.iter().map(|e| format!("{}", e)).collect::<Vec<_>>()})
        });
        out.push(r.unwrap_or_else(|m| json!({"panic": m})));
    }
    json!(out)
}

fn first_diff(a: &Value, b: &Value, path: &str) -> String {
    match (a, b) {
        (Value::Object(x), Value::Object(y)) => {
            for (k, v) in x {
                match y.get(k) {
                    None => return format!("{}.{} missing", path, k),
                    Some(w) if w != v => return first_diff(v, w, &format!("{}.{}", path, k)),
                    _ => {}
                }
            }
            format!("{} (extra keys)", path)
        }
        (Value::Array(x), Value::Array(y)) => {
            if x.len() != y.len() {
                return format!("{} length {} vs {}", path, x.len(), y.len());
            }
            for (i, (v, w)) in x.iter().zip(y.iter()).enumerate() {
                if v != w {
                    return first_diff(v, w, &format!("{}[{}]", path, i));
                }
            }
            path.to_string()
        }
        _ => format!("{}: {} vs {}", path, a.to_string().chars().take(60).collect::<String>(), b.to_string().chars().take(60).collect::<String>()),
    }
}

pub fn main(args: &[String]) -> i32 {
    let job: Value = serde_json::from_str(&fs::read_to_string(&args[0]).unwrap()).unwrap();
    let mut out = BufWriter::new(fs::File::create(&args[1]).unwrap());
    for inst in job["instances"].as_array().unwrap() {
        for ev in run_all(inst) {
            writeln!(out, "{}", ev).unwrap();
        }
    }
    out.flush().unwrap();
    0
}

macro_rules! width_run {
    ($t:ty, $w:expr, $inst:expr, $evs:expr) => {{
        let inst: &Value = $inst;
        let y = inst["y"].as_str().unwrap();
        let kind = yacckind(inst["kind"].as_str().unwrap_or("original"));
        let built = catch(|| {
            let grm = YaccGrammar::<$t>::new_with_storaget(kind, y).map_err(|e| format!("{:?}", e.iter().map(|x| x.to_string()).collect::<Vec<_>>()))?;
            let (sg, st) = from_yacc(&grm, Minimiser::Pager).map_err(|e| format!("{}", e))?;
            Ok::<_, String>((grm, usize::from(sg.all_states_len()), st))
        });
        match built {
            Ok(Ok((grm, n, st))) => {
                let nt = usize::from(grm.tokens_len());
                let inputs: Vec<Vec<usize>> = inst["inputs"].as_array().map(|a| a.iter().map(|w| w.as_array().unwrap().iter().map(|t| (t.as_u64().unwrap() as usize) % nt.max(1)).collect()).collect()).unwrap_or_default();
                let before = json!({"grammar": observe(&grm), "table": table_obs(&grm, &st, n), "parses": parses(&grm, &st, &inputs)});
                $evs.push(json!({"ev": "built", "id": inst["id"], "width": $w, "states": n, "digest": crate::ct::gen_digest_str(&before.to_string()),
                                 "optional": {"precs": y.contains("%left") || y.contains("%right") || y.contains("%nonassoc"), "epp": y.contains("%epp"),
                                              "avoid": y.contains("%avoid_insert"), "expect": y.contains("%expect"), "actions": y.contains('{'),
                                              "nonascii": !y.is_ascii(), "table_bits_mod64": (n * nt) % 64}}));
                for fmt in ["fixed", "variable"] {
                    let r = catch(|| {
                        let pd = if fmt == "fixed" {
                            let config = wincode::config::Configuration::default().with_fixint_encoding();
                            let g = wincode::config::serialize(&grm, config).unwrap();
                            let s = wincode::config::serialize(&st, config).unwrap();
                            (g.len() + s.len(), _reconstitute::<_, $t>(&g, &s, config))
                        } else {
                            let config = wincode::config::Configuration::default().with_varint_encoding();
                            let g = wincode::config::serialize(&grm, config).unwrap();
                            let s = wincode::config::serialize(&st, config).unwrap();
                            (g.len() + s.len(), _reconstitute::<_, $t>(&g, &s, config))
                        };
                        let (bytes, pd) = pd;
                        let after = json!({"grammar": observe(pd.grm()), "table": table_obs(pd.grm(), pd.stable(), n), "parses": parses(pd.grm(), pd.stable(), &inputs)});
                        (bytes, after)
                    });
                    match r {
                        Ok((bytes, after)) => {
                            let same = after == before;
                            $evs.push(json!({"ev": "reconstitute", "id": inst["id"], "width": $w, "format": fmt, "bytes": bytes,
                                             "digest": crate::ct::gen_digest_str(&after.to_string()),
                                             "diff": if same { "".to_string() } else { first_diff(&before, &after, "obs") }}));
                        }
                        Err(m) => $evs.push(json!({"ev": "reconstitute", "id": inst["id"], "width": $w, "format": fmt, "bytes": 0, "digest": "PANIC", "diff": m})),
                    }
                }
            }
            Ok(Err(m)) => $evs.push(json!({"ev": "notbuilt", "id": inst["id"], "width": $w, "why": m})),
            Err(m) => $evs.push(json!({"ev": "notbuilt", "id": inst["id"], "width": $w, "why": m})),
        }
    }};
}

fn run_all(inst: &Value) -> Vec<Value> {
    let mut evs = Vec::new();
    width_run!(u8, 8, inst, evs);
    width_run!(u16, 16, inst, evs);
    width_run!(u32, 32, inst, evs);
    let _ = TIdx(0u32);
    evs
}
