//! `vh ysrc <job.json> <out.ndjson>`: parse .y sources and dump EVERY accessor of the resulting
//! grammar (each under catch_unwind), next to the abstract document the source was rendered
//! from, for spec/YaccSrc.tla (C10); with `"total": true` only the outcome class and the spans of
//! errors / warnings are recorded (C12).

use std::{fs, io::{BufWriter, Write}};

use cfgrammar::{PIdx, RIdx, Spanned, Symbol, TIdx, yacc::{YaccGrammar, ast::ASTWithValidityInfo}};
use serde_json::{Value, json};

use crate::{lr::{sym_code, yacckind}, util::{catch, denull}};

fn span_json(s: cfgrammar::Span) -> Value {
    json!([s.start(), s.end()])
}

pub fn observe<S: 'static + num_traits::PrimInt + num_traits::Unsigned>(grm: &YaccGrammar<S>) -> Value
where
    usize: num_traits::AsPrimitive<S>,
{
    let rules = grm.iter_rules().map(|r| {
        json!({"name": catch(|| grm.rule_name_str(r).to_string()).unwrap_or("PANIC".into()),
               "span": catch(|| span_json(grm.rule_name_span(r))).unwrap_or(json!([-7, -7])),
               "prods": grm.rule_to_prods(r).iter().map(|p| usize::from(*p)).collect::<Vec<_>>(),
               "actiontype": catch(|| grm.actiontype(r).clone().unwrap_or_default()).unwrap_or("PANIC".into()),
               "has_actiontype": catch(|| grm.actiontype(r).is_some()).unwrap_or(false)})
    }).collect::<Vec<_>>();
    let tokens = grm.iter_tidxs().map(|t| {
        let p = grm.token_precedence(t);
        json!({"name": grm.token_name(t).unwrap_or(""), "has_name": grm.token_name(t).is_some(),
               "span": grm.token_span(t).map(span_json).unwrap_or(json!([-1, -1])),
               "prec": match p { None => json!([-1, -1]), Some(p) => json!([p.level, match p.kind {
                   cfgrammar::yacc::AssocKind::Left => 0, cfgrammar::yacc::AssocKind::Right => 1, cfgrammar::yacc::AssocKind::Nonassoc => 2}]) },
               "epp": grm.token_epp(t).unwrap_or(""), "has_epp": grm.token_epp(t).is_some(),
               "avoid": grm.avoid_insert(t),
               "idx_by_name": grm.token_name(t).and_then(|n| grm.token_idx(n)).map(|x| usize::from(x) as i64).unwrap_or(-1)})
    }).collect::<Vec<_>>();
    let prods = grm.iter_pidxs().map(|p| {
        let pr = grm.prod_precedence(p);
        json!({"r": usize::from(grm.prod_to_rule(p)),
               "rhs": grm.prod(p).iter().map(sym_code).collect::<Vec<_>>(),
               "len": usize::from(grm.prod_len(p)),
               "prec": match pr { None => json!([-1, -1]), Some(p) => json!([p.level, match p.kind {
                   cfgrammar::yacc::AssocKind::Left => 0, cfgrammar::yacc::AssocKind::Right => 1, cfgrammar::yacc::AssocKind::Nonassoc => 2}]) },
               "span": catch(|| span_json(grm.prod_span(p))).unwrap_or(json!([-7, -7])),
               "action": catch(|| grm.action(p).clone().unwrap_or_default()).unwrap_or("PANIC".into()),
               "has_action": catch(|| grm.action(p).is_some()).unwrap_or(false),
               "action_span": catch(|| grm.action_span(p).map(span_json).unwrap_or(json!([-1, -1]))).unwrap_or(json!([-7, -7]))})
    }).collect::<Vec<_>>();
    // range checks on everything the API hands out
    let nr = usize::from(grm.rules_len());
    let nt = usize::from(grm.tokens_len());
    let np = usize::from(grm.prods_len());
    let mut inrange = true;
    for p in grm.iter_pidxs() {
        inrange &= usize::from(grm.prod_to_rule(p)) < nr;
        for s in grm.prod(p) {
            inrange &= match s { Symbol::Rule(r) => usize::from(*r) < nr, Symbol::Token(t) => usize::from(*t) < nt };
        }
    }
    for r in grm.iter_rules() {
        for p in grm.rule_to_prods(r) {
            inrange &= usize::from(*p) < np;
        }
    }
    let _ = (PIdx(0u32), RIdx(0u32), TIdx(0u32));
    let mut extra = serde_json::Map::new();
    extra.insert("parse_param".into(), json!(grm.parse_param().clone().map(|(a, b)| vec![a, b]).unwrap_or_default()));
    extra.insert("parse_generics".into(), json!(grm.parse_generics().clone().unwrap_or_default()));
    json!({"nr": nr, "nt": nt, "np": np, "rules": rules, "tokens": tokens, "prods": prods,
           "iter_rules": grm.iter_rules().map(usize::from).collect::<Vec<_>>(),
           "iter_tidxs": grm.iter_tidxs().map(usize::from).collect::<Vec<_>>(),
           "iter_pidxs": grm.iter_pidxs().map(usize::from).collect::<Vec<_>>(),
           "inrange": inrange,
           "startprod": usize::from(grm.start_prod()), "startrule": usize::from(grm.start_rule_idx()),
           "eof": usize::from(grm.eof_token_idx()),
           "expect": grm.expect().map(|x| x as i64).unwrap_or(-1), "expectrr": grm.expectrr().map(|x| x as i64).unwrap_or(-1),
           "implicit_rule": grm.implicit_rule().map(|x| usize::from(x) as i64).unwrap_or(-1),
           "programs": grm.programs().clone().unwrap_or_default(), "has_programs": grm.programs().is_some(),
           "extra": extra,
           "rule_idx_ok": grm.iter_rules().all(|r| grm.rule_idx(grm.rule_name_str(r)) == Some(r) || grm.rule_name_str(r).starts_with('^') || grm.rule_name_str(r).starts_with('~')),
    })
}

pub fn main(args: &[String]) -> i32 {
    let job: Value = serde_json::from_str(&fs::read_to_string(&args[0]).unwrap()).unwrap();
    let mut out = BufWriter::new(fs::File::create(&args[1]).unwrap());
    for inst in job["instances"].as_array().unwrap() {
        let y = inst["y"].as_str().unwrap();
        let kind = yacckind(inst["kind"].as_str().unwrap_or("original"));
        let via_from_str = inst["from_str"].as_bool().unwrap_or(false);
        let r = catch(|| {
            // (from_str: the kind comes from the text's own %grmtools section)
            let astv = if via_from_str {
                match <ASTWithValidityInfo as std::str::FromStr>::from_str(y) {
                    Ok(a) => a,
                    Err(es) => {
                        return json!({"class": "err", "errors": es.iter().map(|e| json!({"kind": format!("{}", e), "spans": e.spans().iter().map(|s| [s.start(), s.end()]).collect::<Vec<_>>()})).collect::<Vec<_>>()});
                    }
                }
            } else {
                ASTWithValidityInfo::new(kind, y)
            };
            match YaccGrammar::<u32>::new_from_ast_with_validity_info(&astv) {
                Ok(g) => {
                    let warnings = astv.ast().warnings().iter().map(|w| json!({"kind": format!("{}", w), "spans": w.spans().iter().map(|s| [s.start(), s.end()]).collect::<Vec<_>>()})).collect::<Vec<_>>();
                    // ... and the grammar the other entry points make of the same text must be the same
                    let same = if via_from_str {
                        let o1 = observe(&g);
                        let g2 = <YaccGrammar<u32> as std::str::FromStr>::from_str(y).ok().map(|g| observe(&g));
                        let g3 = YaccGrammar::<u32>::new_with_storaget(kind, y).ok().map(|g| observe(&g));
                        g2.as_ref() == Some(&o1) && g3.as_ref() == Some(&o1)
                    } else {
                        true
                    };
                    json!({"class": "ok", "obs": observe(&g), "warnings": warnings, "entries_agree": same})
                }
                Err(es) => json!({"class": "err", "errors": es.iter().map(|e| json!({"kind": format!("{}", e), "spans": e.spans().iter().map(|s| [s.start(), s.end()]).collect::<Vec<_>>()})).collect::<Vec<_>>()}),
            }
        });
        let r = match r {
            Ok(v) => v,
            Err(m) => json!({"class": "panic", "msg": m}),
        };
        writeln!(out, "{}", denull(json!({"ev": "ydoc", "id": inst["id"], "y": y, "len": y.len(), "kind": inst["kind"], "doc": inst["doc"], "res": r}))).unwrap();
    }
    out.flush().unwrap();
    0
}
