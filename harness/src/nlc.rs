//! `vh nlc <job.json> <out.ndjson>`: drive cfgrammar::NewlineCache (and the lexer / error
//! pretty-printer that sit on top of it) over every text of a small family in every chunking,
//! plus seeded-random longer texts, and record state after each feed (hook H2) and the full
//! answer table.

use std::{
    fs,
    io::{BufWriter, Write},
};

use cfgrammar::{NewlineCache, Span};
use lrlex::{DefaultLexerTypes, LRLexError, LRNonStreamingLexer, LRNonStreamingLexerDef, LexerDef};
use lrpar::{LexParseError, NonStreamingLexer, diagnostics::SpannedDiagnosticFormatter};
use serde_json::{Value, json};

use crate::{rng::Rng, util::catch};

const ALPHA: [&str; 4] = ["a", "\u{e9}", "\n", "\r"];

fn chunkings(chars: &[&str], maxfeeds: usize) -> Vec<Vec<String>> {
    // all ways to cut the character sequence into at most `maxfeeds` (possibly empty) pieces
    let n = chars.len();
    let mut out = Vec::new();
    fn rec(chars: &[&str], from: usize, left: usize, cur: &mut Vec<String>, out: &mut Vec<Vec<String>>) {
        if left == 1 {
            cur.push(chars[from..].concat());
            out.push(cur.clone());
            cur.pop();
            return;
        }
        for cut in from..=chars.len() {
            cur.push(chars[from..cut].concat());
            rec(chars, cut, left - 1, cur, out);
            cur.pop();
        }
    }
    for k in 1..=maxfeeds {
        rec(chars, 0, k, &mut Vec::new(), &mut out);
    }
    let _ = n;
    out.sort();
    out.dedup();
    out
}

fn answers(text: &str, nlc: &NewlineCache, rng: &mut Rng, maxspans: usize) -> Value {
    let len = text.len();
    let bounds: Vec<usize> = (0..=len).filter(|o| text.is_char_boundary(*o)).collect();
    let mut line = vec![-9i64; len + 2];
    let mut lb = vec![-9i64; len + 2];
    let mut lc = vec![json!([-9, -9]); len + 2];
    let mut offs = bounds.clone();
    offs.push(len + 1);
    for &o in &offs {
        line[o] = catch(|| nlc.byte_to_line_num(o).map(|x| x as i64).unwrap_or(-1)).unwrap_or(-7);
        lb[o] = catch(|| nlc.byte_to_line_byte(o).map(|x| x as i64).unwrap_or(-1)).unwrap_or(-7);
        lc[o] = catch(|| {
            nlc.byte_to_line_num_and_col_num(text, o)
                .map(|(l, c)| json!([l, c]))
                .unwrap_or(json!([-1, -1]))
        })
        .unwrap_or(json!([-7, -7]));
    }
    let mut pairs = Vec::new();
    for (i, &s) in bounds.iter().enumerate() {
        for &e in &bounds[i..] {
            pairs.push((s, e));
        }
    }
    if pairs.len() > maxspans {
        let mut sel = Vec::new();
        for _ in 0..maxspans {
            sel.push(pairs[rng.below(pairs.len())]);
        }
        // always include the extremes
        sel.push((0, len));
        sel.push((len, len));
        sel.push((0, 0));
        pairs = sel;
    }
    let lexer = {
        let mut n2 = NewlineCache::new();
        n2.feed(text);
        LRNonStreamingLexer::<DefaultLexerTypes<u32>>::new(text, vec![], n2)
    };
    // the same queries through a lexer that lrlex itself produced for this text - with all token
    // ids present, or (every other case) with the word rule's id missing so that lexing stops
    // with an error at the first word - and through the diagnostics formatter
    let mut def = LRNonStreamingLexerDef::<DefaultLexerTypes<u32>>::from_str("%%\n[a-z\u{e9}]+ 'W'\n[ \\t\\n\\r]+ ;\n(?s:.) 'O'\n").unwrap();
    let mut ids = std::collections::HashMap::new();
    ids.insert("O", 1u32);
    if len % 2 == 0 {
        ids.insert("W", 0u32);
    }
    def.set_rule_ids(&ids);
    let lexer2 = def.lexer(text);
    let diag = SpannedDiagnosticFormatter::new(text, std::path::Path::new("f.y"));
    let spans = pairs
        .iter()
        .map(|&(s, e)| {
            let (st, en) = catch(|| nlc.span_line_bytes(Span::new(s, e)))
                .map(|(a, b)| (a as i64, b as i64))
                .unwrap_or((-7, -7));
            let lcs = catch(|| lexer.line_col(Span::new(s, e)))
                .map(|((a, b), (c, d))| [a as i64, b as i64, c as i64, d as i64])
                .unwrap_or([-7, -7, -7, -7]);
            let sl = catch(|| {
                let sub = lexer.span_lines_str(Span::new(s, e));
                let off = sub.as_ptr() as usize - text.as_ptr() as usize;
                (off as i64, (off + sub.len()) as i64)
            })
            .unwrap_or((-7, -7));
            let pp = catch(|| {
                let err: LexParseError<u32, DefaultLexerTypes<u32>> =
                    LexParseError::LexError(LRLexError::new(Span::new(s, e)));
                err.pp(&lexer, &|_| None)
            })
            .unwrap_or_else(|_| "PANIC".to_string());
            // "Lexing error at line L column C."
            let nums: Vec<i64> = pp
                .split(|c: char| !c.is_ascii_digit())
                .filter(|x| !x.is_empty())
                .filter_map(|x| x.parse().ok())
                .collect();
            let (ppl, ppc) = if nums.len() == 2 { (nums[0], nums[1]) } else { (-7, -7) };
            let lcs2 = catch(|| lexer2.line_col(Span::new(s, e)))
                .map(|((a, b), (c, d))| [a as i64, b as i64, c as i64, d as i64])
                .unwrap_or([-7, -7, -7, -7]);
            let sl2 = catch(|| {
                let sub = lexer2.span_lines_str(Span::new(s, e));
                let off = sub.as_ptr() as usize - text.as_ptr() as usize;
                (off as i64, (off + sub.len()) as i64)
            })
            .unwrap_or((-7, -7));
            let fl = catch(|| diag.file_location_msg("", Some(Span::new(s, e)))).unwrap_or_else(|_| "PANIC".to_string());
            let fnums: Vec<i64> = fl.rsplit(':').take(2).filter_map(|x| x.trim().parse().ok()).collect();
            let (fll, flc) = if fnums.len() == 2 { (fnums[1], fnums[0]) } else { (-7, -7) };
            // the rendering of the span by the diagnostics formatter (code points; [-7] = panic)
            let rd: Vec<i64> = catch(|| diag.underline_span_with_text(Span::new(s, e), "M".to_string(), '^'))
                .map(|x| x.chars().map(|c| c as i64).collect())
                .unwrap_or_else(|m| { if std::env::var("VH_DEBUG").is_ok() { eprintln!("render panic {:?} {} {}: {}", text, s, e, m); } vec![-7] });
            json!([s, e, st, en, lcs[0], lcs[1], lcs[2], lcs[3], sl.0, sl.1, ppl, ppc,
                   lcs2[0], lcs2[1], lcs2[2], lcs2[3], sl2.0, sl2.1, fll, flc, rd])
        })
        .collect::<Vec<_>>();
    json!({"ev": "answers", "line": line, "lb": lb, "lc": lc, "spans": spans})
}

fn run_case(out: &mut dyn Write, id: &str, chunks: &[String], with_answers: bool, rng: &mut Rng, maxspans: usize) {
    writeln!(out, "{}", json!({"ev": "begin", "id": id})).unwrap();
    let mut nlc = NewlineCache::new();
    let mut text = String::new();
    for c in chunks {
        nlc.feed(c);
        text.push_str(c);
        let (nl, tr) = nlc.verif_state();
        writeln!(
            out,
            "{}",
            json!({"ev": "feed", "bytes": c.as_bytes(), "newlines": nl, "trailing": tr})
        )
        .unwrap();
    }
    if with_answers {
        writeln!(out, "{}", answers(&text, &nlc, rng, maxspans)).unwrap();
    }
}

pub fn main(args: &[String]) -> i32 {
    if args.len() != 2 {
        eprintln!("usage: vh nlc <job.json> <out.ndjson>");
        return 2;
    }
    let job: Value = serde_json::from_str(&fs::read_to_string(&args[0]).unwrap()).unwrap();
    let mut out = BufWriter::new(fs::File::create(&args[1]).unwrap());
    let mut rng = Rng::new(job["seed"].as_u64().unwrap_or(1));
    let maxlen = job["exhaustive"]["maxlen"].as_u64().unwrap_or(4) as usize;
    let maxfeeds = job["exhaustive"]["maxfeeds"].as_u64().unwrap_or(3) as usize;
    // every character sequence with byte length <= maxlen
    let mut seqs: Vec<Vec<&str>> = vec![vec![]];
    let mut frontier: Vec<Vec<&str>> = vec![vec![]];
    loop {
        let mut next = Vec::new();
        for s in &frontier {
            for a in ALPHA.iter() {
                let mut t = s.clone();
                t.push(a);
                if t.concat().len() <= maxlen {
                    next.push(t);
                }
            }
        }
        if next.is_empty() {
            break;
        }
        seqs.extend(next.iter().cloned());
        frontier = next;
    }
    let mut ncase = 0;
    for (ti, s) in seqs.iter().enumerate() {
        for (ci, ch) in chunkings(s, maxfeeds).iter().enumerate() {
            run_case(&mut out, &format!("x{}-{}", ti, ci), ch, ci == 0, &mut rng, 10_000);
            ncase += 1;
        }
    }
    // random longer texts
    let nrand = job["random"]["n"].as_u64().unwrap_or(0) as usize;
    let rmax = job["random"]["maxlen"].as_u64().unwrap_or(120) as usize;
    let pool = ["a", "b", " ", "\u{e9}", "\u{4e16}", "\u{1f600}", "\n", "\r\n", "\r", "\n\n", "x y", "\t"];
    for i in 0..nrand {
        let mut text = String::new();
        let target = 1 + rng.below(rmax);
        while text.len() < target {
            text.push_str(pool[rng.below(pool.len())]);
        }
        if rng.chance(1, 2) {
            text.push('\n');
        }
        // random chunking at character boundaries
        let bounds: Vec<usize> = (0..=text.len()).filter(|o| text.is_char_boundary(*o)).collect();
        let mut cuts: Vec<usize> = (0..rng.below(5)).map(|_| bounds[rng.below(bounds.len())]).collect();
        cuts.push(0);
        cuts.push(text.len());
        cuts.sort();
        let chunks: Vec<String> = cuts.windows(2).map(|w| text[w[0]..w[1]].to_string()).collect();
        run_case(&mut out, &format!("r{}", i), &chunks, true, &mut rng, 60);
        ncase += 1;
    }
    out.flush().unwrap();
    eprintln!("{} cases", ncase);
    0
}
