//! `vh lex <job.json> <out.ndjson>`: parse lex specifications with lrlex and lex inputs with
//! them; record the definition (rules, start states, spans), the produced lexemes / error, the
//! result of syncing ids with a parser's token map and - as ENVIRONMENT for the specification -
//! the length of every rule's match at every character offset, computed with a regex built
//! here from the rule's `re_str()` (the regex crate is trusted; rule selection is not).

use std::{
    collections::HashMap,
    fs,
    io::{BufWriter, Write},
};

use lrlex::{DefaultLexerTypes, LRNonStreamingLexerDef, LexFlags, LexerDef, StartStateOperation, DEFAULT_LEX_FLAGS};
use lrpar::{LexError, Lexeme, Lexer};
use regex::RegexBuilder;
use serde_json::{Value, json};

use crate::util::catch;

pub fn flags_from(v: &Value) -> LexFlags {
    let mut f = DEFAULT_LEX_FLAGS;
    let b = |k: &str| v[k].as_bool();
    if let Some(x) = b("dot_matches_new_line") { f.dot_matches_new_line = Some(x); }
    if let Some(x) = b("multi_line") { f.multi_line = Some(x); }
    if let Some(x) = b("octal") { f.octal = Some(x); }
    if let Some(x) = b("posix_escapes") { f.posix_escapes = Some(x); }
    if let Some(x) = b("allow_wholeline_comments") { f.allow_wholeline_comments = Some(x); }
    if let Some(x) = b("case_insensitive") { f.case_insensitive = Some(x); }
    if let Some(x) = b("swap_greed") { f.swap_greed = Some(x); }
    if let Some(x) = b("ignore_whitespace") { f.ignore_whitespace = Some(x); }
    if let Some(x) = b("unicode") { f.unicode = Some(x); }
    f
}

pub fn def_json(def: &LRNonStreamingLexerDef<DefaultLexerTypes<u32>>) -> Value {
    let rules = def
        .iter_rules()
        .map(|r| {
            let (op, tgt) = match r.target_state() {
                None => (0, 0),
                Some((id, StartStateOperation::ReplaceStack)) => (1, id),
                Some((id, StartStateOperation::Push)) => (2, id),
                Some((id, StartStateOperation::Pop)) => (3, id),
            };
            json!({"named": r.name().is_some(), "name": r.name().unwrap_or(""),
                   "name_cp": r.name().unwrap_or("").chars().map(|c| c as u32).collect::<Vec<_>>(),
                   "tok": r.tok_id().map(|x| x as i64).unwrap_or(-1),
                   "name_span": [r.name_span().start(), r.name_span().end()],
                   "re": r.re_str(), "re_cp": r.re_str().chars().map(|c| c as u32).collect::<Vec<_>>(),
                   "states": r.start_states(), "op": op, "tgt": tgt})
        })
        .collect::<Vec<_>>();
    let states = def
        .iter_start_states()
        .map(|s| {
            // StartState's id / exclusive fields are private: recover them through Debug
            let d = format!("{:?}", s);
            let id = d.split("id: ").nth(1).and_then(|x| x.split(',').next()).and_then(|x| x.trim().parse::<usize>().ok()).unwrap_or(usize::MAX);
            let excl = d.contains("exclusive: true");
            json!({"id": id, "name": s.name(), "name_cp": s.name().chars().map(|c| c as u32).collect::<Vec<_>>(),
                   "excl": excl, "span": [s.name_span().start(), s.name_span().end()]})
        })
        .collect::<Vec<_>>();
    json!({"rules": rules, "states": states})
}

fn env_match(def: &LRNonStreamingLexerDef<DefaultLexerTypes<u32>>, eff: &Value, input: &str) -> Result<(Vec<usize>, Vec<Vec<usize>>), String> {
    let mut res = Vec::new();
    for r in def.iter_rules() {
        let mut b = RegexBuilder::new(&format!("(?:{})", r.re_str()));
        b.octal(eff["octal"].as_bool().unwrap_or(true))
            .multi_line(eff["multi_line"].as_bool().unwrap_or(true))
            .dot_matches_new_line(eff["dot_matches_new_line"].as_bool().unwrap_or(true));
        if let Some(x) = eff["ignore_whitespace"].as_bool() { b.ignore_whitespace(x); }
        if let Some(x) = eff["unicode"].as_bool() { b.unicode(x); }
        if let Some(x) = eff["case_insensitive"].as_bool() { b.case_insensitive(x); }
        if let Some(x) = eff["swap_greed"].as_bool() { b.swap_greed(x); }
        res.push(b.build().map_err(|e| e.to_string())?);
    }
    let bounds: Vec<usize> = (0..=input.len()).filter(|o| input.is_char_boundary(*o)).collect();
    let mut m = Vec::new();
    for &o in &bounds {
        let mut row = Vec::new();
        for re in &res {
            // the match of the rule AT this offset: a leftmost match that starts right here
            row.push(match re.find(&input[o..]) {
                Some(mm) if mm.start() == 0 => mm.end(),
                _ => 0,
            });
        }
        m.push(row);
    }
    Ok((bounds, m))
}

pub fn main(args: &[String]) -> i32 {
    if args.len() != 2 {
        eprintln!("usage: vh lex <job.json> <out.ndjson>");
        return 2;
    }
    let job: Value = serde_json::from_str(&fs::read_to_string(&args[0]).unwrap()).unwrap();
    let mut out = BufWriter::new(fs::File::create(&args[1]).unwrap());
    for inst in job["instances"].as_array().unwrap() {
        let l = inst["l"].as_str().unwrap();
        writeln!(out, "{}", crate::util::denull(json!({"ev": "lexreset", "id": inst["id"], "l": l, "doc": inst["doc"], "builder_flags": inst["builder_flags"], "eff": inst["eff"]}))).unwrap();
        let built = catch(|| {
            if inst["builder_flags"].is_object() {
                LRNonStreamingLexerDef::<DefaultLexerTypes<u32>>::new_with_options(l, flags_from(&inst["builder_flags"]))
            } else {
                LRNonStreamingLexerDef::<DefaultLexerTypes<u32>>::from_str(l)
            }
        });
        let mut def = match built {
            Err(m) => {
                writeln!(out, "{}", json!({"ev": "lexdef_panic", "msg": m})).unwrap();
                continue;
            }
            Ok(Err(es)) => {
                let errs = es.iter().map(|e| {
                    use cfgrammar::Spanned;
                    json!({"kind": format!("{}", e), "spans": e.spans().iter().map(|s| [s.start(), s.end()]).collect::<Vec<_>>()})
                }).collect::<Vec<_>>();
                let bounds: Vec<usize> = (0..=l.len()).filter(|o| l.is_char_boundary(*o)).collect();
                writeln!(out, "{}", json!({"ev": "lexdef_err", "errors": errs, "len": l.len(), "bounds": bounds})).unwrap();
                continue;
            }
            Ok(Ok(d)) => d,
        };
        let mut dj = def_json(&def);
        dj["ev"] = json!("lexdef");
        writeln!(out, "{}", dj).unwrap();
        // sync ids with a parser's token map
        if let Some(mp) = inst["map"].as_object() {
            let owned: Vec<(String, u32)> = mp.iter().map(|(k, v)| (k.clone(), v.as_u64().unwrap() as u32)).collect();
            let hm: HashMap<&str, u32> = owned.iter().map(|(k, v)| (k.as_str(), *v)).collect();
            let (a, b) = {
                let (a, b) = def.set_rule_ids(&hm);
                let f = |x: Option<std::collections::HashSet<&str>>| -> Value {
                    match x {
                        None => json!({"none": true, "names": []}),
                        Some(s) => {
                            let mut v: Vec<String> = s.iter().map(|x| x.to_string()).collect();
                            v.sort();
                            json!({"none": false, "names": v})
                        }
                    }
                };
                (f(a), f(b))
            };
            let mut dj2 = def_json(&def);
            dj2["ev"] = json!("lexsync");
            dj2["map"] = json!(owned.iter().map(|(k, v)| json!([k, v])).collect::<Vec<_>>());
            dj2["first"] = a;
            dj2["second"] = b;
            writeln!(out, "{}", dj2).unwrap();
        }
        for input in inst["inputs"].as_array().unwrap_or(&vec![]) {
            let input = input.as_str().unwrap();
            let (bounds, m) = match env_match(&def, &inst["eff"], input) {
                Ok(x) => x,
                Err(e) => {
                    writeln!(out, "{}", json!({"ev": "lexenv_err", "msg": e})).unwrap();
                    break;
                }
            };
            let r = catch(|| {
                let lexer = def.lexer(input);
                let mut lexemes = Vec::new();
                let mut errs = Vec::new();
                let mut order_ok = true;
                for x in lexer.iter() {
                    match x {
                        Ok(lx) => {
                            if !errs.is_empty() {
                                order_ok = false;
                            }
                            lexemes.push(json!([lx.tok_id(), lx.span().start(), lx.span().len(), lx.faulty()]));
                        }
                        Err(e) => errs.push(json!([e.span().start(), e.span().end()])),
                    }
                }
                json!({"lexemes": lexemes, "errs": errs, "error_last": order_ok})
            });
            let r = match r {
                Ok(v) => v,
                Err(msg) => json!({"panic": msg}),
            };
            writeln!(out, "{}", json!({"ev": "lexrun", "input": input, "len": input.len(), "bounds": bounds, "m": m, "run": r})).unwrap();
        }
    }
    out.flush().unwrap();
    0
}
