//! `vh markmap <job.json> <out.ndjson>`: random operation sequences on two `MarkMap`s (the map
//! behind the %grmtools header and the builders' settings), every operation followed by the full
//! observation of both maps through the public API (MarkMap.tla / TraceMarkMap.tla).

use std::{fs, io::{BufWriter, Write}};

use cfgrammar::markmap::{Entry, MarkMap, MergeBehavior};
use serde_json::{Value, json};

use crate::{rng::Rng, util::catch};

const NOVAL: u32 = 99;
const NKEYS: u8 = 3;

fn mb_of(i: usize) -> MergeBehavior {
    match i {
        0 => MergeBehavior::Theirs,
        1 => MergeBehavior::Ours,
        _ => MergeBehavior::MutuallyExclusive,
    }
}
fn mb_name(i: usize) -> &'static str {
    ["theirs", "ours", "excl"][i.min(2)]
}

fn observe(m: &mut MarkMap<u8, u32>) -> Value {
    let mut keys = Vec::new();
    for k in 0..NKEYS {
        let get = m.get(&k).copied().unwrap_or(NOVAL);
        let contains = m.contains_key(&k);
        let used = m.is_used(&k);
        let req = m.is_required(&k);
        // the raw mark of an occupied entry shows the merge behaviour of the key
        let (occ, mb) = match m.entry(k) {
            Entry::Occupied(o) => {
                let mark = o.get_mark();
                (true, match (mark >> 8) & 7 { 1 => "theirs", 2 => "ours", 4 => "excl", 0 => "none", _ => "mixed" })
            }
            Entry::Vacant(_) => (false, "hidden"),
        };
        keys.push(json!({"k": k, "get": get, "contains": contains, "used": used, "req": req, "occupied": occ, "mb": mb}));
    }
    let unused: Vec<u8> = m.unused();
    let missing: Vec<u8> = m.missing().into_iter().copied().collect();
    let ks: Vec<u8> = m.keys().copied().collect();
    let iter: Vec<u8> = (&*m).into_iter().map(|(k, _)| *k).collect();
    json!({"keys": keys, "unused": unused, "missing": missing, "keyset": ks, "iter": iter})
}

pub fn main(args: &[String]) -> i32 {
    let job: Value = serde_json::from_str(&fs::read_to_string(&args[0]).unwrap()).unwrap();
    let mut out = BufWriter::new(fs::File::create(&args[1]).unwrap());
    let seed = job["seed"].as_u64().unwrap_or(1);
    let n = job["n"].as_u64().unwrap_or(100);
    let len = job["len"].as_u64().unwrap_or(12) as usize;
    for s in 0..n {
        let mut rng = Rng::new(seed.wrapping_mul(1_000_003).wrapping_add(s));
        let mut maps: Vec<MarkMap<u8, u32>> = vec![MarkMap::new(), MarkMap::new()];
        writeln!(out, "{}", json!({"ev": "mm_reset", "id": format!("mm{}", s)})).unwrap();
        for _ in 0..len {
            let w = rng.below(2);
            let k = rng.below(NKEYS as usize) as u8;
            let v = 1 + rng.below(3) as u32;
            let b = rng.below(3);
            let op = rng.below(12);
            let mut ev = json!({"ev": "mm_op", "w": w, "k": k, "v": v, "b": mb_name(b)});
            let r = catch(|| {
                let m = &mut maps[w];
                match op {
                    0 | 1 => ("insert", json!(m.insert(k, v).unwrap_or(NOVAL))),
                    2 => ("remove", json!(m.remove(&k).unwrap_or(NOVAL))),
                    3 => { m.mark_used(&k); ("mark_used", json!(NOVAL)) }
                    4 => { m.mark_required(&k); ("mark_required", json!(NOVAL)) }
                    5 => { m.set_merge_behavior(&k, mb_of(b)); ("set_mb", json!(NOVAL)) }
                    6 => { m.set_default_merge_behavior(mb_of(b)); ("set_default", json!(NOVAL)) }
                    7 => match m.entry(k) {
                        Entry::Occupied(o) => ("insert", json!(o.insert(v))),
                        Entry::Vacant(e) => { e.insert(v); ("insert", json!(NOVAL)) }
                    },
                    8 => match m.entry(k) {
                        Entry::Occupied(mut o) => { o.mark_required(); ("mark_required", json!(NOVAL)) }
                        Entry::Vacant(mut e) => { e.mark_required(); ("mark_required", json!(NOVAL)) }
                    },
                    9 => match m.entry(k) {
                        Entry::Occupied(mut o) => { o.set_merge_behavior(mb_of(b)); ("set_mb", json!(NOVAL)) }
                        Entry::Vacant(mut e) => { e.set_merge_behavior(mb_of(b)); ("set_mb", json!(NOVAL)) }
                    },
                    _ => ("merge", json!(NOVAL)),
                }
            });
            match r {
                Ok((name, res)) => {
                    ev["op"] = json!(name);
                    ev["res"] = res;
                    if name == "merge" {
                        // maps[w] <- merge_from(maps[1 - w]); the other map is consumed
                        let other = std::mem::replace(&mut maps[1 - w], MarkMap::new());
                        let mr = catch(|| maps[w].merge_from(other));
                        match mr {
                            Ok(Ok(())) => ev["res"] = json!({"err": false, "key": 0}),
                            Ok(Err(cfgrammar::markmap::MergeError::Exclusivity(key, _))) => ev["res"] = json!({"err": true, "key": key}),
                            Err(m) => { ev["op"] = json!("panic"); ev["res"] = json!(m); }
                        }
                    }
                }
                Err(m) => {
                    ev["op"] = json!("panic");
                    ev["res"] = json!(m);
                }
            }
            let (a, b2) = maps.split_at_mut(1);
            ev["obs"] = json!([observe(&mut a[0]), observe(&mut b2[0])]);
            writeln!(out, "{}", ev).unwrap();
        }
    }
    out.flush().unwrap();
    0
}
