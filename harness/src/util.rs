use std::{
    panic::{self, AssertUnwindSafe},
    sync::mpsc,
    thread,
    time::Duration,
};

/// Outcome of running code under test under a watchdog.
pub enum Outcome<T> {
    Done(T),
    Panic(String),
    Hang,
}

/// Run `f` on a fresh thread (large stack), catching panics and giving up after `timeout`.
/// A thread that does not come back is leaked: the process exits when the harness is done.
pub fn guarded<T: Send + 'static, F: FnOnce() -> T + Send + 'static>(
    timeout: Duration,
    f: F,
) -> Outcome<T> {
    let (tx, rx) = mpsc::channel();
    let h = thread::Builder::new()
        .stack_size(256 << 20)
        .spawn(move || {
            let r = panic::catch_unwind(AssertUnwindSafe(f));
            let _ = tx.send(r.map_err(|e| {
                if let Some(s) = e.downcast_ref::<&str>() {
                    s.to_string()
                } else if let Some(s) = e.downcast_ref::<String>() {
                    s.clone()
                } else {
                    "panic".to_string()
                }
            }));
        })
        .unwrap();
    match rx.recv_timeout(timeout) {
        Ok(Ok(v)) => {
            let _ = h.join();
            Outcome::Done(v)
        }
        Ok(Err(m)) => {
            let _ = h.join();
            Outcome::Panic(m)
        }
        Err(_) => Outcome::Hang,
    }
}

pub fn catch<T, F: FnOnce() -> T>(f: F) -> Result<T, String> {
    panic::catch_unwind(AssertUnwindSafe(f)).map_err(|e| {
        if let Some(s) = e.downcast_ref::<&str>() {
            s.to_string()
        } else if let Some(s) = e.downcast_ref::<String>() {
            s.clone()
        } else {
            "panic".to_string()
        }
    })
}

/// TLC's JSON reader has no null: replace nulls by 0.
pub fn denull(v: serde_json::Value) -> serde_json::Value {
    use serde_json::Value;
    match v {
        Value::Null => Value::from(0),
        Value::Array(a) => Value::Array(a.into_iter().map(denull).collect()),
        Value::Object(o) => Value::Object(o.into_iter().map(|(k, v)| (k, denull(v))).collect()),
        x => x,
    }
}


/// Is the machine busy enough for a slow child to be mistaken for a hang?  (1-minute load above
/// half the cores, or more runnable tasks than cores right now.)
pub fn machine_loaded() -> bool {
    let ncpu = std::thread::available_parallelism().map(|n| n.get()).unwrap_or(4) as f64;
    if let Ok(s) = std::fs::read_to_string("/proc/loadavg") {
        let f: Vec<&str> = s.split_whitespace().collect();
        let l1 = f.first().and_then(|x| x.parse::<f64>().ok()).unwrap_or(0.0);
        let running = f.get(3).and_then(|x| x.split('/').next()).and_then(|x| x.parse::<f64>().ok()).unwrap_or(0.0);
        return l1 > 0.5 * ncpu || running > ncpu;
    }
    true
}
