//! `vh ctstep <request.json>`: ONE compile-time build (CTParserBuilder, or CTLexerBuilder with an
//! embedded parser build) in this process - the builders keep a process-global set of generated
//! paths, so every build of a history has to be its own process, as it is under cargo.  Prints
//! one JSON object describing the outcome and the generated files.

use std::{collections::hash_map::DefaultHasher, fs, hash::{Hash, Hasher}, path::Path};

use cfgrammar::yacc::{YaccGrammar, YaccKind, YaccOriginalActionKind};
use lrlex::{CTLexerBuilder, DefaultLexerTypes};
use lrpar::{CTParserBuilder, RecoveryKind, RustEdition, SerialisationFormat, Visibility};
use lrtable::{Minimiser, from_yacc};
use serde_json::{Value, json};

use crate::util::catch;

/// digest of a generated file with the embedded build timestamps masked
pub fn gen_digest(p: &Path) -> Value {
    match fs::read_to_string(p) {
        Err(_) => json!({"exists": false, "digest": "", "len": 0}),
        Ok(s) => {
            let masked: String = mask(&s);
            let mut h = DefaultHasher::new();
            masked.hash(&mut h);
            json!({"exists": true, "digest": format!("{:016x}", h.finish()), "len": s.len(),
                   "has_cache": s.contains("CACHE INFORMATION")})
        }
    }
}

pub fn gen_digest_str(s: &str) -> String {
    let mut h = DefaultHasher::new();
    s.hash(&mut h);
    format!("{:016x}", h.finish())
}

pub fn mask(s: &str) -> String {
    // BUILD_TIME = "...." inside the cache comment, and the "// lrlex build time: ..." line
    let re = regex::Regex::new(r#"(BUILD_TIME = \\?"[^"\\]*\\?")|(GRAMMAR_PATH = \\?"[^"\\]*\\?")|(// lrlex build time: "[^"]*")"#).unwrap();
    re.replace_all(s, "TIMESTAMP").to_string()
}

fn yk(s: &str) -> Option<YaccKind> {
    match s {
        "grmtools" => Some(YaccKind::Grmtools),
        "original_noaction" => Some(YaccKind::Original(YaccOriginalActionKind::NoAction)),
        "original_generic" => Some(YaccKind::Original(YaccOriginalActionKind::GenericParseTree)),
        "original_useraction" => Some(YaccKind::Original(YaccOriginalActionKind::UserAction)),
        _ => None,
    }
}

fn vis(s: &str) -> Visibility {
    match s {
        "public" => Visibility::Public,
        "super" => Visibility::PublicSuper,
        "crate" => Visibility::PublicCrate,
        "self" => Visibility::PublicSelf,
        "in" => Visibility::PublicIn("crate".to_string()),
        _ => Visibility::Private,
    }
}

fn edition(s: &str) -> RustEdition {
    match s {
        "2015" => RustEdition::Rust2015,
        "2018" => RustEdition::Rust2018,
        _ => RustEdition::Rust2021,
    }
}

fn config_parser<'a>(
    mut b: CTParserBuilder<'a, DefaultLexerTypes<u32>>,
    o: &'a Value,
) -> CTParserBuilder<'a, DefaultLexerTypes<u32>> {
    if let Some(k) = o["yacckind"].as_str().and_then(yk) {
        b = b.yacckind(k);
    }
    match o["recoverer"].as_str() {
        Some("none") => b = b.recoverer(RecoveryKind::None),
        Some("cpctplus") => b = b.recoverer(RecoveryKind::CPCTPlus),
        _ => {}
    }
    match o["sformat"].as_str() {
        Some("fixed") => b = b.serialisation_format(SerialisationFormat::FixedSizeInteger),
        Some("variable") => b = b.serialisation_format(SerialisationFormat::VariableSizedInteger),
        _ => {}
    }
    if let Some(x) = o["eoc"].as_bool() {
        b = b.error_on_conflicts(x);
    }
    if let Some(x) = o["wae"].as_bool() {
        b = b.warnings_are_errors(x);
    }
    if let Some(x) = o["showw"].as_bool() {
        b = b.show_warnings(x);
    }
    if let Some(x) = o["vis"].as_str() {
        b = b.visibility(vis(x));
    }
    if let Some(x) = o["edition"].as_str() {
        b = b.rust_edition(edition(x));
    }
    if let Some(x) = o["mod_name"].as_str() {
        b = b.mod_name(x);
    }
    b
}

pub fn main(args: &[String]) -> i32 {
    let req: Value = serde_json::from_str(&fs::read_to_string(&args[0]).unwrap()).unwrap();
    let gpath = req["grammar_path"].as_str().unwrap().to_string();
    let gout = req["grammar_out"].as_str().unwrap().to_string();
    let o = req["opts"].clone();
    let which = req["which"].as_str().unwrap_or("parser");
    let mut res = json!({"ev": "build", "which": which});
    // what a run-time build of the same grammar says about conflicts (for the %expect rule)
    if let Some(k) = o["yacckind"].as_str().and_then(yk) {
        if let Ok(src) = fs::read_to_string(&gpath) {
            if let Ok(Ok(grm)) = catch(|| YaccGrammar::<u32>::new_with_storaget(k, &src)) {
                res["expect"] = json!(grm.expect().map(|x| x as i64).unwrap_or(-1));
                res["expectrr"] = json!(grm.expectrr().map(|x| x as i64).unwrap_or(-1));
                if let Ok(Ok((_, st))) = catch(|| from_yacc(&grm, Minimiser::Pager)) {
                    res["sr"] = json!(st.conflicts().map(|c| c.sr_len()).unwrap_or(0));
                    res["rr"] = json!(st.conflicts().map(|c| c.rr_len()).unwrap_or(0));
                }
            }
        }
    }
    if which == "parser" || which == "process_file" {
        let r = catch(|| {
            if which == "process_file" {
                // the deprecated entry point: same settings, input and output given as arguments
                let b = config_parser(CTParserBuilder::<DefaultLexerTypes<u32>>::new(), &o);
                let mut b = b;
                #[allow(deprecated)]
                let r = b.process_file(&gpath, &gout).map(|_| true).map_err(|e| e.to_string());
                return r;
            }
            let b = CTParserBuilder::<DefaultLexerTypes<u32>>::new().grammar_path(&gpath).output_path(&gout);
            let b = config_parser(b, &o);
            b.build().map(|p| p.regenerated()).map_err(|e| e.to_string())
        });
        match r {
            Ok(Ok(regen)) => {
                res["ok"] = json!(true);
                res["regenerated"] = json!(regen);
                res["err"] = json!("");
            }
            Ok(Err(e)) => {
                res["ok"] = json!(false);
                res["regenerated"] = json!(false);
                res["err"] = json!(e.chars().take(400).collect::<String>());
            }
            Err(m) => {
                res["ok"] = json!(false);
                res["regenerated"] = json!(false);
                res["err"] = json!(format!("PANIC {}", m));
            }
        }
    } else if which == "lexer" {
        // a lexer on its own, with a user-supplied rule id map (several names may share an id)
        let lpath = req["lexer_path"].as_str().unwrap().to_string();
        let lout = req["lexer_out"].as_str().unwrap().to_string();
        let map: std::collections::HashMap<String, u32> = req["rule_ids_map"].as_object().map(|m| {
            m.iter().map(|(k, v)| (k.clone(), v.as_u64().unwrap_or(0) as u32)).collect()
        }).unwrap_or_default();
        let r = catch(move || {
            CTLexerBuilder::<DefaultLexerTypes<u32>>::new()
                .rule_ids_map(map)
                .lexer_path(&lpath)
                .output_path(&lout)
                .build()
                .map(|_| ())
                .map_err(|e| e.to_string())
        });
        match r {
            Ok(Ok(())) => {
                res["ok"] = json!(true);
                res["err"] = json!("");
            }
            Ok(Err(e)) => {
                res["ok"] = json!(false);
                res["err"] = json!(e.chars().take(400).collect::<String>());
            }
            Err(m) => {
                res["ok"] = json!(false);
                res["err"] = json!(format!("PANIC {}", m));
            }
        }
        res["regenerated"] = json!(false);
        res["lexer_out"] = gen_digest(Path::new(req["lexer_out"].as_str().unwrap()));
    } else {
        let lpath = req["lexer_path"].as_str().unwrap().to_string();
        let lout = req["lexer_out"].as_str().unwrap().to_string();
        let o2 = o.clone();
        let gpath2 = gpath.clone();
        let gout2 = gout.clone();
        let r = catch(move || {
            let o3 = o2.clone();
            let mut b = CTLexerBuilder::<DefaultLexerTypes<u32>>::new()
                .lexer_path(&lpath)
                .output_path(&lout)
                .lrpar_config(move |ctp| config_parser(ctp.grammar_path(&gpath2).output_path(&gout2), Box::leak(Box::new(o3.clone()))));
            if let Some(x) = o2["lex_vis"].as_str() {
                b = b.visibility(match x {
                    "public" => lrlex::Visibility::Public,
                    "super" => lrlex::Visibility::PublicSuper,
                    "self" => lrlex::Visibility::PublicSelf,
                    "crate" => lrlex::Visibility::PublicCrate,
                    "in" => lrlex::Visibility::PublicIn("crate".to_string()),
                    _ => lrlex::Visibility::Private,
                });
            }
            if let Some(x) = o2["lex_mod_name"].as_str() {
                b = b.mod_name(Box::leak(x.to_string().into_boxed_str()));
            }
            if let Some(x) = o2["case_insensitive"].as_bool() {
                b = b.case_insensitive(x);
            }
            if let Some(x) = o2["dot_matches_new_line"].as_bool() {
                b = b.dot_matches_new_line(x);
            }
            if let Some(x) = o2["lex_wae"].as_bool() {
                b = b.warnings_are_errors(x);
            }
            if let Some(x) = o2["allow_missing_terms_in_lexer"].as_bool() {
                b = b.allow_missing_terms_in_lexer(x);
            }
            if let Some(x) = o2["allow_missing_tokens_in_parser"].as_bool() {
                b = b.allow_missing_tokens_in_parser(x);
            }
            b.build().map(|_| ()).map_err(|e| e.to_string())
        });
        match r {
            Ok(Ok(())) => {
                res["ok"] = json!(true);
                res["err"] = json!("");
            }
            Ok(Err(e)) => {
                res["ok"] = json!(false);
                res["err"] = json!(e.chars().take(400).collect::<String>());
            }
            Err(m) => {
                res["ok"] = json!(false);
                res["err"] = json!(format!("PANIC {}", m));
            }
        }
        res["regenerated"] = json!(false);
        res["lexer_out"] = gen_digest(Path::new(req["lexer_out"].as_str().unwrap()));
    }
    res["grammar_out"] = gen_digest(Path::new(&gout));
    println!("{}", res);
    0
}
