//! `vh lr <jobs.json> <out.ndjson>`: run the grammar -> analyses -> Pager -> table -> parse
//! pipeline of the real crates over a list of instances and write everything observable as
//! NDJSON events (vocabulary: DESIGN.md appendix B).

use std::{
    cell::RefCell,
    fmt::Debug,
    fs,
    hash::Hash,
    io::{BufWriter, Write},
    time::Duration,
};

use cfgrammar::{
    NewlineCache, PIdx, RIdx, Span, Symbol, TIdx,
    yacc::{AssocKind, YaccGrammar, YaccKind, YaccOriginalActionKind},
};
use lrlex::{DefaultLexeme, DefaultLexerTypes, LRNonStreamingLexer};
use lrpar::{
    LexParseError, Lexeme, NonStreamingLexer, ParseRepair, RTParserBuilder, RecoveryKind,
    parser::AStackType,
};
use lrtable::{Action, Minimiser, StIdx, StateGraph, StateTable, from_yacc};
use num_traits::{AsPrimitive, PrimInt, Unsigned};
use serde_json::{Value, json};

use crate::{
    rng::Rng,
    util::catch,
};

pub const ROFF: usize = 100_000;

pub fn yacckind(s: &str) -> YaccKind {
    match s {
        "grmtools" => YaccKind::Grmtools,
        "eco" => YaccKind::Eco,
        "original_noaction" => YaccKind::Original(YaccOriginalActionKind::NoAction),
        "original_useraction" => YaccKind::Original(YaccOriginalActionKind::UserAction),
        _ => YaccKind::Original(YaccOriginalActionKind::GenericParseTree),
    }
}

pub fn main(args: &[String]) -> i32 {
    if args.len() != 2 {
        eprintln!("usage: vh lr <jobs.json> <out.ndjson>");
        return 2;
    }
    let jobs: Value = serde_json::from_str(&fs::read_to_string(&args[0]).unwrap()).unwrap();
    let seed = jobs["seed"].as_u64().unwrap_or(0);
    let insts: Vec<Value> = jobs["instances"].as_array().unwrap().clone();
    let n = insts.len();
    let results: Vec<std::sync::Mutex<Vec<String>>> =
        (0..n).map(|_| std::sync::Mutex::new(Vec::new())).collect();
    let next = std::sync::atomic::AtomicUsize::new(0);
    let workers = jobs["workers"].as_u64().unwrap_or(8) as usize;
    std::thread::scope(|sc| {
        for _ in 0..workers.max(1) {
            sc.spawn(|| {
                loop {
                    let i = next.fetch_add(1, std::sync::atomic::Ordering::SeqCst);
                    if i >= n {
                        break;
                    }
                    let mut inst = insts[i].clone();
                    if inst["iseed"].is_null() {
                        inst["iseed"] = json!(seed.wrapping_mul(1_000_003).wrapping_add(i as u64));
                    }
                    let lines = run_child(&inst);
                    *results[i].lock().unwrap() = lines;
                }
            });
        }
    });
    let mut out = BufWriter::new(fs::File::create(&args[1]).unwrap());
    for r in results {
        for l in r.into_inner().unwrap() {
            writeln!(out, "{}", l).unwrap();
        }
    }
    out.flush().unwrap();
    0
}

/// Run one instance in a child process (`vh lr-child`, instance on stdin, NDJSON on stdout).
/// Code under test that does not return cannot wedge or starve the harness: if the child stays
/// silent for longer than the per-line deadline it is killed and a `hang` event is recorded.
fn run_child(inst: &Value) -> Vec<String> {
    // A silent child is killed; but silence can also be a loaded machine.  On a loaded machine a
    // hang is therefore reported only if it reproduces with a deadline eight times as long.
    let budget_ms = inst["budget_ms"].as_u64().unwrap_or(4000);
    let (lines, hung) = run_child_with(inst, Duration::from_millis(5 * budget_ms + 1500));
    if !hung || !crate::util::machine_loaded() {
        return lines;
    }
    let (lines2, _) = run_child_with(inst, Duration::from_millis(8 * (5 * budget_ms + 1500)));
    lines2
}

fn run_child_with(inst: &Value, deadline: Duration) -> (Vec<String>, bool) {
    use std::io::{BufRead, BufReader};
    use std::process::{Command, Stdio};
    let exe = std::env::current_exe().unwrap();
    let mut child = Command::new(exe)
        .arg("lr-child")
        .stdin(Stdio::piped())
        .stdout(Stdio::piped())
        .stderr(Stdio::null())
        .spawn()
        .unwrap();
    {
        let mut stdin = child.stdin.take().unwrap();
        let _ = stdin.write_all(inst.to_string().as_bytes());
    }
    let stdout = child.stdout.take().unwrap();
    let (tx, rx) = std::sync::mpsc::channel::<String>();
    let reader = std::thread::spawn(move || {
        for line in BufReader::new(stdout).lines() {
            match line {
                Ok(l) => {
                    if tx.send(l).is_err() {
                        break;
                    }
                }
                Err(_) => break,
            }
        }
    });
    let mut lines = Vec::new();
    let mut hung = false;
    let mut working: Option<Value> = None;
    loop {
        match rx.recv_timeout(deadline) {
            Ok(l) => {
                if l.starts_with("{\"ev\":\"working\"") {
                    working = serde_json::from_str::<Value>(&l).ok().map(|v| v["toks"].clone());
                } else {
                    working = None;
                    lines.push(l)
                }
            }
            Err(std::sync::mpsc::RecvTimeoutError::Timeout) => {
                let _ = child.kill();
                // `input`: the token sequence of the parse that did not return, when it was a parse
                lines.push(
                    json!({"ev": "hang", "after_lines": lines.len(), "has_input": working.is_some(),
                           "input": working.clone().unwrap_or(json!([]))})
                    .to_string(),
                );
                hung = true;
                break;
            }
            Err(std::sync::mpsc::RecvTimeoutError::Disconnected) => break,
        }
    }
    let _ = child.wait();
    let _ = reader.join();
    if lines.is_empty() {
        lines.push(json!({"ev": "reset", "id": inst["id"], "y": inst["y"], "kind": inst["kind"]}).to_string());
        lines.push(json!({"ev": "crash"}).to_string());
    }
    (lines, hung)
}

pub fn child_main() -> i32 {
    let mut s = String::new();
    std::io::Read::read_to_string(&mut std::io::stdin(), &mut s).unwrap();
    let inst: Value = serde_json::from_str(&s).unwrap();
    let width = inst["width"].as_u64().unwrap_or(32);
    let iseed = inst["iseed"].as_u64().unwrap_or(0);
    let stdout = std::io::stdout();
    let mut emit = |l: String| {
        let mut o = stdout.lock();
        let _ = writeln!(o, "{}", l);
        let _ = o.flush();
    };
    match width {
        8 => instance::<u8>(&inst, iseed, &mut emit),
        16 => instance::<u16>(&inst, iseed, &mut emit),
        _ => instance::<u32>(&inst, iseed, &mut emit),
    };
    0
}

pub fn sym_code<S: PrimInt + Unsigned>(s: &Symbol<S>) -> usize {
    match *s {
        Symbol::Token(t) => usize::from(t),
        Symbol::Rule(r) => ROFF + usize::from(r),
    }
}

fn prec_code(p: Option<cfgrammar::yacc::Precedence>) -> Value {
    match p {
        None => json!([-1, -1]),
        Some(p) => json!([
            p.level,
            match p.kind {
                AssocKind::Left => 0,
                AssocKind::Right => 1,
                AssocKind::Nonassoc => 2,
            }
        ]),
    }
}

pub fn grammar_json<S: 'static + PrimInt + Unsigned>(grm: &YaccGrammar<S>) -> Value
where
    usize: AsPrimitive<S>,
{
    let prods = grm
        .iter_pidxs()
        .map(|p| {
            json!({
                "r": usize::from(grm.prod_to_rule(p)),
                "rhs": grm.prod(p).iter().map(sym_code).collect::<Vec<_>>(),
            })
        })
        .collect::<Vec<_>>();
    json!({
        "ev": "grammar",
        "nt": usize::from(grm.tokens_len()),
        "eof": usize::from(grm.eof_token_idx()),
        "nr": usize::from(grm.rules_len()),
        "np": usize::from(grm.prods_len()),
        "startprod": usize::from(grm.start_prod()),
        "startrule": usize::from(grm.start_rule_idx()),
        "prods": prods,
        "ruleprods": grm.iter_rules().map(|r| grm.rule_to_prods(r).iter().map(|p| usize::from(*p)).collect::<Vec<_>>()).collect::<Vec<_>>(),
        "tprec": grm.iter_tidxs().map(|t| prec_code(grm.token_precedence(t))).collect::<Vec<_>>(),
        "pprec": grm.iter_pidxs().map(|p| prec_code(grm.prod_precedence(p))).collect::<Vec<_>>(),
        "avoid": grm.iter_tidxs().map(|t| grm.avoid_insert(t)).collect::<Vec<_>>(),
        "tnames": grm.iter_tidxs().map(|t| grm.token_name(t).unwrap_or("$").to_string()).collect::<Vec<_>>(),
        "rnames": grm.iter_rules().map(|r| grm.rule_name_str(r).to_string()).collect::<Vec<_>>(),
        "implicit_rule": grm.implicit_rule().map(|r| usize::from(r) as i64).unwrap_or(-1),
        "expect": grm.expect().map(|x| x as i64).unwrap_or(-1),
        "expectrr": grm.expectrr().map(|x| x as i64).unwrap_or(-1),
    })
}

fn itemset_json<'a, S: 'static + Hash + PrimInt + Unsigned, I>(is: I) -> Value
where
    I: IntoIterator<Item = (&'a (PIdx<S>, cfgrammar::SIdx<S>), &'a vob::Vob)>,
{
    let mut items = is
        .into_iter()
        .map(|(&(p, d), ctx)| {
            (
                usize::from(p),
                usize::from(d),
                ctx.iter_set_bits(..).collect::<Vec<_>>(),
            )
        })
        .collect::<Vec<_>>();
    items.sort();
    json!(items)
}

pub fn graph_json<S: 'static + Hash + PrimInt + Unsigned>(sg: &StateGraph<S>) -> Value
where
    usize: AsPrimitive<S>,
{
    let states = sg
        .iter_stidxs()
        .map(|s| {
            let mut edges = sg
                .edges(s)
                .iter()
                .map(|(k, v)| (sym_code(k), usize::from(*v)))
                .collect::<Vec<_>>();
            edges.sort();
            json!({
                "core": itemset_json(&sg.core_state(s).items),
                "closed": itemset_json(&sg.closed_state(s).items),
                "edges": edges,
            })
        })
        .collect::<Vec<_>>();
    json!({"ev": "graph", "start": usize::from(sg.start_state()), "n": usize::from(sg.all_states_len()), "states": states})
}

pub fn action_json<S: PrimInt + Unsigned>(a: Action<S>) -> Value {
    match a {
        Action::Shift(s) => json!(["s", usize::from(s)]),
        Action::Reduce(p) => json!(["r", usize::from(p)]),
        Action::Accept => json!(["a", 0]),
        Action::Error => json!(["e", 0]),
    }
}

pub fn table_json<S: 'static + Hash + PrimInt + Unsigned>(
    grm: &YaccGrammar<S>,
    sg: &StateGraph<S>,
    st: &StateTable<S>,
) -> Value
where
    usize: AsPrimitive<S>,
{
    let mut act = Vec::new();
    let mut goto = Vec::new();
    let mut sa = Vec::new();
    let mut ss = Vec::new();
    let mut cr = Vec::new();
    let mut ro = Vec::new();
    for s in sg.iter_stidxs() {
        act.push(
            grm.iter_tidxs()
                .map(|t| action_json(st.action(s, t)))
                .collect::<Vec<_>>(),
        );
        goto.push(
            grm.iter_rules()
                .map(|r| st.goto(s, r).map(|x| usize::from(x) as i64).unwrap_or(-1))
                .collect::<Vec<_>>(),
        );
        sa.push(st.state_actions(s).map(usize::from).collect::<Vec<_>>());
        ss.push(st.state_shifts(s).map(usize::from).collect::<Vec<_>>());
        cr.push(st.core_reduces(s).map(usize::from).collect::<Vec<_>>());
        ro.push(st.reduce_only_state(s));
    }
    let (sr, rr) = match st.conflicts() {
        None => (vec![], vec![]),
        Some(c) => (
            c.sr_conflicts()
                .map(|(t, p, s)| json!([usize::from(*t), usize::from(*p), usize::from(*s)]))
                .collect::<Vec<_>>(),
            c.rr_conflicts()
                .map(|(t, p1, p2, s)| {
                    json!([
                        usize::from(*t),
                        usize::from(*p1),
                        usize::from(*p2),
                        usize::from(*s)
                    ])
                })
                .collect::<Vec<_>>(),
        ),
    };
    json!({"ev": "table", "start": usize::from(st.start_state()), "act": act, "goto": goto,
           "sa": sa, "ss": ss, "cr": cr, "ro": ro, "sr": sr, "rr": rr,
           "has_conflicts": st.conflicts().is_some()})
}

fn analyses_json<S: 'static + PrimInt + Unsigned>(grm: &YaccGrammar<S>, costs: &[u8]) -> Value
where
    usize: AsPrimitive<S>,
{
    let firsts = grm.firsts();
    let follows = grm.follows();
    let nullable = grm
        .iter_rules()
        .map(|r| firsts.is_epsilon_set(r))
        .collect::<Vec<_>>();
    let first = grm
        .iter_rules()
        .map(|r| {
            grm.iter_tidxs()
                .filter(|t| firsts.is_set(r, *t))
                .map(usize::from)
                .collect::<Vec<_>>()
        })
        .collect::<Vec<_>>();
    let follow = grm
        .iter_rules()
        .map(|r| {
            grm.iter_tidxs()
                .filter(|t| follows.is_set(r, *t))
                .map(usize::from)
                .collect::<Vec<_>>()
        })
        .collect::<Vec<_>>();
    let path = grm
        .iter_rules()
        .map(|a| {
            grm.iter_rules()
                .filter(|b| grm.has_path(a, *b))
                .map(usize::from)
                .collect::<Vec<_>>()
        })
        .collect::<Vec<_>>();
    json!({"ev": "analyses", "nullable": nullable, "first": first, "follow": follow, "path": path,
           "costs": costs})
}

/// The cost queries can fail to return (a rule on a token-free cycle): they are emitted as a
/// separate, last event of the analyses so that the parent can record a hang.
fn costs_json<S: 'static + PrimInt + Unsigned>(grm: &YaccGrammar<S>, costs: &[u8]) -> Value
where
    usize: AsPrimitive<S>,
{
    let costs_v = costs.to_vec();
    let r = catch(|| {
        let sg = grm.sentence_generator(|t| costs_v[usize::from(t)]);
        let mut min = Vec::new();
        let mut max = Vec::new();
        let mut minsent = Vec::new();
        let mut minsents = Vec::new();
        for r in grm.iter_rules() {
            min.push(sg.min_sentence_cost(r) as i64);
            max.push(sg.max_sentence_cost(r).map(|x| x as i64).unwrap_or(-1));
        }
        for r in grm.iter_rules() {
            minsent.push(
                sg.min_sentence(r)
                    .iter()
                    .map(|t| usize::from(*t))
                    .collect::<Vec<_>>(),
            );
            let ms = sg.min_sentences(r);
            let mut v = ms
                .iter()
                .take(200)
                .map(|s| s.iter().map(|t| usize::from(*t)).collect::<Vec<_>>())
                .collect::<Vec<_>>();
            v.sort();
            minsents.push(json!({"n": ms.len(), "sents": v}));
        }
        json!({"ev": "costs", "status": "ok", "costs": costs_v, "min": min, "max": max, "minsent": minsent, "minsents": minsents})
    });
    match r {
        Ok(v) => v,
        Err(m) => json!({"ev": "costs", "status": "panic", "msg": m, "costs": costs}),
    }
}

// ---------------------------------------------------------------------------------------------
// Input generation (no oracle here: just a way to get token strings that are sentences, near
// sentences, or arbitrary).
// ---------------------------------------------------------------------------------------------

struct InputGen<'a, S> {
    grm: &'a YaccGrammar<S>,
    height: Vec<usize>, // minimal derivation height per rule (usize::MAX = unproductive)
}

impl<'a, S: 'static + PrimInt + Unsigned> InputGen<'a, S>
where
    usize: AsPrimitive<S>,
{
    fn new(grm: &'a YaccGrammar<S>) -> Self {
        let nr = usize::from(grm.rules_len());
        let mut height = vec![usize::MAX; nr];
        loop {
            let mut changed = false;
            for r in grm.iter_rules() {
                for p in grm.rule_to_prods(r) {
                    let h = Self::prod_height(grm, &height, *p);
                    if h != usize::MAX && h + 1 < height[usize::from(r)] {
                        height[usize::from(r)] = h + 1;
                        changed = true;
                    }
                }
            }
            if !changed {
                break;
            }
        }
        InputGen { grm, height }
    }

    fn prod_height(grm: &YaccGrammar<S>, height: &[usize], p: PIdx<S>) -> usize {
        let mut h = 0;
        for s in grm.prod(p) {
            if let Symbol::Rule(r) = s {
                let x = height[usize::from(*r)];
                if x == usize::MAX {
                    return usize::MAX;
                }
                h = h.max(x);
            }
        }
        h
    }

    fn derive(&self, r: RIdx<S>, budget: usize, rng: &mut Rng, out: &mut Vec<usize>) -> bool {
        if self.height[usize::from(r)] == usize::MAX || out.len() > 400 {
            return false;
        }
        let prods = self.grm.rule_to_prods(r);
        let ok: Vec<_> = prods
            .iter()
            .filter(|p| {
                let h = Self::prod_height(self.grm, &self.height, **p);
                h != usize::MAX && h < budget.max(self.height[usize::from(r)])
            })
            .collect();
        if ok.is_empty() {
            return false;
        }
        let p = *ok[rng.below(ok.len())];
        for s in self.grm.prod(p) {
            match s {
                Symbol::Token(t) => out.push(usize::from(*t)),
                Symbol::Rule(r2) => {
                    if !self.derive(*r2, budget.saturating_sub(1), rng, out) {
                        return false;
                    }
                }
            }
        }
        true
    }

    fn sentence(&self, rng: &mut Rng, budget: usize) -> Option<Vec<usize>> {
        let mut out = Vec::new();
        let start = self.grm.prod(self.grm.start_prod())[0];
        if let Symbol::Rule(r) = start {
            if self.derive(r, budget, rng, &mut out) {
                return Some(out);
            }
        }
        None
    }
}

fn corrupt(toks: &[usize], ntoks: usize, eof: usize, k: usize, rng: &mut Rng) -> Vec<usize> {
    let mut v = toks.to_vec();
    let rand_tok = |rng: &mut Rng| loop {
        let t = rng.below(ntoks);
        if t != eof {
            return t;
        }
    };
    if ntoks < 2 {
        return v;
    }
    for _ in 0..k {
        match rng.below(4) {
            0 => {
                let i = rng.below(v.len() + 1);
                v.insert(i, rand_tok(rng));
            }
            1 if !v.is_empty() => {
                let i = rng.below(v.len());
                v.remove(i);
            }
            2 if !v.is_empty() => {
                let i = rng.below(v.len());
                v[i] = rand_tok(rng);
            }
            _ => {
                // error at (or near) the end of the input
                if rng.chance(1, 2) || v.is_empty() {
                    v.push(rand_tok(rng));
                } else {
                    v.pop();
                }
            }
        }
    }
    v
}

fn gen_inputs<S: 'static + PrimInt + Unsigned>(
    grm: &YaccGrammar<S>,
    spec: &Value,
    rng: &mut Rng,
) -> Vec<Vec<usize>>
where
    usize: AsPrimitive<S>,
{
    let mut inputs: Vec<Vec<usize>> = Vec::new();
    let nt = usize::from(grm.tokens_len());
    let eof = usize::from(grm.eof_token_idx());
    let real: Vec<usize> = (0..nt).filter(|t| *t != eof).collect();
    if let Some(ex) = spec["explicit"].as_array() {
        for e in ex {
            let mut v = Vec::new();
            let mut okay = true;
            for n in e.as_array().unwrap() {
                match grm.token_idx(n.as_str().unwrap()) {
                    Some(t) => v.push(usize::from(t)),
                    None => okay = false,
                }
            }
            if okay {
                inputs.push(v);
            }
        }
    }
    // all strings up to a bound on their number
    let cap = spec["allstr_cap"].as_u64().unwrap_or(0) as usize;
    if cap > 0 && !real.is_empty() {
        let mut layer: Vec<Vec<usize>> = vec![vec![]];
        let mut total = 0;
        let maxlen = spec["allstr_maxlen"].as_u64().unwrap_or(6) as usize;
        let mut len = 0;
        loop {
            if total + layer.len() > cap {
                break;
            }
            total += layer.len();
            inputs.extend(layer.iter().cloned());
            len += 1;
            if len > maxlen || layer.len() * real.len() > cap {
                break;
            }
            let mut next = Vec::with_capacity(layer.len() * real.len());
            for w in &layer {
                for t in &real {
                    let mut w2 = w.clone();
                    w2.push(*t);
                    next.push(w2);
                }
            }
            layer = next;
        }
    }
    let ig = InputGen::new(grm);
    let nsent = spec["sentences"].as_u64().unwrap_or(0) as usize;
    let ncorrupt = spec["corrupt"].as_u64().unwrap_or(0) as usize;
    let maxk = spec["max_errors"].as_u64().unwrap_or(3) as usize;
    let maxlen = spec["maxlen"].as_u64().unwrap_or(30) as usize;
    let mut sents = Vec::new();
    for i in 0..(nsent + ncorrupt) * 3 {
        if sents.len() >= nsent + ncorrupt {
            break;
        }
        if let Some(s) = ig.sentence(rng, 2 + i % 7) {
            if s.len() <= maxlen {
                sents.push(s);
            }
        }
    }
    for (i, s) in sents.iter().enumerate() {
        if i < nsent {
            inputs.push(s.clone());
        } else {
            let k = 1 + rng.below(maxk.max(1));
            inputs.push(corrupt(s, nt, eof, k, rng));
        }
    }
    let nrandom = spec["random"].as_u64().unwrap_or(0) as usize;
    for _ in 0..nrandom {
        if real.is_empty() {
            break;
        }
        let n = rng.below(maxlen.min(12) + 1);
        inputs.push((0..n).map(|_| real[rng.below(real.len())]).collect());
    }
    inputs
}

// ---------------------------------------------------------------------------------------------
// Parsing with full observation
// ---------------------------------------------------------------------------------------------

fn lexeme_json<S: 'static + Debug + Hash + PrimInt + Unsigned>(l: &DefaultLexeme<S>) -> Value {
    json!([
        l.tok_id().to_usize().unwrap(),
        l.span().start(),
        l.span().len(),
        l.faulty()
    ])
}

fn errors_json<S: 'static + Debug + Hash + PrimInt + Unsigned>(
    errs: &[LexParseError<S, DefaultLexerTypes<S>>],
) -> Value
where
    usize: AsPrimitive<S>,
{
    json!(
        errs.iter()
            .take(60)
            .map(|e| match e {
                LexParseError::LexError(_) => json!({"kind": "lex"}),
                LexParseError::ParseError(pe) => {
                    let reps = pe
                        .repairs()
                        .iter()
                        .map(|seq| {
                            seq.iter()
                                .map(|r| match r {
                                    ParseRepair::Insert(t) => json!(["i", usize::from(*t), 0, 0]),
                                    ParseRepair::Delete(l) => json!([
                                        "d",
                                        l.tok_id().to_usize().unwrap(),
                                        l.span().start(),
                                        l.span().len()
                                    ]),
                                    ParseRepair::Shift(l) => json!([
                                        "s",
                                        l.tok_id().to_usize().unwrap(),
                                        l.span().start(),
                                        l.span().len()
                                    ]),
                                })
                                .collect::<Vec<_>>()
                        })
                        .collect::<Vec<_>>();
                    json!({"kind": "parse", "stidx": usize::from(pe.stidx()),
                           "lexeme": lexeme_json(pe.lexeme()), "repairs": reps})
                }
            })
            .collect::<Vec<_>>()
    )
}

/// A value built by our recording actions: either a leaf (lexeme) or the index of the reduce
/// event that produced it.
#[derive(Clone, Debug)]
enum V {
    Node(usize),
}

#[derive(Clone)]
enum MapNode {
    Term(Value),
    Nonterm(usize),
}

/// Lay out the token string `toks` as lexemes with pseudo-random lengths (1..=3) and gaps
/// (0..=2); returns the lexemes `(tok, start, len)` and the source text.
fn layout(toks: &[usize], rng: &mut Rng) -> (Vec<(usize, usize, usize)>, String) {
    let mut src = String::new();
    let mut lx = Vec::new();
    for (i, t) in toks.iter().enumerate() {
        let gap = rng.below(3);
        for _ in 0..gap {
            src.push(if rng.chance(1, 6) { '\n' } else { ' ' });
        }
        let len = 1 + rng.below(3);
        let start = src.len();
        for _ in 0..len {
            src.push((b'a' + ((i + t) % 26) as u8) as char);
        }
        lx.push((*t, start, len));
    }
    if rng.chance(1, 2) {
        src.push(' ');
    }
    (lx, src)
}

#[allow(clippy::too_many_arguments)]
fn parse_obs<S: 'static + Debug + Hash + PrimInt + Unsigned>(
    grm: &YaccGrammar<S>,
    st: &StateTable<S>,
    lx: &[(usize, usize, usize)],
    src: &str,
    costs: &[u8],
    recovery: bool,
    budget_ms: u64,
) -> Value
where
    usize: AsPrimitive<S>,
    u32: AsPrimitive<S>,
{
    let mk_lexer = || {
        let lexemes = lx
            .iter()
            .map(|(t, s, l)| Ok(DefaultLexeme::<S>::new(S::from(*t).unwrap(), *s, *l)))
            .collect::<Vec<_>>();
        let mut nlc = NewlineCache::new();
        nlc.feed(src);
        LRNonStreamingLexer::<DefaultLexerTypes<S>>::new(src, lexemes, nlc)
    };
    let rk = if recovery {
        RecoveryKind::CPCTPlus
    } else {
        RecoveryKind::None
    };
    let costf = |t: TIdx<S>| costs[usize::from(t)];
    cfgrammar::verif::set_recovery_budget_ms(Some(budget_ms));

    // (1) parse_actions with one recording closure per production
    let lexer = mk_lexer();
    let events: RefCell<Vec<Value>> = RefCell::new(Vec::new());
    type AFn<'a, 'b, S> = dyn Fn(
            RIdx<S>,
            &'b dyn NonStreamingLexer<'b, DefaultLexerTypes<S>>,
            Span,
            std::vec::Drain<AStackType<DefaultLexeme<S>, V>>,
            u64,
        ) -> V
        + 'a;
    let closures: Vec<Box<AFn<S>>> = grm
        .iter_pidxs()
        .map(|pidx| {
            let events = &events;
            let b: Box<AFn<S>> = Box::new(
                move |ridx: RIdx<S>,
                      _lexer: &dyn NonStreamingLexer<DefaultLexerTypes<S>>,
                      span: Span,
                      args: std::vec::Drain<AStackType<DefaultLexeme<S>, V>>,
                      param: u64| {
                    let a = args
                        .map(|x| match x {
                            AStackType::ActionType(V::Node(i)) => json!(["n", i, 0, 0, false]),
                            AStackType::Lexeme(l) => json!([
                                "t",
                                l.tok_id().to_usize().unwrap(),
                                l.span().start(),
                                l.span().len(),
                                l.faulty()
                            ]),
                        })
                        .collect::<Vec<_>>();
                    let mut ev = events.borrow_mut();
                    let id = ev.len();
                    if id > 100_000 {
                        // a reduce loop (a grammar in which a rule derives itself): stop before
                        // memory runs out; reported like a parse that does not return
                        panic!("HARNESS-LOOP");
                    }
                    ev.push(json!({"p": usize::from(pidx), "r": usize::from(ridx),
                                   "span": [span.start(), span.end()], "args": a, "param": param}));
                    V::Node(id)
                },
            );
            b
        })
        .collect();
    let actions: Vec<&AFn<S>> = closures.iter().map(|b| b.as_ref()).collect();
    cfgrammar::verif::start();
    let (res, errs) = RTParserBuilder::new(grm, st)
        .recoverer(rk)
        .term_costs(&costf)
        .parse_actions(&lexer, &actions, 4242u64);
    let hook = cfgrammar::verif::take()
        .iter()
        .map(|s| serde_json::from_str::<Value>(s).unwrap())
        .collect::<Vec<_>>();
    let act_result = match res {
        Some(V::Node(i)) => i as i64,
        None => -1,
    };
    let act_errors = errors_json(&errs);
    let act_events = events.borrow().clone();

    // (2) parse_map (generic tree mode)
    let lexer2 = mk_lexer();
    let mevents: RefCell<Vec<Value>> = RefCell::new(Vec::new());
    let fterm = |l: DefaultLexeme<S>| {
        MapNode::Term(json!([
            "t",
            l.tok_id().to_usize().unwrap(),
            l.span().start(),
            l.span().len(),
            l.faulty()
        ]))
    };
    let fnonterm = |ridx: RIdx<S>, nodes: Vec<MapNode>| {
        let a = nodes
            .into_iter()
            .map(|n| match n {
                MapNode::Term(v) => v,
                MapNode::Nonterm(i) => json!(["n", i, 0, 0, false]),
            })
            .collect::<Vec<_>>();
        let mut ev = mevents.borrow_mut();
        let id = ev.len();
        if id > 100_000 {
            panic!("HARNESS-LOOP");
        }
        ev.push(json!({"r": usize::from(ridx), "args": a}));
        MapNode::Nonterm(id)
    };
    let (mres, merrs) = RTParserBuilder::new(grm, st)
        .recoverer(rk)
        .term_costs(&costf)
        .parse_map(&lexer2, &fterm, &fnonterm);
    let map_result = match mres {
        Some(MapNode::Nonterm(i)) => i as i64,
        Some(MapNode::Term(_)) => -2,
        None => -1,
    };
    let map_errors = errors_json(&merrs);
    // pretty-printed errors (C19's "error pretty-printing reports these positions")
    let pps = errs
        .iter()
        .map(|e| {
            catch(|| e.pp(&lexer, &|t| grm.token_epp(t)))
                .unwrap_or_else(|m| format!("PANIC {}", m))
        })
        .collect::<Vec<_>>();
    cfgrammar::verif::set_recovery_budget_ms(None);
    if errs.len() > lx.len() + 1 || merrs.len() > lx.len() + 1 {
        // more errors than the input has lexemes: that alone is the observation (the full record
        // of such a run can be hundreds of megabytes)
        return json!({"recovery": recovery, "overflow": true, "nerrors": errs.len().max(merrs.len())});
    }
    json!({
        "recovery": recovery,
        "act": {"result": act_result, "errors": act_errors, "nerrors": errs.len(), "events": act_events, "hook": hook},
        "map": {"result": map_result, "errors": map_errors, "nerrors": merrs.len(), "events": mevents.borrow().clone()},
        "pp": pps,
    })
}

struct Lines<'a>(&'a mut dyn FnMut(String));
impl Lines<'_> {
    fn push(&mut self, s: String) {
        (self.0)(s)
    }
    fn extend(&mut self, v: Vec<String>) {
        for s in v {
            (self.0)(s)
        }
    }
}

fn instance<S: 'static + Debug + Hash + PrimInt + Unsigned + Send + Sync>(
    inst: &Value,
    seed: u64,
    emit: &mut dyn FnMut(String),
) where
    usize: AsPrimitive<S>,
    u32: AsPrimitive<S>,
{
    let mut lines = Lines(emit);
    let id = inst["id"].as_str().unwrap_or("?").to_string();
    let ytext = inst["y"].as_str().unwrap().to_string();
    let kind = yacckind(inst["kind"].as_str().unwrap_or("original"));
    let want = |s: &str| {
        inst["sections"]
            .as_array()
            .map(|a| a.iter().any(|x| x.as_str() == Some(s)))
            .unwrap_or(true)
    };
    lines.push(
        json!({"ev": "reset", "id": id, "y": ytext, "kind": inst["kind"], "width": inst["width"], "seed": seed})
            .to_string(),
    );
    let mut rng = Rng::new(seed);
    let grm = match catch(|| YaccGrammar::<S>::new_with_storaget(kind, &ytext)) {
        Ok(Ok(g)) => g,
        Ok(Err(es)) => {
            lines.push(
                json!({"ev": "grammar_err", "errors": es.iter().map(|e| format!("{}", e)).collect::<Vec<_>>()})
                    .to_string(),
            );
            return;
        }
        Err(m) => {
            lines.push(json!({"ev": "grammar_panic", "msg": m}).to_string());
            return;
        }
    };
    let mut gj = grammar_json(&grm);
    {
        // what the source says about %prec, straight from the AST: production indices of the
        // AST and of the grammar coincide for the user's productions
        let astv = cfgrammar::yacc::ast::ASTWithValidityInfo::new(kind, &ytext);
        let ast = astv.ast();
        let mut precname = vec![-1i64; usize::from(grm.prods_len())];
        for (i, p) in ast.prods.iter().enumerate() {
            if let Some(n) = &p.precedence {
                precname[i] = grm.token_idx(n).map(|t| usize::from(t) as i64).unwrap_or(-2);
            }
        }
        gj["precname"] = json!(precname);
    }
    lines.push(gj.to_string());

    // token costs
    let nt = usize::from(grm.tokens_len());
    let costs: Vec<u8> = if let Some(a) = inst["costs"].as_array() {
        // explicit costs by token index (missing entries: 1)
        (0..nt).map(|i| a.get(i).and_then(|x| x.as_u64()).unwrap_or(1) as u8).collect()
    } else { match inst["costs"].as_str().unwrap_or("one") {
        "rand3" => (0..nt).map(|_| 1 + rng.below(3) as u8).collect(),
        "rand255" => (0..nt)
            .map(|_| {
                if rng.chance(1, 3) {
                    1 + rng.below(255) as u8
                } else {
                    1 + rng.below(2) as u8
                }
            })
            .collect(),
        _ => vec![1; nt],
    } };

    if want("analyses") {
        lines.push(analyses_json(&grm, &costs).to_string());
    }

    cfgrammar::verif::start();
    let built = catch(|| from_yacc(&grm, Minimiser::Pager));
    let pager_events = cfgrammar::verif::take();
    let (sg, st) = match built {
        Ok(Ok(x)) => x,
        Ok(Err(e)) => {
            if want("pager") {
                lines.extend(pager_events);
            }
            // the graph is still interesting: rebuild it on its own
            lines.push(
                json!({"ev": "table_err", "kind": format!("{:?}", e.kind), "pidx": usize::from(e.pidx)})
                    .to_string(),
            );
            return;
        }
        Err(m) => {
            lines.push(json!({"ev": "table_panic", "msg": m}).to_string());
            return;
        }
    };
    if want("pager") {
        lines.extend(pager_events);
    }
    if want("graph") {
        lines.push(graph_json(&sg).to_string());
    }
    if want("table") {
        lines.push(table_json(&grm, &sg, &st).to_string());
    }
    if want("parses") {
        let inputs = gen_inputs(&grm, &inst["inputs"], &mut rng);
        let recovery_modes: Vec<bool> = match inst["recovery"].as_str().unwrap_or("both") {
            "off" => vec![false],
            "on" => vec![true],
            _ => vec![false, true],
        };
        let budget_ms = inst["budget_ms"].as_u64().unwrap_or(4000);
        for toks in inputs {
            let (lx, src) = layout(&toks, &mut rng);
            // tell the parent what is being worked on (not part of the trace): if this parse does
            // not return, the `hang` event can name its input
            lines.push(json!({"ev": "working", "toks": toks}).to_string());
            let mut obs = Vec::new();
            for rec in &recovery_modes {
                let rec = *rec;
                let r = catch(|| parse_obs(&grm, &st, &lx, &src, &costs, rec, budget_ms));
                obs.push(match r {
                    Ok(v) => v,
                    Err(m) => json!({"recovery": rec, "panic": m}),
                });
            }
            lines.push(
                json!({"ev": "parse", "toks": toks, "lexemes": lx, "srclen": src.len(), "src": src,
                       "costs": costs, "budget_ms": budget_ms, "runs": obs})
                .to_string(),
            );
        }
    }
    if want("analyses") {
        // last: may not return
        lines.push(costs_json(&grm, &costs).to_string());
    }
    let _ = StIdx(0u32);
}
