//! `vh total <job.json> <out.ndjson>`: run the specification parsers (the %grmtools section
//! parser, the Yacc parser in all kinds, the lex parser) over arbitrary strings, each in a child
//! process that is killed if it does not answer, and record the outcome class and every span
//! carried by errors and warnings (C12).

use std::{
    fs,
    io::{BufRead, BufReader, BufWriter, Write},
    process::{Child, ChildStdin, Command, Stdio},
    sync::{Mutex, atomic::{AtomicUsize, Ordering}, mpsc},
    time::Duration,
};

use cfgrammar::{Spanned, header::{GrmtoolsSectionParser, Header, HeaderValue, Namespaced, Setting, Value as HValue}, yacc::{YaccGrammar, ast::ASTWithValidityInfo}};
use lrlex::{DefaultLexerTypes, LRNonStreamingLexerDef, LexerDef};
use lrpar::diagnostics::{DiagnosticFormatter, SpannedDiagnosticFormatter};
use serde_json::{Value, json};

use crate::{lr::yacckind, util::catch};

fn spans_of<T: Spanned>(e: &T) -> Vec<[usize; 2]> {
    e.spans().iter().map(|s| [s.start(), s.end()]).collect()
}

/// One error: its message, its spans, and whether its rendering by the diagnostics formatter
/// ("can always be rendered") shows the message.
struct ByRef<'a, E>(&'a E);
impl<E: std::fmt::Display> std::fmt::Display for ByRef<'_, E> {
    fn fmt(&self, f: &mut std::fmt::Formatter<'_>) -> std::fmt::Result {
        self.0.fmt(f)
    }
}
impl<E: Spanned> Spanned for ByRef<'_, E> {
    fn spans(&self) -> &[cfgrammar::Span] {
        self.0.spans()
    }
    fn spanskind(&self) -> cfgrammar::yacc::parser::SpansKind {
        self.0.spanskind()
    }
}
fn errj<E: Spanned + std::fmt::Display>(src: &str, e: &E) -> Value {
    let fmt = SpannedDiagnosticFormatter::new(src, std::path::Path::new("x.y"));
    let rd = fmt.format_warning(ByRef(e));
    let shown = rd.contains(&e.to_string());
    json!({"kind": e.to_string(), "spans": spans_of(e), "shown": shown, "rd": cps(&rd),
           "dup": matches!(e.spanskind(), cfgrammar::yacc::parser::SpansKind::DuplicationError)})
}

fn cps(s: &str) -> Vec<u32> {
    s.chars().map(|c| c as u32).collect()
}

fn ns_json(n: &Namespaced<cfgrammar::Span>) -> Value {
    match &n.namespace {
        Some((ns, sp)) => json!({"has_ns": true, "ns": cps(ns), "ns_span": [sp.start(), sp.end()],
                                 "member": cps(&n.member.0), "span": [n.member.1.start(), n.member.1.end()]}),
        None => json!({"has_ns": false, "ns": [], "ns_span": [0, 0],
                       "member": cps(&n.member.0), "span": [n.member.1.start(), n.member.1.end()]}),
    }
}

fn setting_json(v: &Setting<cfgrammar::Span>) -> Value {
    match v {
        Setting::Num(_, sp) => json!({"t": "num", "span": [sp.start(), sp.end()]}),
        Setting::String(_, sp) => json!({"t": "str", "span": [sp.start(), sp.end()]}),
        Setting::Array(vals, o, c) => json!({"t": "arr", "vals": vals.iter().map(setting_json).collect::<Vec<_>>(),
                                             "open": [o.start(), o.end()], "close": [c.start(), c.end()]}),
        Setting::Unitary(n) => json!({"t": "unit", "ns": ns_json(n)}),
        Setting::Constructor { ctor, arg } => json!({"t": "ctor", "ctor": ns_json(ctor), "arg": ns_json(arg)}),
    }
}

/// the parsed section, entry by entry (the map iterates in key order)
fn header_entries(hdr: &Header<cfgrammar::Span>) -> Vec<Value> {
    hdr.into_iter()
        .map(|(k, HeaderValue(loc, v))| {
            let vj = match v {
                HValue::Flag(b, sp) => json!({"t": "flag", "on": b, "span": [sp.start(), sp.end()]}),
                HValue::Setting(st) => setting_json(st),
            };
            json!({"key": cps(k), "key_span": [loc.start(), loc.end()], "v": vj})
        })
        .collect()
}

fn sym_json(sy: &cfgrammar::yacc::ast::Symbol) -> Value {
    match sy {
        cfgrammar::yacc::ast::Symbol::Rule(n, sp) => json!({"t": "rule", "name": cps(n), "span": [sp.start(), sp.end()]}),
        cfgrammar::yacc::ast::Symbol::Token(n, sp) => json!({"t": "tok", "name": cps(n), "span": [sp.start(), sp.end()]}),
    }
}

fn digits(n: usize) -> Vec<u32> {
    n.to_string().chars().map(|c| c as u32 - 48).collect()
}

/// the abstract syntax tree exactly as the Yacc parser built it (all fields are public)
fn ast_json(a: &cfgrammar::yacc::ast::GrammarAST) -> Value {
    let sp = |s: &cfgrammar::Span| json!([s.start(), s.end()]);
    let mut tdirs: Vec<usize> = a.token_directives.iter().copied().collect();
    tdirs.sort();
    let mut epp: Vec<Value> = a.epp.iter().map(|(k, (s, (v, vs)))| json!({"name": cps(k), "span": sp(s), "val": cps(v), "vspan": sp(vs)})).collect();
    epp.sort_by_key(|x| x["span"][0].as_u64());
    let hm = |m: &Option<std::collections::HashMap<String, cfgrammar::Span>>| -> Vec<Value> {
        let mut v: Vec<Value> = m.as_ref().map(|m| m.iter().map(|(k, s)| json!({"name": cps(k), "span": sp(s)})).collect()).unwrap_or_default();
        v.sort_by_key(|x| x["span"][0].as_u64());
        v
    };
    let mut precs: Vec<Value> = a.precs.iter().map(|(k, (p, s))| json!({"name": cps(k), "level": p.level,
        "kind": match p.kind { cfgrammar::yacc::AssocKind::Left => 0, cfgrammar::yacc::AssocKind::Right => 1, cfgrammar::yacc::AssocKind::Nonassoc => 2 },
        "span": sp(s)})).collect();
    precs.sort_by_key(|x| x["span"][0].as_u64());
    json!({
        "tokens": a.tokens.iter().map(|t| cps(t)).collect::<Vec<_>>(),
        "tspans": a.spans.iter().map(|s| sp(s)).collect::<Vec<_>>(),
        "tdirs": tdirs,
        "start": a.start.as_ref().map(|(n, s)| json!([cps(n), sp(s)])).unwrap_or(json!([])),
        "epp": epp,
        "expect": a.expect.as_ref().map(|(n, s)| json!([digits(*n), sp(s)])).unwrap_or(json!([])),
        "expectrr": a.expectrr.as_ref().map(|(n, s)| json!([digits(*n), sp(s)])).unwrap_or(json!([])),
        "expect_unused": a.expect_unused.iter().map(sym_json).collect::<Vec<_>>(),
        "has_avoid": a.avoid_insert.is_some(), "avoid": hm(&a.avoid_insert),
        "has_implicit": a.implicit_tokens.is_some(), "implicit": hm(&a.implicit_tokens),
        "precs": precs,
        "parse_param": a.parse_param.as_ref().map(|(n, t)| json!([cps(n), cps(t)])).unwrap_or(json!([])),
        "parse_generics": a.parse_generics.as_ref().map(|t| json!([cps(t)])).unwrap_or(json!([])),
        "rules": a.rules.values().map(|r| json!({"name": cps(&r.name.0), "span": sp(&r.name.1), "pidxs": r.pidxs,
                                                 "actiont": r.actiont.as_ref().map(|t| json!([cps(t)])).unwrap_or(json!([]))})).collect::<Vec<_>>(),
        "prods": a.prods.iter().map(|p| json!({"syms": p.symbols.iter().map(sym_json).collect::<Vec<_>>(),
                                              "prec": p.precedence.as_ref().map(|t| json!([cps(t)])).unwrap_or(json!([])),
                                              "action": p.action.as_ref().map(|(t, s)| json!([cps(t), sp(s)])).unwrap_or(json!([])),
                                              "span": sp(&p.prod_span)})).collect::<Vec<_>>(),
        "programs": a.programs.as_ref().map(|t| json!([cps(t)])).unwrap_or(json!([])),
    })
}

fn grm_json(g: &YaccGrammar<u32>) -> Value {
    let pj = |p: Option<cfgrammar::yacc::Precedence>| match p {
        None => json!([-1, -1]),
        Some(p) => json!([p.level, match p.kind { cfgrammar::yacc::AssocKind::Left => 0, cfgrammar::yacc::AssocKind::Right => 1, cfgrammar::yacc::AssocKind::Nonassoc => 2 }]),
    };
    json!({
        "built": true,
        "nr": usize::from(g.rules_len()), "nt": usize::from(g.tokens_len()), "np": usize::from(g.prods_len()),
        "tokens": g.iter_tidxs().map(|t| json!({"name": cps(g.token_name(t).unwrap_or("")), "has_name": g.token_name(t).is_some(),
            "span": g.token_span(t).map(|s| json!([s.start(), s.end()])).unwrap_or(json!([-1, -1])),
            "prec": pj(g.token_precedence(t)), "epp": cps(g.token_epp(t).unwrap_or("")), "has_epp": g.token_epp(t).is_some(),
            "avoid": g.avoid_insert(t)})).collect::<Vec<_>>(),
        "rules": g.iter_rules().map(|r| json!({"name": cps(g.rule_name_str(r)), "span": [g.rule_name_span(r).start(), g.rule_name_span(r).end()],
            "prods": g.rule_to_prods(r).iter().map(|p| usize::from(*p)).collect::<Vec<_>>(),
            "actiontype": g.actiontype(r).as_ref().map(|t| json!([cps(t)])).unwrap_or(json!([]))})).collect::<Vec<_>>(),
        "prods": g.iter_pidxs().map(|p| json!({"r": usize::from(g.prod_to_rule(p)),
            "rhs": g.prod(p).iter().map(crate::lr::sym_code).collect::<Vec<_>>(),
            "prec": pj(g.prod_precedence(p)), "span": [g.prod_span(p).start(), g.prod_span(p).end()],
            "action": g.action(p).as_ref().map(|t| json!([cps(t)])).unwrap_or(json!([])),
            "action_span": g.action_span(p).map(|s| json!([s.start(), s.end()])).unwrap_or(json!([]))})).collect::<Vec<_>>(),
        "startprod": usize::from(g.start_prod()), "startrule": usize::from(g.start_rule_idx()), "eof": usize::from(g.eof_token_idx()),
        "expect": g.expect().map(|x| digits(x)).unwrap_or_default(), "expectrr": g.expectrr().map(|x| digits(x)).unwrap_or_default(),
        "implicit_rule": g.implicit_rule().map(|x| usize::from(x) as i64).unwrap_or(-1),
        "programs": g.programs().as_ref().map(|t| json!([cps(t)])).unwrap_or(json!([])),
        "parse_param": g.parse_param().as_ref().map(|(n, t)| json!([cps(n), cps(t)])).unwrap_or(json!([])),
        "parse_generics": g.parse_generics().as_ref().map(|t| json!([cps(t)])).unwrap_or(json!([])),
    })
}

fn one(entry: &str, s: &str) -> Value {
    let r = catch(|| match entry {
        "header" => match GrmtoolsSectionParser::new(s, false).parse() {
            Ok((hdr, pos)) => json!({"class": "ok", "pos": pos, "errors": [], "warnings": [], "entries": header_entries(&hdr)}),
            Err(es) => json!({"class": "err", "errors": es.iter().map(|e| errj(s, e)).collect::<Vec<_>>()}),
        },
        "lex" => match LRNonStreamingLexerDef::<DefaultLexerTypes<u32>>::from_str(s) {
            Ok(def) => json!({"class": "ok", "errors": [], "warnings": [], "def": crate::lex::def_json(&def)}),
            Err(es) => json!({"class": "err", "errors": es.iter().map(|e| errj(s, e)).collect::<Vec<_>>()}),
        },
        // the same text through the other public entry point (flags given by the caller)
        "lex_opts" => match LRNonStreamingLexerDef::<DefaultLexerTypes<u32>>::new_with_options(s, lrlex::DEFAULT_LEX_FLAGS) {
            Ok(_) => json!({"class": "ok", "errors": [], "warnings": []}),
            Err(es) => json!({"class": "err", "errors": es.iter().map(|e| errj(s, e)).collect::<Vec<_>>()}),
        },
        k if k.starts_with("yast_") => {
            // the Yacc parser on its own: the AST it builds and the errors of parsing + validation
            let astv = ASTWithValidityInfo::new(yacckind(&k[5..]), s);
            // ... and, for a valid AST, the grammar object that is made of it (names as code points)
            let grm = if astv.is_valid() {
                match YaccGrammar::<u32>::new_from_ast_with_validity_info(&astv) {
                    Ok(g) => grm_json(&g),
                    Err(_) => json!({"built": false}),
                }
            } else {
                json!({"built": false})
            };
            json!({"class": if astv.is_valid() { "ok" } else { "err" }, "ast": ast_json(astv.ast()), "grm": grm,
                   "errors": astv.errors().iter().map(|e| errj(s, e)).collect::<Vec<_>>(), "warnings": []})
        }
        k => {
            let astv = ASTWithValidityInfo::new(yacckind(&k[5..]), s);
            let warnings = astv.ast().warnings().iter().map(|w| errj(s, w)).collect::<Vec<_>>();
            match YaccGrammar::<u32>::new_from_ast_with_validity_info(&astv) {
                Ok(_) => json!({"class": "ok", "errors": [], "warnings": warnings}),
                Err(es) => {
                    // "can always be rendered": run the diagnostics formatter over every error
                    let fmt = SpannedDiagnosticFormatter::new(s, std::path::Path::new("x.y"));
                    for e in &es {
                        let _ = fmt.format_error(e.clone()).to_string();
                    }
                    json!({"class": "err", "errors": es.iter().map(|e| errj(s, e)).collect::<Vec<_>>(), "warnings": warnings})
                }
            }
        }
    });
    match r {
        Ok(v) => v,
        Err(m) => json!({"class": "panic", "msg": m.chars().take(200).collect::<String>()}),
    }
}

pub fn child_main() -> i32 {
    let stdin = std::io::stdin();
    let stdout = std::io::stdout();
    for line in stdin.lock().lines() {
        let line = match line {
            Ok(l) => l,
            Err(_) => break,
        };
        let req: Value = match serde_json::from_str(&line) {
            Ok(v) => v,
            Err(_) => continue,
        };
        let res = one(req["entry"].as_str().unwrap(), req["s"].as_str().unwrap());
        let mut o = stdout.lock();
        let _ = writeln!(o, "{}", res);
        let _ = o.flush();
    }
    0
}

struct Worker {
    child: Child,
    stdin: ChildStdin,
    rx: mpsc::Receiver<String>,
}

fn spawn() -> Worker {
    let mut child = Command::new(std::env::current_exe().unwrap())
        .arg("total-child")
        .stdin(Stdio::piped())
        .stdout(Stdio::piped())
        .stderr(Stdio::null())
        .spawn()
        .unwrap();
    let stdin = child.stdin.take().unwrap();
    let stdout = child.stdout.take().unwrap();
    let (tx, rx) = mpsc::channel();
    std::thread::spawn(move || {
        for l in BufReader::new(stdout).lines().map_while(Result::ok) {
            if tx.send(l).is_err() {
                break;
            }
        }
    });
    Worker { child, stdin, rx }
}

pub fn main(args: &[String]) -> i32 {
    let job: Value = serde_json::from_str(&fs::read_to_string(&args[0]).unwrap()).unwrap();
    let items: Vec<Value> = job["items"].as_array().unwrap().clone();
    let n = items.len();
    let results: Vec<Mutex<Option<Value>>> = (0..n).map(|_| Mutex::new(None)).collect();
    let next = AtomicUsize::new(0);
    let timeout = Duration::from_millis(job["timeout_ms"].as_u64().unwrap_or(4000));
    std::thread::scope(|sc| {
        for _ in 0..job["workers"].as_u64().unwrap_or(8) {
            sc.spawn(|| {
                let mut w = spawn();
                loop {
                    let i = next.fetch_add(1, Ordering::SeqCst);
                    if i >= n {
                        break;
                    }
                    let it = &items[i];
                    let req = json!({"entry": it["entry"], "s": it["s"]}).to_string();
                    let sent = writeln!(w.stdin, "{}", req).and_then(|_| w.stdin.flush());
                    let res = if sent.is_err() {
                        json!({"class": "panic", "msg": "child died"})
                    } else {
                        match w.rx.recv_timeout(timeout) {
                            Ok(l) => serde_json::from_str(&l).unwrap_or(json!({"class": "panic", "msg": "bad child output"})),
                            Err(mpsc::RecvTimeoutError::Timeout) => json!({"class": "hang"}),
                            Err(_) => json!({"class": "panic", "msg": "child died (abort / stack overflow)"}),
                        }
                    };
                    let mut res = res;
                    if res["class"] == "hang" || res["msg"].as_str().map(|m| m.starts_with("child died")).unwrap_or(false) {
                        let _ = w.child.kill();
                        let _ = w.child.wait();
                        w = spawn();
                        if res["class"] == "hang" && crate::util::machine_loaded() {
                            // silence can also be a loaded machine: a hang counts only if it
                            // reproduces in a fresh child with eight times the deadline
                            let sent = writeln!(w.stdin, "{}", req).and_then(|_| w.stdin.flush());
                            if sent.is_ok() {
                                match w.rx.recv_timeout(timeout * 8) {
                                    Ok(l) => res = serde_json::from_str(&l).unwrap_or(json!({"class": "panic", "msg": "bad child output"})),
                                    Err(_) => {
                                        let _ = w.child.kill();
                                        let _ = w.child.wait();
                                        w = spawn();
                                    }
                                }
                            }
                        }
                    }
                    *results[i].lock().unwrap() = Some(res);
                }
                let _ = w.child.kill();
                let _ = w.child.wait();
            });
        }
    });
    let mut out = BufWriter::new(fs::File::create(&args[1]).unwrap());
    for (i, r) in results.into_iter().enumerate() {
        let it = &items[i];
        let s = it["s"].as_str().unwrap();
        let bounds: Vec<usize> = (0..=s.len()).filter(|o| s.is_char_boundary(*o)).collect();
        writeln!(out, "{}", json!({"ev": "outcome", "id": it["id"], "entry": it["entry"], "s": s, "len": s.len(), "bounds": bounds,
                                   "res": r.into_inner().unwrap().unwrap_or(json!({"class": "panic", "msg": "no result"}))})).unwrap();
    }
    out.flush().unwrap();
    0
}
