//! `vh tokmap <request.json>`: ONE run of lrlex::CTTokenMapBuilder (the module of token-id
//! constants for hand-written lexers) in this process, into $OUT_DIR.  Prints one JSON object:
//! the outcome, a digest of the generated file (build timestamp masked) and what the file
//! defines, in file order - names and identifiers as code points.

use std::{collections::HashMap, fs, path::PathBuf};

use lrlex::CTTokenMapBuilder;
use serde_json::{Value, json};

use crate::util::catch;

fn cps(s: &str) -> Vec<u32> {
    s.chars().map(|c| c as u32).collect()
}

pub fn main(args: &[String]) -> i32 {
    if args.len() != 1 {
        eprintln!("usage: vh tokmap <request.json>   (OUT_DIR must be set)");
        return 2;
    }
    let req: Value = serde_json::from_str(&fs::read_to_string(&args[0]).unwrap()).unwrap();
    let mod_name = req["mod_name"].as_str().unwrap_or("toks").to_string();
    let mut map: HashMap<String, u32> = HashMap::new();
    for e in req["tokens"].as_array().unwrap() {
        map.insert(e[0].as_str().unwrap().to_string(), e[1].as_u64().unwrap() as u32);
    }
    let rename: Option<Vec<(String, String)>> = req["rename"].as_array().map(|a| {
        a.iter()
            .map(|e| (e[0].as_str().unwrap().to_string(), e[1].as_str().unwrap().to_string()))
            .collect()
    });
    let adc = req["allow_dead_code"].as_bool().unwrap_or(false);
    let r = catch(|| {
        CTTokenMapBuilder::<u32>::new(mod_name.clone(), &map)
            .rename_map(rename.clone())
            .allow_dead_code(adc)
            .build()
            .map_err(|e| e.to_string())
    });
    let mut outp = PathBuf::from(std::env::var("OUT_DIR").unwrap());
    outp.push(&mod_name);
    outp.set_extension("rs");
    let (ok, err) = match r {
        Ok(Ok(())) => (true, String::new()),
        Ok(Err(e)) => (false, e),
        Err(m) => (false, format!("PANIC {}", m)),
    };
    let text = fs::read_to_string(&outp).unwrap_or_default();
    let re_c = regex::Regex::new(r"pub const (T_\w+): u32 = (\d+)(?:u32)?;").unwrap();
    let consts: Vec<Value> = re_c
        .captures_iter(&text)
        .map(|c| json!([cps(&c[1]), c[2].parse::<u64>().unwrap_or(u64::MAX)]))
        .collect();
    let re_a = regex::Regex::new(r"(?s)pub const TOK_IDS: &\[u32\] = &\[(.*?)\];").unwrap();
    let tok_ids: Vec<u64> = re_a
        .captures(&text)
        .map(|c| {
            c[1].split(',')
                .map(|x| x.trim().trim_end_matches("u32"))
                .filter(|x| !x.is_empty())
                .filter_map(|x| x.parse().ok())
                .collect()
        })
        .unwrap_or_default();
    println!(
        "{}",
        json!({"ok": ok, "err": err, "exists": !text.is_empty(), "digest": crate::ct::gen_digest_str(&crate::ct::mask(&text)),
               "consts": consts, "tok_ids": tok_ids, "allow_dead_code_attr": text.contains("#[allow(dead_code)]\nmod"),
               "mod_name_ok": text.contains(&format!("mod {} {{", mod_name))})
    );
    0
}
