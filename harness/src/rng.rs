//! A tiny deterministic PRNG (splitmix64) so that the harness needs no external crate for it.
pub struct Rng(u64);

impl Rng {
    pub fn new(seed: u64) -> Self {
        Rng(seed.wrapping_mul(0x9E3779B97F4A7C15) ^ 0xD1B54A32D192ED03)
    }
    pub fn next(&mut self) -> u64 {
        self.0 = self.0.wrapping_add(0x9E3779B97F4A7C15);
        let mut z = self.0;
        z = (z ^ (z >> 30)).wrapping_mul(0xBF58476D1CE4E5B9);
        z = (z ^ (z >> 27)).wrapping_mul(0x94D049BB133111EB);
        z ^ (z >> 31)
    }
    /// Uniform in 0..n (n > 0).
    pub fn below(&mut self, n: usize) -> usize {
        (self.next() % (n as u64)) as usize
    }
    pub fn chance(&mut self, num: usize, den: usize) -> bool {
        self.below(den) < num
    }
}
