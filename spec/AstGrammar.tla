----------------------------- MODULE AstGrammar -----------------------------
(***************************************************************************)
(* From the abstract syntax tree (YaccParse.tla) to the grammar object     *)
(* (cfgrammar grammar.rs, YaccGrammar::new_from_ast_with_validity_info):   *)
(* numbering of rules, tokens and productions, the synthesised start rule, *)
(* end-of-input token and Eco implicit-token rules, symbol codes, token    *)
(* and production precedence, %epp, %avoid_insert, action types.  With     *)
(* YaccParse this gives text -> grammar for ANY valid text (C10).          *)
(* Symbol codes: token t |-> t, rule r |-> ROFFG + r.                      *)
(***************************************************************************)
EXTENDS Naturals, Integers, Sequences, FiniteSets, TLC
ROFFG == 100000
NoneG == <<>>

Implicit(a, kind) == kind = "eco" /\ a.has_implicit
RuleNames(a, kind) == << <<94>> >> \o (IF Implicit(a, kind) THEN << <<126>>, <<94, 126>> >> ELSE <<>>)
                      \o [i \in 1 .. Len(a.rules) |-> a.rules[i].name]
NExtraRules(a, kind) == IF Implicit(a, kind) THEN 3 ELSE 1
RIdx(a, kind, name) == (CHOOSE i \in 1 .. Len(RuleNames(a, kind)) : RuleNames(a, kind)[i] = name) - 1
TIdx(a, name) == (CHOOSE i \in 1 .. Len(a.tokens) : a.tokens[i] = name) - 1
FindN(list, n) == {i \in 1 .. Len(list) : list[i].name = n}
TokPrec(a, name) == LET h == FindN(a.precs, name) IN
                    IF h = {} THEN <<-1, -1>> ELSE LET e == a.precs[CHOOSE i \in h : TRUE] IN <<e.level, e.kind>>

\* the implicit tokens in the order of their token indices
RECURSIVE SortByTIdx(_, _)
SortByTIdx(a, S) == IF S = {} THEN <<>> ELSE LET m == CHOOSE x \in S : \A y \in S : TIdx(a, x) <= TIdx(a, y) IN <<m>> \o SortByTIdx(a, S \ {m})
ImplicitSorted(a) == SortByTIdx(a, {a.implicit[i].name : i \in 1 .. Len(a.implicit)})

NUser(a) == Len(a.prods)
\* synthesised productions, in index order after the user's: [r, rhs]
ExtraProds(a, kind) ==
  LET start == a.start[1] IN
  IF Implicit(a, kind)
  THEN << [r |-> 0, rhs |-> <<ROFFG + 2>>] >>
       \o [i \in 1 .. Len(ImplicitSorted(a)) |-> [r |-> 1, rhs |-> <<TIdx(a, ImplicitSorted(a)[i]), ROFFG + 1>>]]
       \o << [r |-> 1, rhs |-> <<>>] >>
       \o << [r |-> 2, rhs |-> <<ROFFG + 1, ROFFG + RIdx(a, kind, start)>>] >>
  ELSE << [r |-> 0, rhs |-> <<ROFFG + RIdx(a, kind, start)>>] >>

RuleOfProd(a, p) == CHOOSE i \in 1 .. Len(a.rules) : \E n \in 1 .. Len(a.rules[i].pidxs) : a.rules[i].pidxs[n] = p - 1
RECURSIVE Flat(_)
Flat(ss) == IF ss = <<>> THEN <<>> ELSE Head(ss) \o Flat(Tail(ss))
ProdRhs(a, kind, pr) ==
  Flat([i \in 1 .. Len(pr.syms) |->
          IF pr.syms[i].t = "tok"
          THEN (IF Implicit(a, kind) THEN <<TIdx(a, pr.syms[i].name), ROFFG + 1>> ELSE <<TIdx(a, pr.syms[i].name)>>)
          ELSE <<ROFFG + RIdx(a, kind, pr.syms[i].name)>>])
\* %prec token's precedence, else that of the LAST token (whether or not it has one)
ProdPrec(a, pr) ==
  LET toks == {i \in 1 .. Len(pr.syms) : pr.syms[i].t = "tok"} IN
  IF pr.prec # NoneG THEN TokPrec(a, pr.prec[1])
  ELSE IF toks = {} THEN <<-1, -1>> ELSE TokPrec(a, pr.syms[CHOOSE i \in toks : \A j \in toks : j <= i].name)

\* the expected grammar object, in the shape the harness dumps it (total.rs grm_json)
GrammarOf(a, kind) ==
  LET rn == RuleNames(a, kind)  ep == ExtraProds(a, kind)  nx == NExtraRules(a, kind) IN
  [nr |-> Len(rn), nt |-> Len(a.tokens) + 1, np |-> NUser(a) + Len(ep),
   tokens |-> [i \in 1 .. Len(a.tokens) + 1 |->
                 IF i > Len(a.tokens) THEN [name |-> <<>>, has_name |-> FALSE, span |-> <<-1, -1>>, prec |-> <<-1, -1>>, epp |-> <<>>, has_epp |-> FALSE, avoid |-> FALSE]
                 ELSE LET n == a.tokens[i]  e == FindN(a.epp, n) IN
                      [name |-> n, has_name |-> TRUE, span |-> a.tspans[i], prec |-> TokPrec(a, n),
                       epp |-> IF e = {} THEN n ELSE a.epp[CHOOSE k \in e : TRUE].val, has_epp |-> TRUE,
                       avoid |-> a.has_avoid /\ FindN(a.avoid, n) # {}]],
   rules |-> [i \in 1 .. Len(rn) |->
                IF i <= nx
                THEN [name |-> rn[i], span |-> <<0, 0>>, actiontype |-> NoneG,
                      prods |-> LET idx == {k \in 1 .. Len(ep) : ep[k].r = i - 1} IN
                                [n \in 1 .. Cardinality(idx) |-> NUser(a) + (CHOOSE k \in idx : Cardinality({j \in idx : j < k}) = n - 1) - 1]]
                ELSE LET r == a.rules[i - nx] IN [name |-> r.name, span |-> r.span, actiontype |-> r.actiont, prods |-> r.pidxs]],
   prods |-> [p \in 1 .. NUser(a) + Len(ep) |->
                IF p <= NUser(a)
                THEN LET pr == a.prods[p] IN
                     [r |-> nx + RuleOfProd(a, p) - 1, rhs |-> ProdRhs(a, kind, pr), prec |-> ProdPrec(a, pr), span |-> pr.span,
                      action |-> IF pr.action = NoneG THEN NoneG ELSE <<pr.action[1]>>,
                      action_span |-> IF pr.action = NoneG THEN NoneG ELSE pr.action[2]]
                ELSE [r |-> ep[p - NUser(a)].r, rhs |-> ep[p - NUser(a)].rhs, prec |-> <<-1, -1>>, span |-> <<0, 0>>, action |-> NoneG, action_span |-> NoneG]],
   startprod |-> NUser(a), startrule |-> 0, eof |-> Len(a.tokens),
   expect |-> IF a.expect = NoneG THEN <<>> ELSE a.expect[1], expectrr |-> IF a.expectrr = NoneG THEN <<>> ELSE a.expectrr[1],
   implicit_rule |-> IF Implicit(a, kind) THEN 1 ELSE -1,
   programs |-> a.programs, parse_param |-> a.parse_param, parse_generics |-> a.parse_generics]
=============================================================================
