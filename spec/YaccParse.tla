------------------------------ MODULE YaccParse ------------------------------
(***************************************************************************)
(* The .y grammar parser (cfgrammar/src/lib/yacc/parser.rs, YaccParser)    *)
(* and the AST validation (ast.rs, complete_and_validate), transcribed     *)
(* function by function (C10, C12): for ANY text and yacc kind it predicts *)
(* the abstract syntax tree that is built - tokens in order of first       *)
(* appearance, %token set, start rule, precedences, %epp, %expect, rules,  *)
(* productions with symbols / %prec / action / spans, programs - and the   *)
(* list of errors with kinds and spans in order.                           *)
(*                                                                         *)
(* A text is a sequence of code points; spans are byte offsets (UTF-8      *)
(* widths).  Positions are 0-based character indices.  Strings are         *)
(* sequences of code points.  Loops are RECURSIVE operators with fuel      *)
(* ("LOOP" = does not return).  The %grmtools section in front is parsed   *)
(* by Header.tla; this module starts at the character index `start'.       *)
(*                                                                         *)
(* kind \in {"original", "grmtools", "eco"}                                 *)
(***************************************************************************)
EXTENDS Naturals, Integers, Sequences, FiniteSets, TLC

Width(c) == IF c < 128 THEN 1 ELSE IF c < 2048 THEN 2 ELSE IF c < 65536 THEN 3 ELSE 4
Cp(src, k) == IF k < Len(src) THEN src[k + 1] ELSE -1
RECURSIVE BOffY(_, _)
BOffY(src, k) == IF k = 0 THEN 0 ELSE BOffY(src, k - 1) + Width(src[k])
B(src, k) == BOffY(src, k)
Sp(src, a, b) == <<B(src, a), B(src, b)>>
Sub(src, a, b) == [i \in 1 .. b - a |-> src[a + i]]
NL == {10, 13}
\* Unicode White_Space (what str::trim removes)
WSP == {9, 10, 11, 12, 13, 32, 133, 160, 5760, 8232, 8233, 8239, 8287, 12288} \cup (8192 .. 8202)
IsAlpha(c) == (c >= 65 /\ c <= 90) \/ (c >= 97 /\ c <= 122)
IsDigit(c) == c >= 48 /\ c <= 57
\* does src continue with the ASCII string s (a sequence of code points) at k ?
StartsWith(src, k, s) == k + Len(s) <= Len(src) /\ \A i \in 1 .. Len(s) : src[k + i] = s[i]
Trim(s) == LET n == Len(s)
               a == IF \E i \in 1 .. n : s[i] \notin WSP THEN CHOOSE i \in 1 .. n : s[i] \notin WSP /\ \A j \in 1 .. i - 1 : s[j] \in WSP ELSE n + 1
               b == IF a > n THEN n ELSE CHOOSE i \in a .. n : s[i] \notin WSP /\ \A j \in i + 1 .. n : s[j] \in WSP
           IN IF a > n THEN <<>> ELSE SubSeq(s, a, b)

\* keywords as code points
K_PP        == <<37, 37>>
K_TOKEN     == <<37, 116, 111, 107, 101, 110>>
K_ACTIONT   == <<37, 97, 99, 116, 105, 111, 110, 116, 121, 112, 101>>
K_START     == <<37, 115, 116, 97, 114, 116>>
K_EPP       == <<37, 101, 112, 112>>
K_EXPECTRR  == <<37, 101, 120, 112, 101, 99, 116, 45, 114, 114>>
K_EXPECTUN  == <<37, 101, 120, 112, 101, 99, 116, 45, 117, 110, 117, 115, 101, 100>>
K_EXPECT    == <<37, 101, 120, 112, 101, 99, 116>>
K_AVOID     == <<37, 97, 118, 111, 105, 100, 95, 105, 110, 115, 101, 114, 116>>
K_PARAM     == <<37, 112, 97, 114, 115, 101, 45, 112, 97, 114, 97, 109>>
K_GENERICS  == <<37, 112, 97, 114, 115, 101, 45, 103, 101, 110, 101, 114, 105, 99, 115>>
K_IMPLICIT  == <<37, 105, 109, 112, 108, 105, 99, 105, 116, 95, 116, 111, 107, 101, 110, 115>>
K_LEFT      == <<37, 108, 101, 102, 116>>
K_RIGHT     == <<37, 114, 105, 103, 104, 116>>
K_NONASSOC  == <<37, 110, 111, 110, 97, 115, 115, 111, 99>>
K_PREC      == <<37, 112, 114, 101, 99>>
K_EMPTY     == <<37, 101, 109, 112, 116, 121>>
K_ARROW     == <<45, 62>>

Error(src, kind, k) == [kind |-> kind, name |-> <<>>, spans |-> << <<B(src, k), B(src, k)>> >>]
Fail(src, kind, k, nl) == [ok |-> FALSE, err |-> Error(src, kind, k), nl |-> nl]
LOOPERR == [kind |-> "LOOP", name |-> <<>>, spans |-> <<>>]
AddDup(errs, kind, orig, dup) ==
  LET hit == {n \in 1 .. Len(errs) : errs[n].kind = kind /\ errs[n].spans[1] = orig} IN
  IF hit # {} THEN LET n == CHOOSE m \in hit : \A o \in hit : m <= o IN [errs EXCEPT ![n].spans = Append(@, dup)]
  ELSE Append(errs, [kind |-> kind, name |-> <<>>, spans |-> <<orig, dup>>])

\* ---- parse_ws(i, inc_newlines): blanks, newlines, // and /* */ comments.  nl = num_newlines
\*      -> [ok, k, nl] | [ok = FALSE, err, nl]
RECURSIVE LineCommentEnd(_, _)
LineCommentEnd(src, k) ==        \* consumes up to and including the first newline: [k, hit]
  IF k >= Len(src) THEN [k |-> k, hit |-> FALSE]
  ELSE IF Cp(src, k) \in NL THEN [k |-> k + 1, hit |-> TRUE] ELSE LineCommentEnd(src, k + 1)
\* the /* */ scanner (after the fix: only "*/" closes).  -> [found, k, nl, eol]
RECURSIVE BlockScan(_, _, _, _)
BlockScan(src, k, nl, inc) ==
  IF k >= Len(src) THEN [found |-> FALSE, k |-> k, nl |-> nl, eol |-> FALSE]
  ELSE LET c == Cp(src, k) IN
       IF c \in NL THEN (IF ~inc THEN [found |-> FALSE, k |-> k, nl |-> nl, eol |-> TRUE] ELSE BlockScan(src, k + 1, nl + 1, inc))
       ELSE IF c = 42 /\ Cp(src, k + 1) = 47 THEN [found |-> TRUE, k |-> k + 2, nl |-> nl, eol |-> FALSE]
       ELSE BlockScan(src, k + 1, nl, inc)
RECURSIVE Ws(_, _, _, _, _)
Ws(src, i, inc, nl, fuel) ==
  IF fuel = 0 THEN [ok |-> FALSE, err |-> LOOPERR, nl |-> nl]
  ELSE IF i >= Len(src) THEN [ok |-> TRUE, k |-> i, nl |-> nl]
  ELSE LET c == Cp(src, i) IN
       IF c \in {32, 9} THEN Ws(src, i + 1, inc, nl, fuel - 1)
       ELSE IF c \in NL THEN (IF ~inc THEN Fail(src, "Reached end of line without finding expected content", i, nl) ELSE Ws(src, i + 1, inc, nl + 1, fuel - 1))
       ELSE IF c = 47 THEN
            (IF i + 1 = Len(src) THEN [ok |-> TRUE, k |-> i, nl |-> nl]
             ELSE IF Cp(src, i + 1) = 47
             THEN LET e == LineCommentEnd(src, i + 2) IN Ws(src, e.k, inc, IF e.hit THEN nl + 1 ELSE nl, fuel - 1)
             ELSE IF Cp(src, i + 1) = 42
             THEN LET b == BlockScan(src, i + 2, nl, inc) IN
                  IF b.eol THEN Fail(src, "Reached end of line without finding expected content", i, b.nl)
                  ELSE IF ~b.found THEN Fail(src, "Incomplete comment", i, b.nl)
                  ELSE Ws(src, b.k, inc, b.nl, fuel - 1)
             ELSE [ok |-> TRUE, k |-> i, nl |-> nl])
       ELSE [ok |-> TRUE, k |-> i, nl |-> nl]
WsF(src, i, inc, nl) == Ws(src, i, inc, nl, Len(src) + 2)

\* ---- lexical helpers ----
NameStart(c) == IsAlpha(c) \/ c \in {95, 46}
NameCont(c) == IsAlpha(c) \/ IsDigit(c) \/ c \in {95, 46}
IdStart(c) == IsAlpha(c) \/ c = 95
IdCont(c) == IsAlpha(c) \/ IsDigit(c) \/ c = 95
\* scan while the character is in class cl ("name" | "id" | "digit")
InClass(c, cl) == CASE cl = "name" -> NameCont(c) [] cl = "id" -> IdCont(c) [] OTHER -> IsDigit(c)
RECURSIVE ScanSet(_, _, _)
ScanSet(src, k, cl) == IF k < Len(src) /\ InClass(Cp(src, k), cl) THEN ScanSet(src, k + 1, cl) ELSE k
\* parse_name: RE_NAME  -> end index or -1
NameEnd(src, i) == IF i < Len(src) /\ NameStart(Cp(src, i)) THEN ScanSet(src, i + 1, "name") ELSE -1
\* RE_TOKEN  ^(?:(".+?")|('.+?')|([a-zA-Z_][a-zA-Z_0-9]*)) -> [end, quoted] or end = -1
RECURSIVE QuoteEnd(_, _, _)
QuoteEnd(src, k, q) ==     \* first q at or after k with no \n before it
  IF k >= Len(src) \/ Cp(src, k) = 10 THEN -1 ELSE IF Cp(src, k) = q THEN k ELSE QuoteEnd(src, k + 1, q)
TokenEnd(src, i) ==
  LET c == Cp(src, i) IN
  IF c \in {34, 39}
  THEN (IF i + 1 >= Len(src) \/ Cp(src, i + 1) = 10 THEN [end |-> -1, quoted |-> TRUE]
        ELSE LET e == QuoteEnd(src, i + 2, c) IN [end |-> IF e < 0 THEN -1 ELSE e + 1, quoted |-> TRUE])
  ELSE IF i < Len(src) /\ IdStart(c) THEN [end |-> ScanSet(src, i + 1, "id"), quoted |-> FALSE]
  ELSE [end |-> -1, quoted |-> FALSE]
\* parse_token -> [ok, k, name, span, quoted]
ParseToken(src, i, nl) ==
  LET t == TokenEnd(src, i) IN
  IF t.end < 0 THEN Fail(src, "Illegal string", i, nl)
  ELSE IF t.quoted THEN [ok |-> TRUE, k |-> t.end, name |-> Sub(src, i + 1, t.end - 1), span |-> Sp(src, i + 1, t.end - 1), quoted |-> TRUE]
  ELSE [ok |-> TRUE, k |-> t.end, name |-> Sub(src, i, t.end), span |-> Sp(src, i, t.end), quoted |-> FALSE]
\* parse_to_eol -> end index
RECURSIVE ToEol(_, _)
ToEol(src, k) == IF k >= Len(src) \/ Cp(src, k) \in NL THEN k ELSE ToEol(src, k + 1)
\* parse_to_single_colon -> [ok, k, text, nl]
RECURSIVE ToColon(_, _, _, _)
ToColon(src, i, k, nl) ==
  IF k >= Len(src) THEN Fail(src, "Reached end of line without finding expected content", k, nl)
  ELSE LET c == Cp(src, k) IN
       IF c = 58 THEN (IF Cp(src, k + 1) # 58 THEN [ok |-> TRUE, k |-> k, text |-> Trim(Sub(src, i, k)), nl |-> nl]
                       ELSE ToColon(src, i, k + 2, nl))
       ELSE IF c \in NL THEN ToColon(src, i, k + 1, nl + 1)
       ELSE ToColon(src, i, k + 1, nl)
\* parse_int (usize): digits, canonical value = digit values without leading zeros (<<0>> for zero)
U64MAX == <<1, 8, 4, 4, 6, 7, 4, 4, 0, 7, 3, 7, 0, 9, 5, 5, 1, 6, 1, 5>>
RECURSIVE LexGreater(_, _, _)
LexGreater(a, b, i) == IF i > Len(a) THEN FALSE ELSE IF a[i] # b[i] THEN a[i] > b[i] ELSE LexGreater(a, b, i + 1)
ParseInt(src, i, nl) ==
  LET e == ScanSet(src, i, "digit")
      ds == [n \in 1 .. e - i |-> src[i + n] - 48]
      nz == {n \in 1 .. Len(ds) : ds[n] # 0}
      sig == IF nz = {} THEN <<>> ELSE SubSeq(ds, CHOOSE n \in nz : \A m \in nz : n <= m, Len(ds))
  IN IF e = i \/ Len(sig) > 20 \/ (Len(sig) = 20 /\ LexGreater(sig, U64MAX, 1)) THEN Fail(src, "Illegal integer", i, nl)
     ELSE [ok |-> TRUE, k |-> e, val |-> IF sig = <<>> THEN <<0>> ELSE sig]
\* parse_string -> [ok, k, text]
RECURSIVE StrScan(_, _, _, _, _, _)
StrScan(src, q, j, acc, from, nl) ==       \* from = start of the pending chunk
  IF j >= Len(src) THEN Fail(src, "Invalid string", j, nl)
  ELSE LET c == Cp(src, j) IN
       IF c \in NL THEN Fail(src, "Invalid string", j, nl)
       ELSE IF c = q THEN [ok |-> TRUE, k |-> j + 1, text |-> acc \o Sub(src, from, j)]
       ELSE IF c = 92 THEN (IF Cp(src, j + 1) \in {39, 34} THEN StrScan(src, q, j + 2, acc \o Sub(src, from, j), j + 1, nl)
                            ELSE Fail(src, "Invalid string", j, nl))
       ELSE StrScan(src, q, j + 1, acc, from, nl)
ParseString(src, i, nl) ==
  IF Cp(src, i) \notin {39, 34} THEN Fail(src, "Invalid string", i, nl)
  ELSE StrScan(src, Cp(src, i), i + 1, <<>>, i + 1, nl)
\* parse_action at `{' -> [ok, k, text, nl]
RECURSIVE ActScan(_, _, _, _)
ActScan(src, j, c, nl) ==     \* -> [closed, j, nl]
  IF j >= Len(src) THEN [closed |-> FALSE, j |-> j, nl |-> nl]
  ELSE LET ch == Cp(src, j) IN
       IF ch = 123 THEN ActScan(src, j + 1, c + 1, nl)
       ELSE IF ch = 125 /\ c = 1 THEN [closed |-> TRUE, j |-> j, nl |-> nl]
       ELSE IF ch = 125 THEN ActScan(src, j + 1, c - 1, nl)
       ELSE IF ch \in NL THEN ActScan(src, j + 1, c, nl + 1)
       ELSE ActScan(src, j + 1, c, nl)
ParseAction(src, i, nl) ==
  LET r == ActScan(src, i, 0, nl) IN
  IF ~r.closed THEN Fail(src, "Incomplete action", i, r.nl)
  ELSE [ok |-> TRUE, k |-> r.j + 1, text |-> Trim(Sub(src, i + 1, r.j)), nl |-> r.nl]

\* ---- the AST ----
NoneV == <<>>
EmptyAst == [tokens |-> <<>>, tspans |-> <<>>, tdirs |-> {}, start |-> NoneV, epp |-> <<>>, expect |-> NoneV, expectrr |-> NoneV,
             expect_unused |-> <<>>, has_avoid |-> FALSE, avoid |-> <<>>, has_implicit |-> FALSE, implicit |-> <<>>, precs |-> <<>>,
             parse_param |-> NoneV, parse_generics |-> NoneV, rules |-> <<>>, prods |-> <<>>, programs |-> NoneV, gat |-> NoneV]
TokIdx(a, n) == {i \in 1 .. Len(a.tokens) : a.tokens[i] = n}
AddTok(a, n, span) == IF TokIdx(a, n) # {} THEN a ELSE [a EXCEPT !.tokens = Append(@, n), !.tspans = Append(@, span)]
RuleIdx(a, n) == {i \in 1 .. Len(a.rules) : a.rules[i].name = n}
Find(list, n) == {i \in 1 .. Len(list) : list[i].name = n}

\* a "token list on one line" loop shared by %avoid_insert / %implicit_tokens / %left...:
\*   while <cond> && num_newlines unchanged { parse_token; ...; parse_ws(j, true) }
\* mode: "avoid" | "implicit" | "prec";  cond0 = the (constant) first conjunct for avoid/implicit
RECURSIVE TokLine(_, _, _, _, _, _, _, _, _, _)
TokLine(src, a, errs, i, nl, nl0, mode, cond0, pk, fuel) ==     \* pk = [level, kind] for "prec"
  IF fuel = 0 THEN [ok |-> FALSE, err |-> LOOPERR, a |-> a, errs |-> errs, nl |-> nl]
  ELSE IF ~((IF mode = "prec" THEN i < Len(src) ELSE cond0) /\ nl = nl0) THEN [ok |-> TRUE, a |-> a, errs |-> errs, k |-> i, nl |-> nl]
  ELSE LET t == ParseToken(src, i, nl) IN
       IF ~t.ok THEN [ok |-> FALSE, err |-> t.err, a |-> a, errs |-> errs, nl |-> nl]
       ELSE LET a1 == IF mode = "prec" THEN a ELSE AddTok(a, t.name, t.span)
                list == CASE mode = "avoid" -> a1.avoid [] mode = "implicit" -> a1.implicit [] OTHER -> a1.precs
                hit == Find(list, t.name)
                dupkind == CASE mode = "avoid" -> "Duplicated %avoid_insert declaration" [] mode = "implicit" -> "Duplicated %implicit_tokens declaration"
                             [] OTHER -> "Token has multiple precedences specified"
                errs2 == IF hit # {} THEN AddDup(errs, dupkind, list[CHOOSE n \in hit : TRUE].span, t.span) ELSE errs
                entry == IF mode = "prec" THEN [name |-> t.name, level |-> pk.level, kind |-> pk.kind, span |-> t.span] ELSE [name |-> t.name, span |-> t.span]
                a2 == IF hit # {} THEN a1
                      ELSE CASE mode = "avoid" -> [a1 EXCEPT !.avoid = Append(@, entry)]
                             [] mode = "implicit" -> [a1 EXCEPT !.implicit = Append(@, entry)]
                             [] OTHER -> [a1 EXCEPT !.precs = Append(@, entry)]
                w == WsF(src, t.k, TRUE, nl)
            IN IF ~w.ok THEN [ok |-> FALSE, err |-> w.err, a |-> a2, errs |-> errs2, nl |-> w.nl]
               ELSE TokLine(src, a2, errs2, w.k, w.nl, nl0, mode, cond0, pk, fuel - 1)

\* the %token loop:  while i < len && !lookahead("%")
RECURSIVE TokenDecl(_, _, _, _, _)
TokenDecl(src, a, i, nl, fuel) ==
  IF fuel = 0 THEN [ok |-> FALSE, err |-> LOOPERR, a |-> a, nl |-> nl]
  ELSE IF ~(i < Len(src) /\ Cp(src, i) # 37) THEN [ok |-> TRUE, a |-> a, k |-> i, nl |-> nl]
  ELSE LET t == ParseToken(src, i, nl) IN
       IF ~t.ok THEN [ok |-> FALSE, err |-> t.err, a |-> a, nl |-> nl]
       ELSE LET a1 == AddTok(a, t.name, t.span)
                a2 == [a1 EXCEPT !.tdirs = @ \cup TokIdx(a1, t.name)]
                w == WsF(src, t.k, TRUE, nl)
            IN IF ~w.ok THEN [ok |-> FALSE, err |-> w.err, a |-> a2, nl |-> w.nl] ELSE TokenDecl(src, a2, w.k, w.nl, fuel - 1)
\* the %expect-unused loop
RECURSIVE UnusedDecl(_, _, _, _, _)
UnusedDecl(src, a, i, nl, fuel) ==
  IF fuel = 0 THEN [ok |-> FALSE, err |-> LOOPERR, a |-> a, nl |-> nl]
  ELSE IF ~(i < Len(src) /\ Cp(src, i) # 37) THEN [ok |-> TRUE, a |-> a, k |-> i, nl |-> nl]
  ELSE LET ne == NameEnd(src, i)
           t == ParseToken(src, i, nl)
       IN IF ne < 0 /\ ~t.ok THEN [ok |-> FALSE, err |-> Error(src, "Unknown symbol, expected a rule or token", i), a |-> a, nl |-> nl]
          ELSE LET sym == IF ne >= 0 THEN [t |-> "rule", name |-> Sub(src, i, ne), span |-> Sp(src, i, ne)]
                          ELSE [t |-> "tok", name |-> t.name, span |-> t.span]
                   j == IF ne >= 0 THEN ne ELSE t.k
                   a2 == [a EXCEPT !.expect_unused = Append(@, sym)]
                   w == WsF(src, j, TRUE, nl)
               IN IF ~w.ok THEN [ok |-> FALSE, err |-> w.err, a |-> a2, nl |-> w.nl] ELSE UnusedDecl(src, a2, w.k, w.nl, fuel - 1)

\* ---- parse_declarations -> [ok, a, errs, k, nl] | [ok = FALSE, err, a, errs, nl] ----
RECURSIVE Decls(_, _, _, _, _, _, _, _)
Decls(src, kind, a, errs, i, nl, level, fuel) ==
  LET F(e, a2, errs2, nl2) == [ok |-> FALSE, err |-> e, a |-> a2, errs |-> errs2, nl |-> nl2]
      \* "skip blanks on this line, then X" and "finish with parse_ws(j, true) and continue"
      Cont(a2, errs2, j, nl2, lev) == LET w == WsF(src, j, TRUE, nl2) IN
                                      IF ~w.ok THEN F(w.err, a2, errs2, w.nl) ELSE Decls(src, kind, a2, errs2, w.k, w.nl, lev, fuel - 1)
  IN
  IF fuel = 0 THEN F(LOOPERR, a, errs, nl)
  ELSE IF i >= Len(src) THEN F(Error(src, "File ends prematurely", i), a, errs, nl)
  ELSE IF StartsWith(src, i, K_PP) THEN [ok |-> TRUE, a |-> a, errs |-> errs, k |-> i, nl |-> nl]
  ELSE IF StartsWith(src, i, K_TOKEN) THEN
       LET w == WsF(src, i + Len(K_TOKEN), FALSE, nl) IN
       IF ~w.ok THEN F(w.err, a, errs, w.nl)
       ELSE LET r == TokenDecl(src, a, w.k, w.nl, Len(src) + 2) IN
            IF ~r.ok THEN F(r.err, r.a, errs, r.nl) ELSE Decls(src, kind, r.a, errs, r.k, r.nl, level, fuel - 1)
  ELSE IF kind = "original" /\ StartsWith(src, i, K_ACTIONT) THEN
       LET w == WsF(src, i + Len(K_ACTIONT), FALSE, nl) IN
       IF ~w.ok THEN F(w.err, a, errs, w.nl)
       ELSE LET j == ToEol(src, w.k)  span == Sp(src, w.k, j) IN
            IF a.gat # NoneV THEN Cont(a, AddDup(errs, "Duplicate %actiontype declaration", a.gat[2], span), j, w.nl, level)
            ELSE Cont([a EXCEPT !.gat = <<Sub(src, w.k, j), span>>], errs, j, w.nl, level)
  ELSE IF StartsWith(src, i, K_START) THEN
       LET w == WsF(src, i + Len(K_START), FALSE, nl) IN
       IF ~w.ok THEN F(w.err, a, errs, w.nl)
       ELSE LET j == NameEnd(src, w.k) IN
            IF j < 0 THEN F(Error(src, "Illegal name", w.k), a, errs, w.nl)
            ELSE LET span == Sp(src, w.k, j) IN
                 IF a.start # NoneV THEN Cont(a, AddDup(errs, "Duplicated %start declaration", a.start[2], span), j, w.nl, level)
                 ELSE Cont([a EXCEPT !.start = <<Sub(src, w.k, j), span>>], errs, j, w.nl, level)
  ELSE IF StartsWith(src, i, K_EPP) THEN
       LET w == WsF(src, i + Len(K_EPP), FALSE, nl) IN
       IF ~w.ok THEN F(w.err, a, errs, w.nl)
       ELSE LET t == ParseToken(src, w.k, w.nl) IN
            IF ~t.ok THEN F(t.err, a, errs, w.nl)
            ELSE LET span == Sp(src, w.k, t.k)  w2 == WsF(src, t.k, FALSE, w.nl) IN
                 IF ~w2.ok THEN F(w2.err, a, errs, w2.nl)
                 ELSE LET s == ParseString(src, w2.k, w2.nl) IN
                      IF ~s.ok THEN F(s.err, a, errs, w2.nl)
                      ELSE LET hit == Find(a.epp, t.name) IN
                           IF hit # {} THEN Cont(a, AddDup(errs, "Duplicate %epp declaration for this token", a.epp[CHOOSE n \in hit : TRUE].span, span), s.k, w2.nl, level)
                           ELSE Cont([a EXCEPT !.epp = Append(@, [name |-> t.name, span |-> span, val |-> s.text, vspan |-> Sp(src, w2.k, s.k)])],
                                     errs, s.k, w2.nl, level)
  ELSE IF StartsWith(src, i, K_EXPECTRR) THEN
       LET w == WsF(src, i + Len(K_EXPECTRR), FALSE, nl) IN
       IF ~w.ok THEN F(w.err, a, errs, w.nl)
       ELSE LET n == ParseInt(src, w.k, w.nl) IN
            IF ~n.ok THEN F(n.err, a, errs, w.nl)
            ELSE IF a.expectrr # NoneV THEN Cont(a, AddDup(errs, "Duplicate %expect-rr declaration", a.expectrr[2], Sp(src, w.k, n.k)), n.k, w.nl, level)
            ELSE Cont([a EXCEPT !.expectrr = <<n.val, Sp(src, w.k, n.k)>>], errs, n.k, w.nl, level)
  ELSE IF StartsWith(src, i, K_EXPECTUN) THEN
       LET w == WsF(src, i + Len(K_EXPECTUN), FALSE, nl) IN
       IF ~w.ok THEN F(w.err, a, errs, w.nl)
       ELSE LET r == UnusedDecl(src, a, w.k, w.nl, Len(src) + 2) IN
            IF ~r.ok THEN F(r.err, r.a, errs, r.nl) ELSE Decls(src, kind, r.a, errs, r.k, r.nl, level, fuel - 1)
  ELSE IF StartsWith(src, i, K_EXPECT) THEN
       LET w == WsF(src, i + Len(K_EXPECT), FALSE, nl) IN
       IF ~w.ok THEN F(w.err, a, errs, w.nl)
       ELSE LET n == ParseInt(src, w.k, w.nl) IN
            IF ~n.ok THEN F(n.err, a, errs, w.nl)
            ELSE IF a.expect # NoneV THEN Cont(a, AddDup(errs, "Duplicated %expect declaration", a.expect[2], Sp(src, w.k, n.k)), n.k, w.nl, level)
            ELSE Cont([a EXCEPT !.expect = <<n.val, Sp(src, w.k, n.k)>>], errs, n.k, w.nl, level)
  ELSE IF StartsWith(src, i, K_AVOID) THEN
       LET j == i + Len(K_AVOID)  w == WsF(src, j, FALSE, nl) IN
       IF ~w.ok THEN F(w.err, a, errs, w.nl)
       ELSE LET r == TokLine(src, [a EXCEPT !.has_avoid = TRUE], errs, w.k, w.nl, w.nl, "avoid", j < Len(src), NoneV, Len(src) + 2) IN
            IF ~r.ok THEN F(r.err, r.a, r.errs, r.nl) ELSE Decls(src, kind, r.a, r.errs, r.k, r.nl, level, fuel - 1)
  ELSE IF StartsWith(src, i, K_PARAM) THEN
       LET w == WsF(src, i + Len(K_PARAM), FALSE, nl) IN
       IF ~w.ok THEN F(w.err, a, errs, w.nl)
       ELSE LET c == ToColon(src, w.k, w.k, w.nl) IN
            IF ~c.ok THEN F(c.err, a, errs, c.nl)
            ELSE LET w2 == WsF(src, c.k + 1, FALSE, c.nl) IN       \* (c.k is at the single colon)
                 IF ~w2.ok THEN F(w2.err, a, errs, w2.nl)
                 ELSE LET j == ToEol(src, w2.k) IN Cont([a EXCEPT !.parse_param = <<c.text, Sub(src, w2.k, j)>>], errs, j, w2.nl, level)
  ELSE IF StartsWith(src, i, K_GENERICS) THEN
       LET w == WsF(src, i + Len(K_GENERICS), FALSE, nl) IN
       IF ~w.ok THEN F(w.err, a, errs, w.nl)
       ELSE LET j == ToEol(src, w.k) IN Cont([a EXCEPT !.parse_generics = <<Sub(src, w.k, j)>>], errs, j, w.nl, level)
  ELSE IF kind = "eco" /\ StartsWith(src, i, K_IMPLICIT) THEN
       LET j == i + Len(K_IMPLICIT)  w == WsF(src, j, FALSE, nl) IN
       IF ~w.ok THEN F(w.err, a, errs, w.nl)
       ELSE LET r == TokLine(src, [a EXCEPT !.has_implicit = TRUE], errs, w.k, w.nl, w.nl, "implicit", j < Len(src), NoneV, Len(src) + 2) IN
            IF ~r.ok THEN F(r.err, r.a, r.errs, r.nl) ELSE Decls(src, kind, r.a, r.errs, r.k, r.nl, level, fuel - 1)
  ELSE LET assoc == IF StartsWith(src, i, K_LEFT) THEN <<0, Len(K_LEFT)>> ELSE IF StartsWith(src, i, K_RIGHT) THEN <<1, Len(K_RIGHT)>>
                    ELSE IF StartsWith(src, i, K_NONASSOC) THEN <<2, Len(K_NONASSOC)>> ELSE <<-1, 0>> IN
       IF assoc[1] < 0 THEN F(Error(src, "Unknown declaration", i), a, errs, nl)
       ELSE LET w == WsF(src, i + assoc[2], FALSE, nl) IN
            IF ~w.ok THEN F(w.err, a, errs, w.nl)
            ELSE LET r == TokLine(src, a, errs, w.k, w.nl, w.nl, "prec", TRUE, [level |-> level, kind |-> assoc[1]], Len(src) + 2) IN
                 IF ~r.ok THEN F(r.err, r.a, r.errs, r.nl) ELSE Decls(src, kind, r.a, r.errs, r.k, r.nl, level + 1, fuel - 1)

\* ---- parse_rule ----
AddProd(a, rn, syms, prec, action, span) ==
  LET ri == CHOOSE n \in RuleIdx(a, rn) : TRUE IN
  [a EXCEPT !.rules[ri].pidxs = Append(@, Len(a.prods)),
            !.prods = Append(@, [syms |-> syms, prec |-> prec, action |-> action, span |-> span])]
\* the body of a rule after the colon.  st = [a, syms, prec, action, pstart, pend (-1 = none)]
RECURSIVE Body(_, _, _, _, _, _, _)
Body(src, a, rn, st, i, nl, fuel) ==
  LET F(e, a2, nl2) == [ok |-> FALSE, err |-> e, a |-> a2, nl |-> nl2]
      PEnd == IF st.pend < 0 THEN i ELSE st.pend
      Step(st2, j, nl2) == LET w == WsF(src, j, TRUE, nl2) IN
                           IF ~w.ok THEN F(w.err, a, w.nl) ELSE Body(src, a, rn, st2, w.k, w.nl, fuel - 1)
  IN
  IF fuel = 0 THEN F(LOOPERR, a, nl)
  ELSE IF i >= Len(src) THEN F(Error(src, "Incomplete rule", i), a, nl)
  ELSE IF Cp(src, i) = 124 THEN
       LET a2 == AddProd(a, rn, st.syms, st.prec, st.action, Sp(src, st.pstart, PEnd))
           w == WsF(src, i + 1, TRUE, nl)
       IN IF ~w.ok THEN F(w.err, a2, w.nl)
          ELSE Body(src, a2, rn, [syms |-> <<>>, prec |-> NoneV, action |-> NoneV, pstart |-> w.k, pend |-> -1], w.k, w.nl, fuel - 1)
  ELSE IF Cp(src, i) = 59 THEN
       [ok |-> TRUE, a |-> AddProd(a, rn, st.syms, st.prec, st.action, Sp(src, st.pstart, PEnd)), k |-> i + 1, nl |-> nl]
  ELSE IF Cp(src, i) \in {34, 39} THEN
       LET t == ParseToken(src, i, nl) IN
       IF ~t.ok THEN F(t.err, a, nl)
       ELSE LET w == WsF(src, t.k, TRUE, nl) IN
            IF ~w.ok THEN F(w.err, a, w.nl)
            ELSE LET a2 == AddTok(a, t.name, t.span)
                     st2 == [st EXCEPT !.syms = Append(@, [t |-> "tok", name |-> t.name, span |-> t.span]), !.pend = t.k]
                     w2 == WsF(src, w.k, TRUE, w.nl)         \* (the loop's closing parse_ws)
                 IN IF ~w2.ok THEN F(w2.err, a2, w2.nl) ELSE Body(src, a2, rn, st2, w2.k, w2.nl, fuel - 1)
  ELSE IF StartsWith(src, i, K_PREC) THEN
       LET w == WsF(src, i + Len(K_PREC), TRUE, nl) IN
       IF ~w.ok THEN F(w.err, a, w.nl)
       ELSE LET t == ParseToken(src, w.k, w.nl) IN
            IF ~t.ok THEN F(t.err, a, w.nl)
            ELSE LET a2 == AddTok(a, t.name, t.span)
                     w2 == WsF(src, t.k, TRUE, w.nl)
                 IN IF ~w2.ok THEN F(w2.err, a2, w2.nl)
                    ELSE Body(src, a2, rn, [st EXCEPT !.prec = <<t.name>>, !.pend = t.k], w2.k, w2.nl, fuel - 1)
  ELSE IF Cp(src, i) = 123 THEN
       LET ac == ParseAction(src, i, nl) IN
       IF ~ac.ok THEN F(ac.err, a, ac.nl)
       ELSE LET w == WsF(src, ac.k, TRUE, ac.nl) IN
            IF ~w.ok THEN F(w.err, a, w.nl)
            ELSE IF Cp(src, w.k) \notin {124, 59} THEN F(Error(src, "Production not terminated correctly", w.k), a, w.nl)
            ELSE LET bs == B(src, i + 1)
                     \* (the action span starts right after the brace and is as long as the TRIMMED text)
                     tb == LET RECURSIVE blen(_)  blen(n) == IF n = 0 THEN 0 ELSE blen(n - 1) + Width(ac.text[n]) IN blen(Len(ac.text))
                     st2 == [st EXCEPT !.action = <<ac.text, <<bs, bs + tb>> >>, !.pend = i]
                     w2 == WsF(src, w.k, TRUE, w.nl)
                 IN IF ~w2.ok THEN F(w2.err, a, w2.nl) ELSE Body(src, a, rn, st2, w2.k, w2.nl, fuel - 1)
  ELSE IF StartsWith(src, i, K_EMPTY) THEN
       LET j == i + Len(K_EMPTY)  w == WsF(src, j, TRUE, nl) IN
       IF ~w.ok THEN F(w.err, a, w.nl)
       ELSE IF st.syms # <<>> \/ ~(Cp(src, w.k) \in {124, 59, 123} \/ StartsWith(src, w.k, K_PREC))
            THEN F(Error(src, "%empty used in non-empty production", i), a, w.nl)
            ELSE LET w2 == WsF(src, w.k, TRUE, w.nl) IN
                 IF ~w2.ok THEN F(w2.err, a, w2.nl) ELSE Body(src, a, rn, [st EXCEPT !.pend = j], w2.k, w2.nl, fuel - 1)
  ELSE LET t == ParseToken(src, i, nl) IN
       IF ~t.ok THEN F(t.err, a, nl)
       ELSE LET ti == TokIdx(a, t.name)
                istok == ti # {} /\ (t.quoted \/ ti \subseteq a.tdirs)
                sym == [t |-> IF istok THEN "tok" ELSE "rule", name |-> t.name, span |-> t.span]
            IN Step([st EXCEPT !.syms = Append(@, sym), !.pend = t.k], t.k, nl)

ParseRule(src, kind, a, i, nl) ==      \* -> [ok, a, k, nl] | [ok = FALSE, err, a, nl]
  LET F(e, a2, nl2) == [ok |-> FALSE, err |-> e, a |-> a2, nl |-> nl2]
      j == NameEnd(src, i)
  IN IF j < 0 THEN F(Error(src, "Illegal name", i), a, nl)
     ELSE
     LET rn == Sub(src, i, j)  span == Sp(src, i, j)
         a1 == IF a.start = NoneV THEN [a EXCEPT !.start = <<rn, span>>] ELSE a
         \* after the name: [ok, a, k, nl]
         hd == IF kind \in {"original", "eco"}
               THEN [ok |-> TRUE, k |-> j, nl |-> nl,
                     a |-> IF RuleIdx(a1, rn) # {} THEN a1
                           ELSE [a1 EXCEPT !.rules = Append(@, [name |-> rn, span |-> span, pidxs |-> <<>>,
                                                                   actiont |-> IF a1.gat = NoneV THEN NoneV ELSE <<a1.gat[1]>>])]]
               ELSE LET w == WsF(src, j, TRUE, nl) IN
                    IF ~w.ok THEN F(w.err, a1, w.nl)
                    ELSE IF ~StartsWith(src, w.k, K_ARROW) THEN F(Error(src, "Missing '->'", w.k), a1, w.nl)
                    ELSE LET w2 == WsF(src, w.k + 2, TRUE, w.nl) IN
                         IF ~w2.ok THEN F(w2.err, a1, w2.nl)
                         ELSE LET c == ToColon(src, w2.k, w2.k, w2.nl) IN
                              IF ~c.ok THEN F(c.err, a1, c.nl)
                              ELSE [ok |-> TRUE, k |-> c.k, nl |-> c.nl,
                                    a |-> IF RuleIdx(a1, rn) # {} THEN a1
                                          ELSE [a1 EXCEPT !.rules = Append(@, [name |-> rn, span |-> span, pidxs |-> <<>>, actiont |-> <<c.text>>])]]
     IN IF ~hd.ok THEN hd
        ELSE LET w == WsF(src, hd.k, TRUE, hd.nl) IN
             IF ~w.ok THEN F(w.err, hd.a, w.nl)
             ELSE IF Cp(src, w.k) # 58 THEN F(Error(src, "Missing ':'", w.k), hd.a, w.nl)
             ELSE LET w2 == WsF(src, w.k + 1, TRUE, w.nl) IN
                  IF ~w2.ok THEN F(w2.err, hd.a, w2.nl)
                  ELSE Body(src, hd.a, rn, [syms |-> <<>>, prec |-> NoneV, action |-> NoneV, pstart |-> w2.k, pend |-> -1],
                            w2.k, w2.nl, 2 * Len(src) + 4)

RECURSIVE Rules(_, _, _, _, _, _)
Rules(src, kind, a, i, nl, fuel) ==
  IF fuel = 0 THEN [ok |-> FALSE, err |-> LOOPERR, a |-> a, nl |-> nl]
  ELSE IF ~(i < Len(src) /\ ~StartsWith(src, i, K_PP)) THEN [ok |-> TRUE, a |-> a, k |-> i, nl |-> nl]
  ELSE LET r == ParseRule(src, kind, a, i, nl) IN
       IF ~r.ok THEN r
       ELSE LET w == WsF(src, r.k, TRUE, r.nl) IN
            IF ~w.ok THEN [ok |-> FALSE, err |-> w.err, a |-> r.a, nl |-> w.nl] ELSE Rules(src, kind, r.a, w.k, w.nl, fuel - 1)

\* YaccParser::parse from character index start (after the %grmtools section) -> [a, errs, loop]
Parse(src, kind, start) ==
  LET w0 == WsF(src, start, TRUE, 0) IN
  IF ~w0.ok THEN [a |-> EmptyAst, errs |-> <<w0.err>>]
  ELSE LET d == Decls(src, kind, EmptyAst, <<>>, w0.k, w0.nl, 0, Len(src) + 3) IN
       IF ~d.ok THEN [a |-> d.a, errs |-> Append(d.errs, d.err)]
       ELSE LET w1 == WsF(src, d.k + 2, TRUE, d.nl) IN
            IF ~w1.ok THEN [a |-> d.a, errs |-> Append(d.errs, w1.err)]
            ELSE LET r == Rules(src, kind, d.a, w1.k, w1.nl, Len(src) + 3) IN
                 IF ~r.ok THEN [a |-> r.a, errs |-> Append(d.errs, r.err)]
                 ELSE IF StartsWith(src, r.k, K_PP)
                 THEN LET w2 == WsF(src, r.k + 2, TRUE, r.nl) IN
                      IF ~w2.ok THEN [a |-> r.a, errs |-> Append(d.errs, w2.err)]
                      ELSE [a |-> [r.a EXCEPT !.programs = <<Sub(src, w2.k, Len(src))>>], errs |-> d.errs]
                 ELSE [a |-> r.a, errs |-> d.errs]

\* ---- complete_and_validate: at most one further error ----
\* (the order in which %epp entries are examined is that of a hash map: any unknown one may be reported)
Validate(a) ==     \* -> set of possible results, each <<>> (none) or <<err>>
  IF a.start = NoneV THEN { << [kind |-> "No start rule specified", name |-> <<>>, spans |-> << <<0, 0>> >>] >> }
  ELSE IF RuleIdx(a, a.start[1]) = {} THEN { << [kind |-> "invalid start rule", name |-> a.start[1], spans |-> <<a.start[2]>>] >> }
  ELSE
  LET \* first problem in rule order, production order, (prec first, then symbols in order)
      ProdProblem(p) ==
        LET pr == a.prods[p] IN
        IF pr.prec # NoneV /\ TokIdx(a, pr.prec[1]) = {} THEN << [kind |-> "unknown token", name |-> pr.prec[1], spans |-> << <<0, 0>> >>] >>
        ELSE IF pr.prec # NoneV /\ Find(a.precs, pr.prec[1]) = {} THEN << [kind |-> "no precedence for token", name |-> pr.prec[1], spans |-> << <<0, 0>> >>] >>
        ELSE LET bad == {n \in 1 .. Len(pr.syms) : IF pr.syms[n].t = "rule" THEN RuleIdx(a, pr.syms[n].name) = {} ELSE TokIdx(a, pr.syms[n].name) = {}} IN
             IF bad = {} THEN <<>>
             ELSE LET n == CHOOSE m \in bad : \A o \in bad : m <= o IN
                  << [kind |-> IF pr.syms[n].t = "rule" THEN "unknown rule ref" ELSE "unknown token", name |-> pr.syms[n].name, spans |-> <<pr.syms[n].span>>] >>
      order == [r \in 1 .. Len(a.rules) |-> a.rules[r].pidxs]
      RECURSIVE Flat(_)
      Flat(r) == IF r > Len(a.rules) THEN <<>> ELSE [n \in 1 .. Len(order[r]) |-> order[r][n] + 1] \o Flat(r + 1)
      ps == Flat(1)
      badp == {n \in 1 .. Len(ps) : ProdProblem(ps[n]) # <<>>}
  IN IF badp # {} THEN { ProdProblem(ps[CHOOSE n \in badp : \A m \in badp : n <= m]) }
     ELSE LET badepp == {n \in 1 .. Len(a.epp) : TokIdx(a, a.epp[n].name) = {} /\ ~(a.has_implicit /\ Find(a.implicit, a.epp[n].name) # {})} IN
          IF badepp # {} THEN { << [kind |-> "unknown epp", name |-> a.epp[n].name, spans |-> <<a.epp[n].span>>] >> : n \in badepp }
          ELSE LET badu == {n \in 1 .. Len(a.expect_unused) :
                              IF a.expect_unused[n].t = "rule" THEN RuleIdx(a, a.expect_unused[n].name) = {} ELSE TokIdx(a, a.expect_unused[n].name) = {}} IN
               IF badu = {} THEN { <<>> }
               ELSE LET n == CHOOSE m \in badu : \A o \in badu : m <= o IN
                    { << [kind |-> IF a.expect_unused[n].t = "rule" THEN "unknown rule ref" ELSE "unknown token", name |-> a.expect_unused[n].name,
                          spans |-> <<a.expect_unused[n].span>>] >> }
=============================================================================
