SPECIFICATION Spec
CONSTANTS
  Variant = "code"
INVARIANT Consumed
CHECK_DEADLOCK FALSE
