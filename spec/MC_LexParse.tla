---------------------------- MODULE MC_LexParse ----------------------------
(* Bounded model of the .l parser: every text of up to MaxLen characters over an alphabet of the
   characters the parser distinguishes (blanks of all three kinds, % < > , ' ; + \\ /, letters,
   a digit, a two-byte character): the transcribed parser terminates and its outcome satisfies
   the C12 contract, with and without whole-line comments / POSIX escapes. *)
EXTENDS LexParse
CONSTANTS MaxLen
VARIABLE text
Alphabet == {32, 9, 10, 12, 37, 60, 62, 44, 39, 59, 43, 92, 47, 97, 120, 65, 49, 233}
Init == \E n \in 0 .. MaxLen : text \in [1 .. n -> Alphabet]
Next == UNCHANGED text
Spec == Init /\ [][Next]_text
Inv == Total(text, LexParse(text, 0, FALSE, FALSE, {})) /\ Total(text, LexParse(text, 0, TRUE, TRUE, {}))
=============================================================================
