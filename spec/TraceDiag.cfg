SPECIFICATION Spec
INVARIANT Consumed
CHECK_DEADLOCK FALSE
