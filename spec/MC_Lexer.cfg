SPECIFICATION Spec
CONSTANTS
  NR = 2
  NS = 2
  InLen = 2
  StateSets = {{}, {1}}
  Tgts = {1}
INVARIANT Inv
INVARIANT RunAgrees
CHECK_DEADLOCK FALSE
