----------------------------- MODULE MC_CTBuild -----------------------------
(* Bounded model: all histories over 4 grammar versions (two valid, one invalid, one with an
   unexpected conflict), 3 lexer versions, toggles of three settings, interleaved with builds. *)
EXTENDS CTBuild
CONSTANT Depth
VARIABLE steps, built
GInfo == [g1 |-> [valid |-> TRUE, warn |-> FALSE, sr |-> 0, rr |-> 0, expect |-> -1, expectrr |-> -1, tok |-> 1, names |-> {"a", "b"}],
          g2 |-> [valid |-> TRUE, warn |-> TRUE, sr |-> 0, rr |-> 0, expect |-> -1, expectrr |-> -1, tok |-> 2, names |-> {"a", "b"}],
          gbad |-> [valid |-> FALSE, warn |-> FALSE, sr |-> 0, rr |-> 0, expect |-> -1, expectrr |-> -1, tok |-> 0, names |-> {}],
          gconf |-> [valid |-> TRUE, warn |-> FALSE, sr |-> 1, rr |-> 0, expect |-> -1, expectrr |-> -1, tok |-> 1, names |-> {"a", "b"}]]
LInfo == [l1 |-> [valid |-> TRUE, names |-> {"a", "b"}], l2 |-> [valid |-> TRUE, names |-> {"a", "b", "c"}], lbad |-> [valid |-> FALSE, names |-> {}]]
O0 == [k \in ParserCacheKeys \cup LexerKeys \cup {"lex_wae"} |->
         CASE k = "eoc" -> TRUE [] k = "wae" -> FALSE [] k = "showw" -> FALSE
           [] k = "case_insensitive" -> FALSE [] k = "lex_wae" -> FALSE [] k = "dot_matches_new_line" -> TRUE [] OTHER -> 0]
MCInit == Init("g1", "l1", O0) /\ steps = 0 /\ built = FALSE
MCNext ==
  /\ steps < Depth /\ steps' = steps + 1
  /\ \/ (\E v \in DOMAIN GInfo : EditGrammar(v)) /\ built' = FALSE
     \/ (\E v \in DOMAIN GInfo : EditGrammarSameTick(v)) /\ built' = FALSE
     \/ (\E v \in DOMAIN LInfo : EditLexer(v)) /\ built' = FALSE
     \/ (\E k \in {"eoc", "wae", "lex_wae"} : \E x \in {TRUE, FALSE} : SetOpt(k, x)) /\ built' = FALSE
     \/ (\E x \in {0, 1} : SetOpt("vis", x)) /\ built' = FALSE
     \/ BuildParser(GInfo) /\ built' = TRUE
     \/ BuildBoth(GInfo, LInfo) /\ built' = TRUE
MCSpec == MCInit /\ [][MCNext]_<<cvars, steps, built>>
\* after a successful build the outputs are those of a clean build; after a failed build no
\* parser output generated from an EARLIER grammar version is left
InvClean == built => AfterBuildOK(GInfo)
\* (a combined build that already fails in the lexer specification never reaches the grammar)
InvNoStale == (built /\ ~last.ok /\ last.stage # "lexer" /\ pout.present) => pout.src = gv
InvNoStaleLexer == (built /\ ~last.ok /\ last.stage \in {"lexer", "parser", "sync"}) => ~lout.present
\* an unchanged configuration is not regenerated, and says so
InvClean2 == (built /\ last.ok /\ last.stage = "done") => (lout.present /\ lout.src = lv /\ lout.tok = GInfo[gv].tok /\ lout.opts = LOpts(opts))
\* an unchanged configuration is not regenerated: two builds in a row
View == <<gv, gm, lv, lm, opts, pout, lout, last, steps, built>>
=============================================================================
