----------------------------- MODULE StateTable -----------------------------
(***************************************************************************)
(* From an LR automaton to the action/goto table (C03, C16, C01).          *)
(*                                                                         *)
(* An automaton is a record                                                *)
(*   [n, core : Seq(item set), closed : Seq(item set),                     *)
(*    edges : Seq(function symbol -> state index)]     (states 0-based)    *)
(* which is what Pager.GCGraph builds and what the implementation's        *)
(* StateGraph is dumped as.                                                *)
(*                                                                         *)
(* MEANING layer: YaccCell - Yacc's conflict resolution rules applied to   *)
(* the candidate actions of one (state, token) cell, and the views         *)
(* (state_actions, state_shifts, core_reduces, reduce_only).               *)
(* ALGORITHM layer: AddReduce / AddShift in any order (how statetable.rs   *)
(* fills a cell), used by the bounded model to show that the order does    *)
(* not matter for the final cell.                                          *)
(***************************************************************************)
EXTENDS Pager

ClosedOf(a, s) == a.closed[s + 1]
EdgesOf(a, s)  == a.edges[s + 1]
HasEdge(a, s, sym) == sym \in DOMAIN EdgesOf(a, s)
EdgeTo(a, s, sym)  == EdgesOf(a, s)[sym]

\* precedence of token / production: <<level, kind>>, level -1 = none; kind 0 left 1 right 2 nonassoc
TPrec(t) == C.tprec[t + 1]
PPrec(p) == C.pprec[p + 1]
HasPrec(pr) == pr[1] >= 0

\* Production precedence as Yacc defines it, given the token precedences and %prec overrides
\* (used by C10; the table is built from what the grammar object reports).

CellReds(a, s, t) == Reductions(ClosedOf(a, s), t)

\* Action values: <<"s", state>> | <<"r", prod>> | <<"a", 0>> | <<"e", 0>>
\* Yacc's rules for one cell.  Result record:
\*   [act, sr : set of prods default-resolved against the shift, rrloser : set of prods that
\*    lost a reduce/reduce default resolution, arconf : accept/reduce conflict]
YaccCell(a, s, t) ==
  LET reds  == CellReds(a, s, t)
      shift == IsToken(t) /\ HasEdge(a, s, t)
      win   == IF reds = {} THEN -1 ELSE Min(reds)          \* earlier production wins
      isacc(p) == p = StartProd /\ t = EOF
      arconf == \E p \in reds : isacc(p) /\ Cardinality(reds) > 1
      redact == IF win = -1 THEN <<"e", 0>>
                ELSE IF isacc(win) THEN <<"a", 0>> ELSE <<"r", win>>
      tp == TPrec(t)
      pp == IF win = -1 THEN <<-1, -1>> ELSE PPrec(win)
  IN IF ~shift THEN [act |-> redact, sr |-> {}, rrloser |-> reds \ {win}, arconf |-> arconf]
     ELSE IF win = -1 THEN [act |-> <<"s", EdgeTo(a, s, t)>>, sr |-> {}, rrloser |-> {}, arconf |-> FALSE]
     ELSE \* shift/reduce
       LET sh == <<"s", EdgeTo(a, s, t)>> IN
       IF ~HasPrec(tp) \/ ~HasPrec(pp)
       THEN [act |-> sh, sr |-> {win}, rrloser |-> reds \ {win}, arconf |-> arconf]
       ELSE IF tp[1] > pp[1] THEN [act |-> sh, sr |-> {}, rrloser |-> reds \ {win}, arconf |-> arconf]
       ELSE IF tp[1] < pp[1] THEN [act |-> redact, sr |-> {}, rrloser |-> reds \ {win}, arconf |-> arconf]
       ELSE [act |-> (CASE tp[2] = 0 -> redact [] tp[2] = 1 -> sh [] OTHER -> <<"e", 0>>),
             sr |-> {}, rrloser |-> reds \ {win}, arconf |-> arconf]

\* The whole table the automaton determines.
YaccAct(a, s, t) == YaccCell(a, s, t).act
YaccGoto(a, s, r) == IF HasEdge(a, s, RSym(r)) THEN EdgeTo(a, s, RSym(r)) ELSE -1
YaccSR(a) == UNION { UNION { { <<t, p, s>> : p \in YaccCell(a, s, t).sr } : t \in Tokens } : s \in 0 .. a.n - 1 }
\* reduce/reduce: per cell the set of losers (each reported once, paired with a smaller production)
YaccRRLosers(a) == UNION { UNION { { <<t, p, s>> : p \in YaccCell(a, s, t).rrloser } : t \in Tokens } : s \in 0 .. a.n - 1 }
AcceptReduceConflict(a) == \E s \in 0 .. a.n - 1 : \E t \in Tokens : YaccCell(a, s, t).arconf

(***************************************************************************)
(* Views over a table T = [act : Seq(Seq(action)), goto : Seq(Seq(Int))]   *)
(***************************************************************************)
TAct(T, s, t)  == T.act[s + 1][t + 1]
TGoto(T, s, r) == T.goto[s + 1][r + 1]
ViewStateActions(T, s) == {t \in Tokens : TAct(T, s, t)[1] # "e"}
ViewStateShifts(T, s)  == {t \in Tokens : TAct(T, s, t)[1] = "s"}
RedProds(T, s)         == {TAct(T, s, t)[2] : t \in {u \in Tokens : TAct(T, s, u)[1] = "r"}}
RuleLen(p)             == <<Lhs(p), PLen(p)>>
\* core_reduces: one production per distinct (rule, length) among the reductions, nothing else
CoreReducesOK(T, s, cr) ==
  /\ cr \subseteq RedProds(T, s)
  /\ \A p \in RedProds(T, s) : \E q \in cr : RuleLen(q) = RuleLen(p)
  /\ \A p, q \in cr : RuleLen(p) = RuleLen(q) => p = q
ViewReduceOnly(T, s) ==
  /\ ViewStateActions(T, s) # {}
  /\ \A t \in ViewStateActions(T, s) : TAct(T, s, t)[1] = "r"
  /\ Cardinality({RuleLen(p) : p \in RedProds(T, s)}) = 1

(***************************************************************************)
(* ALGORITHM layer: how statetable.rs fills one cell, one candidate at a   *)
(* time (reductions in item-iteration order, then the shift edge).         *)
(*   cell = [act, rr : set of <<winner, loser>>, sr : set of prods, err]   *)
(***************************************************************************)
EmptyCell == [act |-> <<"e", 0>>, rr |-> {}, sr |-> {}, err |-> FALSE, sa |-> FALSE]
AddReduce(cell, p, t) ==
  LET isacc == p = StartProd /\ t = EOF IN
  CASE cell.act[1] = "r" ->
         IF isacc THEN [cell EXCEPT !.err = TRUE, !.sa = TRUE]
         ELSE IF p < cell.act[2] THEN [cell EXCEPT !.act = <<"r", p>>, !.rr = @ \cup {<<p, cell.act[2]>>}, !.sa = TRUE]
         ELSE IF p > cell.act[2] THEN [cell EXCEPT !.rr = @ \cup {<<cell.act[2], p>>}, !.sa = TRUE]
         ELSE [cell EXCEPT !.sa = TRUE]
    [] cell.act[1] = "a" -> [cell EXCEPT !.err = TRUE, !.sa = TRUE]
    [] OTHER -> [cell EXCEPT !.act = (IF isacc THEN <<"a", 0>> ELSE <<"r", p>>), !.sa = TRUE]
AddShift(cell, t, tgt) ==
  CASE cell.act[1] = "r" ->
         LET p == cell.act[2]  tp == TPrec(t)  pp == PPrec(p)  sh == <<"s", tgt>> IN
         IF ~HasPrec(tp) \/ ~HasPrec(pp) THEN [cell EXCEPT !.act = sh, !.sr = @ \cup {p}, !.sa = TRUE]
         ELSE IF tp[1] > pp[1] THEN [cell EXCEPT !.act = sh, !.sa = TRUE]
         ELSE IF tp[1] < pp[1] THEN [cell EXCEPT !.sa = TRUE]
         ELSE [cell EXCEPT !.act = (CASE tp[2] = 0 -> cell.act [] tp[2] = 1 -> sh [] OTHER -> <<"e", 0>>),
                           !.sa = TRUE]
    [] OTHER -> [cell EXCEPT !.act = <<"s", tgt>>, !.sa = TRUE]
=============================================================================
