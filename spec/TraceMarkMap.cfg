SPECIFICATION Spec
CONSTANTS
  Keys = {0, 1, 2}
  NoVal = 99
INVARIANT Consumed
CHECK_DEADLOCK FALSE
