------------------------------ MODULE TraceNLC ------------------------------
(* Trace specification for NewlineCache (C19): consumes begin / feed / answers events recorded
   from the real cache.  `feed' must be the Feed action with exactly the logged successor state;
   `answers' is checked against the MEANING layer at every offset and span - including the
   rendering of every span by the diagnostics formatter (Diagnostics.tla). *)
EXTENDS Diagnostics, Json, IOUtils
Rec == ndJsonDeserialize(IOEnv.TRACE)
VARIABLES l, inst, ndev
tvars == <<l, inst, ndev, text, newlines, trailing, feeds>>

Report(S) == \A d \in S : PrintT(<<"DEV", "C19", inst, l, d[1], d[2]>>)
IfDev(c, code, detail) == IF c THEN {} ELSE { <<code, detail>> }

AnswerDevs(e) ==
  UNION { IfDev(e.line[o + 1] = Line(o), "byte_to_line_num", <<o, e.line[o + 1], Line(o)>>)
          \cup IfDev(e.lb[o + 1] = LineStartOf(o), "byte_to_line_byte", <<o, e.lb[o + 1], LineStartOf(o)>>)
          \cup IfDev(e.lc[o + 1] = <<Line(o), Col(o)>>, "byte_to_line_num_and_col_num", <<o, e.lc[o + 1], <<Line(o), Col(o)>> >>)
          : o \in Boundaries }
  \cup IfDev(e.line[Len(text) + 2] = -1 /\ e.lb[Len(text) + 2] = -1 /\ e.lc[Len(text) + 2] = <<-1, -1>>,
             "offset beyond the text not refused", Len(text) + 1)
  \cup UNION { LET sp == e.spans[i]  s == sp[1]  en == sp[2]  m == SpanLines(s, en) IN
               IfDev(<<sp[3], sp[4]>> = m, "span_line_bytes", <<s, en, <<sp[3], sp[4]>>, m>>)
               \cup IfDev(<<sp[5], sp[6], sp[7], sp[8]>> = <<Line(s), Col(s), Line(en), Col(en)>>, "lexer line_col", <<s, en>>)
               \cup IfDev(<<sp[9], sp[10]>> = m, "lexer span_lines_str", <<s, en, <<sp[9], sp[10]>>, m>>)
               \cup IfDev(<<sp[11], sp[12]>> = <<Line(s), Col(s)>>, "error pretty-printer position", <<s, en, <<sp[11], sp[12]>> >>)
               \cup IfDev(<<sp[13], sp[14], sp[15], sp[16]>> = <<Line(s), Col(s), Line(en), Col(en)>>, "line_col of a lexer produced by lrlex (also after a lexing error)", <<s, en, <<sp[13], sp[14], sp[15], sp[16]>> >>)
               \cup IfDev(<<sp[17], sp[18]>> = m, "span_lines_str of a lexer produced by lrlex", <<s, en, <<sp[17], sp[18]>>, m>>)
               \cup IfDev(<<sp[19], sp[20]>> = <<Line(s), Col(s)>>, "diagnostics file:line:col", <<s, en, <<sp[19], sp[20]>> >>)
               \cup (LET rd == Render(s, en) IN IfDev(sp[21] = rd, "diagnostics rendering of the span (line numbers, lines, indentation, underline, message)", <<s, en, sp[21], rd>>))
               : i \in 1 .. Len(e.spans) }

Init == l = 1 /\ inst = "" /\ ndev = 0 /\ NLInit
Next ==
  /\ l <= Len(Rec) /\ l' = l + 1
  /\ LET e == Rec[l] IN
     CASE e.ev = "begin" ->
            /\ inst' = e.id /\ text' = <<>> /\ newlines' = <<0>> /\ trailing' = 0 /\ feeds' = 0 /\ UNCHANGED ndev
       [] e.ev = "feed" ->
            \* the Feed action of the specification; then compare with the logged state and adopt it
            /\ \E bs \in {e.bytes} : text' = text \o bs /\ feeds' = feeds + 1
            /\ LET r == FeedScan(e.bytes, 1, FeedLen, newlines, trailing)
                   ds == IfDev(e.newlines = r[1] /\ e.trailing = r[2], "state after feed", <<e.newlines, e.trailing, r>>) IN
               /\ Report(ds) /\ ndev' = ndev + Cardinality(ds)
               /\ newlines' = e.newlines /\ trailing' = e.trailing
            /\ UNCHANGED inst
       [] OTHER ->
            /\ LET ds == AnswerDevs(e) IN Report(ds) /\ ndev' = ndev + Cardinality(ds)
            /\ UNCHANGED <<inst, text, newlines, trailing, feeds>>
Spec == Init /\ [][Next]_tvars
Consumed == (l = Len(Rec) + 1) => PrintT(<<"DONE", Len(Rec), ndev>>)
=============================================================================
