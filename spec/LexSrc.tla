------------------------------- MODULE LexSrc -------------------------------
(***************************************************************************)
(* From a .l source DOCUMENT to the lexer definition (C11).                *)
(*                                                                         *)
(* document = [states : Seq([name, excl, s, e]),                           *)
(*             rules  : Seq([name, named, ns, ne, re : Seq(code point),    *)
(*                           states : Seq(name), op, tgt, ...]),           *)
(*             posix  : BOOLEAN (the posix_escapes flag in force)]         *)
(* LexerDefOf gives, per rule, its name (or none for skip rules), the ids  *)
(* of the start states it is restricted to, its target operation, and the  *)
(* regular expression handed to the regex engine: the written one with lex *)
(* escapes resolved (Unescape).  Start states are numbered in declaration  *)
(* order after INITIAL = 0.                                                *)
(***************************************************************************)
EXTENDS Naturals, Integers, Sequences, FiniteSets, TLC, FiniteSetsExt, SequencesExt

BSL == 92     \* backslash
\* characters that are special to the regex engine (regex_syntax::is_meta_character)
Meta == {92, 46, 43, 42, 63, 40, 41, 124, 91, 93, 123, 125, 94, 36, 35, 38, 45, 126}
IsHex(c) == (c >= 48 /\ c <= 57) \/ (c >= 65 /\ c <= 70) \/ (c >= 97 /\ c <= 102)
IsDigit(c) == c >= 48 /\ c <= 57
\* escapes that lex / the regex engine give a meaning of their own ("Escape sequences in lex"):
\* \x \u \U + hex digit, \digit, \a \f \n \r \t \v \\, \p \P, \d \D \s \S \w \W, \A \z
LexEscape(cs, i) ==      \* the escape whose letter is at position i
  LET c == cs[i] IN
  \/ (c \in {120, 117, 85} /\ i < Len(cs) /\ IsHex(cs[i + 1]))
  \/ IsDigit(c)
  \/ c \in {97, 102, 110, 114, 116, 118, 92}
  \/ c \in {112, 80}
  \/ c \in {100, 68, 115, 83, 119, 87}
  \/ c \in {65, 122}

\* A backslash before a character that is special neither to lex nor to the regex engine stands
\* for that character itself; \b is a backspace for POSIX lex and a word boundary otherwise.
RECURSIVE Unescape(_, _, _)
Unescape(cs, i, posix) ==
  IF i > Len(cs) THEN <<>>
  ELSE IF cs[i] = BSL /\ i < Len(cs) THEN
         LET c == cs[i + 1] IN
         IF c = 98 THEN (IF posix THEN <<92, 120, 48, 56>> ELSE <<92, 98>>) \o Unescape(cs, i + 2, posix)
         ELSE IF c \in Meta \/ LexEscape(cs, i + 1) THEN <<92, c>> \o Unescape(cs, i + 2, posix)
         ELSE <<c>> \o Unescape(cs, i + 2, posix)
  ELSE <<cs[i]>> \o Unescape(cs, i + 1, posix)

StateId(doc, name) == IF name = "INITIAL" THEN 0 ELSE CHOOSE i \in 1 .. Len(doc.states) : doc.states[i].name = name

IfDevL(c, code, detail) == IF c THEN {} ELSE { <<code, detail>> }
\* deviations of an observed definition (harness lex.rs `lexdef' event) from LexerDefOf(doc)
LDevs(doc, obs) ==
  IfDevL(Len(obs.rules) = Len(doc.rules), "number of rules", <<Len(obs.rules), Len(doc.rules)>>)
  \cup IfDevL(Len(obs.states) = Len(doc.states) + 1, "number of start states", <<Len(obs.states), Len(doc.states) + 1>>)
  \cup (IF Len(obs.rules) # Len(doc.rules) \/ Len(obs.states) # Len(doc.states) + 1 THEN {} ELSE
    UNION { LET d == doc.rules[i]  o == obs.rules[i] IN
            IfDevL(o.named = d.named /\ o.name = d.name, "rule name (none for skip rules), source order", <<i - 1, o.name, d.name>>)
            \cup IfDevL(o.states = [k \in 1 .. Len(d.states) |-> StateId(doc, d.states[k])], "start states the rule is restricted to", <<i - 1, o.states>>)
            \cup IfDevL(o.op = d.op /\ (d.op = 0 \/ o.tgt = StateId(doc, d.tgt)), "target-state operation", <<i - 1, o.op, o.tgt>>)
            \cup IfDevL(o.re_cp = Unescape(d.re, 1, doc.posix), "regular expression # written one with lex escapes resolved", <<i - 1, d.re, o.re_cp, Unescape(d.re, 1, doc.posix)>>)
            \cup IfDevL(o.name_span = <<d.ns, d.ne>>, "rule name span # the text the user wrote", <<i - 1, o.name_span, <<d.ns, d.ne>> >>)
            : i \in 1 .. Len(doc.rules) }
    \cup IfDevL(obs.states[1].id = 0 /\ obs.states[1].name = "INITIAL" /\ ~obs.states[1].excl, "INITIAL start state", obs.states[1])
    \cup UNION { LET d == doc.states[i]  o == obs.states[i + 1] IN
                 IfDevL(o.id = i /\ o.name = d.name /\ o.excl = d.excl, "declared start state (id, name, kind)", <<i, o.name, o.excl>>)
                 \cup IfDevL(o.span = <<d.s, d.e>>, "start state span # the text the user wrote", <<i, o.span, <<d.s, d.e>> >>)
                 : i \in 1 .. Len(doc.states) })
=============================================================================
