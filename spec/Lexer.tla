-------------------------------- MODULE Lexer --------------------------------
(***************************************************************************)
(* The lrlex runtime lexer (C09): longest match, earliest rule on ties,    *)
(* start states with a run-length encoded stack, skip rules, one error.    *)
(*                                                                         *)
(* A lexer definition is                                                   *)
(*   [rules : Seq([named, tok, states : set of ids, op, tgt]),             *)
(*    excl  : function start-state id -> BOOLEAN]                          *)
(* op: 0 none, 1 replace the stack, 2 push, 3 pop.  What a rule's regular  *)
(* expression matches is ENVIRONMENT: m[pos][r] is the length of rule r's  *)
(* match at byte offset pos (0 = no match), a function the bounded model   *)
(* chooses arbitrarily and the trace supplies from the regex engine.       *)
(***************************************************************************)
EXTENDS Naturals, Integers, Sequences, FiniteSets, TLC, FiniteSetsExt, SequencesExt

VARIABLES lpos,    \* current byte offset
          lstack,  \* Seq(<<count, state id>>), top at the end
          lout,    \* lexemes <<tok, start, len>> produced so far
          lerr,    \* -1, or the offset of the lexing error (lexing has stopped)
          lgaps    \* skipped stretches <<start, len>> (ghost: for the tiling property)
lvars == <<lpos, lstack, lout, lerr, lgaps>>

LexInit == lpos = 0 /\ lstack = << <<1, 0>> >> /\ lout = <<>> /\ lerr = -1 /\ lgaps = <<>>

Top(st) == st[Len(st)]
Active(def, sid, r) == IF def.rules[r].states = {} THEN ~def.excl[sid] ELSE sid \in def.rules[r].states

\* the stack operation of a rule, exactly as coded
ApplyOp(st, op, tgt) ==
  CASE op = 1 -> << <<1, tgt>> >>
    [] op = 2 -> IF Top(st)[2] = tgt THEN [st EXCEPT ![Len(st)] = <<Top(st)[1] + 1, tgt>>]
                 ELSE Append(st, <<1, tgt>>)
    [] op = 3 -> IF Top(st)[1] > 1 THEN [st EXCEPT ![Len(st)] = <<Top(st)[1] - 1, Top(st)[2]>>]
                 ELSE (IF Len(st) = 1 THEN << <<1, 0>> >> ELSE SubSeq(st, 1, Len(st) - 1))
    [] OTHER -> st

\* the rule the lexer picks at pos: longest non-empty match among the active rules, earliest
\* rule on ties; 0 if none
Pick(def, m, pos, sid) ==
  LET act == {r \in 1 .. Len(def.rules) : Active(def, sid, r) /\ m[pos][r] > 0}
  IN IF act = {} THEN 0
     ELSE LET best == Max({m[pos][r] : r \in act}) IN Min({r \in act : m[pos][r] = best})

LexStep(def, m, len) ==
  /\ lerr = -1 /\ lpos < len
  /\ LET sid == Top(lstack)[2]
         r == Pick(def, m, lpos, sid)
     IN IF r = 0 THEN lerr' = lpos /\ UNCHANGED <<lpos, lstack, lout, lgaps>>
        ELSE LET ru == def.rules[r]  n == m[lpos][r] IN
             IF ru.named /\ ru.tok < 0
             THEN lerr' = lpos /\ UNCHANGED <<lpos, lstack, lout, lgaps>>
             ELSE /\ lout' = (IF ru.named THEN Append(lout, <<ru.tok, lpos, n>>) ELSE lout)
                  /\ lgaps' = (IF ru.named THEN lgaps ELSE Append(lgaps, <<lpos, n>>))
                  /\ lstack' = ApplyOp(lstack, ru.op, ru.tgt)
                  /\ lpos' = lpos + n /\ UNCHANGED lerr
LexDone(len) == lerr # -1 \/ lpos >= len

\* MEANING: properties of any run
\* lexemes and skipped stretches, merged, tile [0, lpos) contiguously and in order
Tiles ==
  LET all == SetToSortSeq(ToSet(lout) \cup {<<-1, g[1], g[2]>> : g \in ToSet(lgaps)}, LAMBDA a, b : a[2] < b[2])
  IN /\ Len(all) = Len(lout) + Len(lgaps)
     /\ \A i \in 1 .. Len(all) : all[i][3] > 0 /\ all[i][2] = (IF i = 1 THEN 0 ELSE all[i - 1][2] + all[i - 1][3])
     /\ lpos = (IF all = <<>> THEN 0 ELSE all[Len(all)][2] + all[Len(all)][3])
InOrder == \A i \in 1 .. Len(lout) - 1 : lout[i][2] + lout[i][3] <= lout[i + 1][2]
ErrAtStop(def, m) ==
  lerr # -1 => /\ lerr = lpos
               /\ LET sid == Top(lstack)[2]  r == Pick(def, m, lpos, sid) IN
                  r = 0 \/ (def.rules[r].named /\ def.rules[r].tok < 0)
StackOK == Len(lstack) >= 1 /\ \A i \in 1 .. Len(lstack) : lstack[i][1] >= 1

\* run to completion as a function (for traces): [out, err, pos]
RECURSIVE RunLex(_, _, _, _, _, _)
RunLex(def, m, len, pos, st, out) ==
  IF pos >= len THEN [out |-> out, err |-> -1, pos |-> pos]
  ELSE LET sid == Top(st)[2]  r == Pick(def, m, pos, sid) IN
       IF r = 0 THEN [out |-> out, err |-> pos, pos |-> pos]
       ELSE LET ru == def.rules[r]  n == m[pos][r] IN
            IF ru.named /\ ru.tok < 0 THEN [out |-> out, err |-> pos, pos |-> pos]
            ELSE RunLex(def, m, len, pos + n, ApplyOp(st, ru.op, ru.tgt),
                        IF ru.named THEN Append(out, <<ru.tok, pos, n>>) ELSE out)
=============================================================================
