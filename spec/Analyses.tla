------------------------------ MODULE Analyses ------------------------------
(***************************************************************************)
(* Sentence costs (min/max) and derivability: MEANING layer.               *)
(* (FIRST / FOLLOW / nullable / reachability live in Grammar.tla because   *)
(* the LR construction needs them.)                                        *)
(***************************************************************************)
EXTENDS Grammar

INF == 1000000

TokCost(costs, t) == costs[t + 1]

ProductiveProd(p) == \A i \in 1 .. PLen(p) : IsToken(Rhs(p)[i]) \/ RuleOf(Rhs(p)[i]) \in Productive

\* Minimum cost of a token string derived from each rule (INF for unproductive rules):
\* Bellman-Ford from INF.
RECURSIVE MinFix(_, _)
MinFix(costs, M) ==
  LET pc(p) == LET cs == [i \in 1 .. PLen(p) |->
                              IF IsToken(Rhs(p)[i]) THEN TokCost(costs, Rhs(p)[i])
                              ELSE M[RuleOf(Rhs(p)[i])]]
               IN IF \E i \in 1 .. PLen(p) : cs[i] >= INF THEN INF
                  ELSE FoldLeft(LAMBDA a, b : a + b, 0, cs)
      M2 == TLCEval([r \in Rules |-> Min({M[r]} \cup {pc(p) : p \in ProdsOf(r)})])
  IN IF M2 = M THEN M ELSE MinFix(costs, M2)
MinCost(costs) == MinFix(costs, [r \in Rules |-> INF])

(***************************************************************************)
(* ALGORITHM layer: rule_min_costs as coded (grammar.rs).  costs[i] starts *)
(* at 0 and rises; done[i] fixes it.  Rules are visited in index order and *)
(* updated in place, so later rules of a round see earlier updates.  The   *)
(* loop only ends when every rule is done: a round that changes nothing    *)
(* while some rule is not done repeats forever ("stuck").                  *)
(***************************************************************************)
MinAlgRule(costs, st, i) ==
  IF st.d[i] THEN st
  ELSE LET pc(p)  == FoldLeft(LAMBDA a, b : a + b, 0,
                              [k \in 1 .. PLen(p) |-> IF IsToken(Rhs(p)[k]) THEN TokCost(costs, Rhs(p)[k])
                                                      ELSE st.c[RuleOf(Rhs(p)[k])]])
           cm(p)  == \A k \in 1 .. PLen(p) : IsToken(Rhs(p)[k]) \/ st.d[RuleOf(Rhs(p)[k])]
           cs     == {pc(p) : p \in {q \in ProdsOf(i) : cm(q)}}
           ns     == {pc(p) : p \in {q \in ProdsOf(i) : ~cm(q)}}
       IN IF cs # {} /\ (ns = {} \/ Min(cs) < Min(ns))
          THEN [c |-> [st.c EXCEPT ![i] = Min(cs)], d |-> [st.d EXCEPT ![i] = TRUE]]
          ELSE IF ns # {} THEN [c |-> [st.c EXCEPT ![i] = Min(ns)], d |-> st.d]
          ELSE st
RECURSIVE MinAlgRound(_, _, _)
MinAlgRound(costs, st, i) == IF i = C.nr THEN st ELSE MinAlgRound(costs, MinAlgRule(costs, st, i), i + 1)
RECURSIVE MinAlgLoop(_, _, _)
MinAlgLoop(costs, st, fuel) ==
  IF \A r \in Rules : st.d[r] THEN [status |-> "ok", c |-> st.c]
  ELSE LET st2 == MinAlgRound(costs, st, 0) IN
       IF st2 = st THEN [status |-> "stuck", c |-> st.c]
       ELSE IF fuel = 0 \/ \E r \in Rules : st2.c[r] > 65535 THEN [status |-> "overflow", c |-> st2.c]
       ELSE MinAlgLoop(costs, st2, fuel - 1)
MinCostAlg(costs) == MinAlgLoop(costs, [c |-> [r \in Rules |-> 0], d |-> [r \in Rules |-> FALSE]], 300)

\* Maximum cost: longest "path" over productive productions with positive-cycle detection.
\* M[r] = -1 means "no derivation found yet".
CAP == 100000000      \* values saturate here (costs on a token-gaining cycle grow without bound)
MaxRound(costs, M) ==
  LET pc(p) == LET cs == [i \in 1 .. PLen(p) |->
                              IF IsToken(Rhs(p)[i]) THEN TokCost(costs, Rhs(p)[i])
                              ELSE M[RuleOf(Rhs(p)[i])]]
               IN IF \E i \in 1 .. PLen(p) : cs[i] < 0 THEN -1
                  ELSE FoldLeft(LAMBDA a, b : IF a + b > CAP THEN CAP ELSE a + b, 0, cs)     \* saturating
  IN [r \in Rules |-> Max({M[r]} \cup {pc(p) : p \in {q \in ProdsOf(r) : ProductiveProd(q)}})]
RECURSIVE MaxIter(_, _, _)
MaxIter(costs, M, k) ==
  \* (the comparison also forces TLC to evaluate the lazily built function M2 once)
  IF k = 0 THEN M
  ELSE LET M2 == TLCEval(MaxRound(costs, M)) IN IF M2 = M THEN M ELSE MaxIter(costs, M2, k - 1)
\* result: function rule -> cost, with -1 = unbounded and -2 = unproductive (no string at all)
MaxCost(costs) ==
  LET n  == C.nr
      M1 == MaxIter(costs, [r \in Rules |-> -1], 2 * n + 2)
      M2 == MaxIter(costs, M1, n + 1)
  IN [r \in Rules |-> IF r \notin Productive THEN -2
                      ELSE IF M2[r] > M1[r] \/ M1[r] >= CAP THEN -1 ELSE M1[r]]

\* Does rule r derive exactly the token string w?  CYK-style least fixed point over the spans of
\* w (finite, so cycles in the grammar are harmless): D[r] = set of <<i, j>> such that r derives
\* w[i+1 .. j].
RECURSIVE SeqEnds(_, _, _, _, _)
SeqEnds(D, w, rhs, k, i) ==      \* positions reachable from i by deriving rhs[k ..]
  IF k > Len(rhs) THEN {i}
  ELSE IF IsToken(rhs[k]) THEN
         (IF i < Len(w) /\ w[i + 1] = rhs[k] THEN SeqEnds(D, w, rhs, k + 1, i + 1) ELSE {})
  ELSE UNION { SeqEnds(D, w, rhs, k + 1, sp[2]) : sp \in {x \in D[RuleOf(rhs[k])] : x[1] = i} }
RECURSIVE SpanFix(_, _)
SpanFix(D, w) ==
  LET D2 == TLCEval([r \in Rules |-> D[r] \cup UNION { UNION { { <<i, j>> : j \in SeqEnds(D, w, Rhs(p), 1, i) }
                                                       : i \in 0 .. Len(w) } : p \in ProdsOf(r) }])
  IN IF D2 = D THEN D ELSE SpanFix(D2, w)
Derives(r, w) == <<0, Len(w)>> \in SpanFix([x \in Rules |-> {}], w)[r]

SeqCost(costs, w) == FoldLeft(LAMBDA a, b : a + b, 0, [i \in 1 .. Len(w) |-> TokCost(costs, w[i])])
=============================================================================
