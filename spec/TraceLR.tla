------------------------------ MODULE TraceLR ------------------------------
(***************************************************************************)
(* Trace specification for the grammar -> analyses -> Pager -> table ->    *)
(* parse pipeline.  It consumes, line by line, the NDJSON file the harness *)
(* recorded from the real crates (IOEnv.TRACE).  Every line is one step:   *)
(*   reset / grammar / analyses / pick exact merge new pregc / graph /     *)
(*   table / table_err / parse                                             *)
(* Pager events are replayed through the actions of Pager.tla; the other   *)
(* lines carry the implementation's projected state, on which the meaning  *)
(* layer (LR1, StateTable, LRParse, CPCTPlus) is evaluated.                *)
(*                                                                         *)
(* A deviation never blocks the trace: it is printed as a DEV tuple (the   *)
(* runner turns these into VIOLATION / KNOWN-FINDING lines), the           *)
(* implementation's reported state is adopted and the rest is checked.     *)
(* Acceptance is by postcondition: all lines consumed.                     *)
(***************************************************************************)
EXTENDS CPCTPlus, Json, IOUtils

Rec == ndJsonDeserialize(IOEnv.TRACE)

VARIABLES l,      \* next line to consume
          inst,   \* id of the current instance
          X,      \* oracle cache for the current grammar: canonical LR(1) collection etc.
          A,      \* the implementation's state graph (as an automaton record)
          T,      \* the implementation's state table
          pg,     \* "idle" | "run" | "done" | "off": state of the Pager replay
          last,   \* kind of the previous event of this instance
          ndev    \* number of deviations so far

tvars == <<l, inst, C, X, A, T, pg, last, ndev, core, closed, isc, edges, cnd, todo_off, pending, cur>>

On(flag) == flag \in DOMAIN IOEnv /\ IOEnv[flag] = "1"
MaxC == IF "MAXC" \in DOMAIN IOEnv THEN atoi(IOEnv.MAXC) ELSE 6
LangL == IF "LANGL" \in DOMAIN IOEnv THEN atoi(IOEnv.LANGL) ELSE 5

\* ---------------------------------------------------------------------------------------------
\* conversions from the JSON shapes
ItemsOf(js) == UNION { { <<it[1], it[2], t>> : t \in ToSet(it[3]) } : it \in ToSet(js) }
EdgeFun(es) == [s \in {pr[1] : pr \in ToSet(es)} |-> (CHOOSE pr \in ToSet(es) : pr[1] = s)[2]]
GraphOf(e) == [n |-> e.n, start |-> e.start,
               core   |-> [i \in 1 .. Len(e.states) |-> ItemsOf(e.states[i].core)],
               closed |-> [i \in 1 .. Len(e.states) |-> ItemsOf(e.states[i].closed)],
               edges  |-> [i \in 1 .. Len(e.states) |-> EdgeFun(e.states[i].edges)]]
SeqToSet(s) == ToSet(s)

\* deviations are tuples <<property, code, detail>>
Report(S) == \A d \in S : PrintT(<<"DEV", d[1], inst, l, d[2], d[3]>>)
D(p, code, detail) == { <<p, code, detail>> }
IfDev(cond, p, code, detail) == IF cond THEN {} ELSE D(p, code, detail)

\* ---------------------------------------------------------------------------------------------
\* grammar
\* (the canonical LR(1) collection can be large; it is only built for the checks that use it)
NeedCanon == On("CHK_C01") \/ On("CHK_C02") \/ On("CHK_C04")
MkX == IF NeedCanon
       THEN LET canon == Canon  cc == CanonClosures(canon) IN
            [canon |-> canon, cc |-> cc,
             islr1 |-> \A k \in canon : ~ConflictIn(cc[k]),
             cyclic |-> Cyclic, allprod |-> AllProductive]
       ELSE [canon |-> { {} }, cc |-> <<>>, islr1 |-> FALSE, cyclic |-> Cyclic, allprod |-> AllProductive]

\* ---------------------------------------------------------------------------------------------
\* C17: analyses
CostDevs(e) ==
  LET co == e
      known == ~X.allprod \/ MinCostAlg(e.costs).status # "ok"
  IN IF co.status # "ok"
     THEN (IF known THEN D("C17", "KF:cost-nonreturn", co.status) ELSE D("C17", "cost query " \o co.status, 0))
     ELSE
       LET mc == MinCost(e.costs)  xc == MaxCost(e.costs) IN
       UNION {
         (IF r \in Productive /\ co.min[r + 1] # mc[r] THEN D("C17", "min_sentence_cost", <<r, co.min[r + 1], mc[r]>>) ELSE {})
         \cup
         (IF r \in Productive /\ co.max[r + 1] # xc[r]
          THEN (IF co.max[r + 1] = -1 /\ \E x \in {r} \cup ReachFrom(r) : x \in ReachFrom(x)
                THEN D("C17", "KF:max-recursive", <<r, xc[r]>>)
                ELSE D("C17", "max_sentence_cost", <<r, co.max[r + 1], xc[r]>>))
          ELSE {})
         \cup
         (IF r \in Productive /\ ~(Derives(r, co.minsent[r + 1]) /\ SeqCost(e.costs, co.minsent[r + 1]) = mc[r])
          THEN D("C17", "min_sentence", <<r, co.minsent[r + 1]>>) ELSE {})
         \cup
         (IF r \in Productive /\ \E i \in 1 .. Len(co.minsents[r + 1].sents) :
                LET w == co.minsents[r + 1].sents[i] IN ~(Derives(r, w) /\ SeqCost(e.costs, w) = mc[r])
          THEN D("C17", "min_sentences", r) ELSE {})
         : r \in Rules }

AnalysesDevs(e) ==
  LET fo == Follow IN
  UNION {
    IfDev(e.nullable[r + 1] = (r \in Nullable), "C17", "nullable", r)
    \cup IfDev(SeqToSet(e.first[r + 1]) = First(r), "C17", "first", <<r, e.first[r + 1], First(r)>>)
    \cup IfDev(SeqToSet(e.follow[r + 1]) = fo[r], "C17", "follow", <<r, e.follow[r + 1], fo[r]>>)
    \cup IfDev(SeqToSet(e.path[r + 1]) = ReachFrom(r), "C17", "has_path", <<r, e.path[r + 1], ReachFrom(r)>>)
    : r \in Rules }

\* ---------------------------------------------------------------------------------------------
\* graph: C16 (closure, reachability), C01 certificate, C02 (minimisation)
RECURSIVE ReachA(_, _, _)
ReachA(a, seen, todo) ==
  IF todo = {} THEN seen
  ELSE LET nxt == UNION { { EdgeTo(a, s, x) : x \in DOMAIN EdgesOf(a, s) } : s \in todo }
       IN ReachA(a, seen \cup todo, nxt \ (seen \cup todo))
States(a) == 0 .. a.n - 1

GraphShapeOK(a) ==
  /\ a.n >= 1 /\ Len(a.core) = a.n /\ a.start \in States(a)
  /\ \A s \in States(a) :
        /\ \A it \in a.core[s + 1] \cup a.closed[s + 1] :
              it[1] \in Prods /\ it[2] \in 0 .. PLen(it[1]) /\ it[3] \in Tokens
        /\ \A x \in DOMAIN EdgesOf(a, s) : EdgeTo(a, s, x) \in States(a)

C16GraphDevs(a) ==
  IfDev(ReachA(a, {}, {a.start}) = States(a), "C16", "unreachable state", States(a) \ ReachA(a, {}, {a.start}))
  \cup UNION { IfDev(a.closed[s + 1] = Closure(a.core[s + 1]), "C16", "closed # Closure(core)", s) : s \in States(a) }

CertDevs(a) ==
  IfDev(<<StartProd, 0, EOF>> \in a.core[a.start + 1], "C01", "start item missing", 0)
  \cup UNION { IfDev(Closure(a.core[s + 1]) \subseteq a.closed[s + 1], "C01", "closure incomplete", s)
               : s \in States(a) }
  \cup UNION { LET I == a.closed[s + 1] IN
               IfDev(DOMAIN EdgesOf(a, s) = NextSyms(I), "C01", "edge symbols # symbols after dot", s)
               \cup UNION { IF HasEdge(a, s, x)
                            THEN LET g == Goto(I, x)  k == a.core[EdgeTo(a, s, x) + 1] IN
                                 IfDev(g \subseteq k /\ CoreOf(g) = CoreOf(k), "C01", "transition", <<s, x>>)
                            ELSE {} : x \in NextSyms(I) }
               : s \in States(a) }
  \cup UNION { LET k == a.core[s + 1]  up == LALRKernel(X.canon, CoreOf(k)) IN
               IfDev(k \subseteq up, "C01", "lookahead beyond LALR(1)", <<s, k \ up>>)
               : s \in States(a) }

C02GraphDevs(a) ==
  IfDev(a.n <= Cardinality(X.canon), "C02", "more states than canonical LR(1)", <<a.n, Cardinality(X.canon)>>)
  \cup (IF X.islr1 THEN UNION { IfDev(~ConflictIn(a.closed[s + 1]), "C02", "conflict in LR(1) grammar", s)
                                 : s \in States(a) } ELSE {})

PagerGraphDevs(a) ==
  IF pg # "done" THEN {}
  ELSE LET g == GCGraph IN
       IfDev(g.n = a.n, "C02", "gc: state count", <<g.n, a.n>>)
       \cup (IF g.n = a.n THEN
               UNION { IfDev(g.core[i] = a.core[i], "C02", "pager: kernel differs from model", i - 1)
                       \cup IfDev(g.closed[i] = a.closed[i], "C02", "pager: closed state differs from model", i - 1)
                       \cup IfDev(g.edges[i] = a.edges[i], "C02", "pager: edges differ from model", i - 1)
                       : i \in 1 .. a.n }
             ELSE {})

\* ---------------------------------------------------------------------------------------------
\* table: C03 (cells, conflicts), C16 (views)
TableShapeOK(a, t) ==
  /\ Len(t.act) = a.n /\ Len(t.goto) = a.n
  /\ \A s \in States(a) : Len(t.act[s + 1]) = C.nt /\ Len(t.goto[s + 1]) = C.nr

\* production precedence as Yacc defines it: that of the %prec token, else of the production's
\* last token (none if that token has none, or if there is no token)
ExpectedPPrec(e, p) ==
  LET rhs == e.prods[p + 1].rhs
      toks == {i \in 1 .. Len(rhs) : IsToken(rhs[i])}
  IN IF e.precname[p + 1] >= 0 THEN e.tprec[e.precname[p + 1] + 1]
     ELSE IF toks = {} THEN <<-1, -1>> ELSE e.tprec[rhs[Max(toks)] + 1]
PPrecDevs(e) ==
  IF "precname" \notin DOMAIN e THEN {}
  ELSE UNION { IfDev(e.pprec[p + 1] = ExpectedPPrec(e, p), "C03", "production precedence", <<p, e.pprec[p + 1], ExpectedPPrec(e, p)>>)
               : p \in 0 .. e.np - 1 }

C03TableDevs(a, t) ==
  UNION { UNION { IfDev(TAct(t, s, tk) = YaccAct(a, s, tk), "C03", "cell", <<s, tk, TAct(t, s, tk), YaccAct(a, s, tk)>>)
                  : tk \in Tokens } : s \in States(a) }
  \cup IfDev(SeqToSet(t.sr) = YaccSR(a) /\ Len(t.sr) = Cardinality(YaccSR(a)), "C03", "sr conflicts", <<t.sr, YaccSR(a)>>)
  \cup LET losers == { <<q[1], q[3], q[4]>> : q \in SeqToSet(t.rr) } IN
       IfDev(/\ losers = YaccRRLosers(a)
             /\ Len(t.rr) = Cardinality(losers)
             /\ \A q \in SeqToSet(t.rr) : q[2] < q[3] /\ q[2] \in CellReds(a, q[4], q[1]),
             "C03", "rr conflicts", <<t.rr, YaccRRLosers(a)>>)
  \cup IfDev(t.has_conflicts = (t.sr # <<>> \/ t.rr # <<>>), "C03", "conflicts() presence", 0)

C16TableDevs(a, t) ==
  UNION {
    IfDev(SeqToSet(t.sa[s + 1]) = ViewStateActions(t, s), "C16", "state_actions", <<s, t.sa[s + 1], ViewStateActions(t, s)>>)
    \cup IfDev(SeqToSet(t.ss[s + 1]) = ViewStateShifts(t, s), "C16", "state_shifts", <<s, t.ss[s + 1]>>)
    \cup IfDev(CoreReducesOK(t, s, SeqToSet(t.cr[s + 1])), "C16", "core_reduces", <<s, t.cr[s + 1]>>)
    \cup IfDev(t.ro[s + 1] = ViewReduceOnly(t, s), "C16", "reduce_only", s)
    \cup UNION { IfDev(TGoto(t, s, r) = YaccGoto(a, s, r), "C16", "goto # edge", <<s, r>>) : r \in Rules }
    \cup UNION { IF TAct(t, s, tk)[1] = "s"
                 THEN IfDev(HasEdge(a, s, tk) /\ EdgeTo(a, s, tk) = TAct(t, s, tk)[2], "C16", "shift # edge", <<s, tk>>)
                 ELSE {} : tk \in Tokens }
    : s \in States(a) }
  \cup IfDev(t.start = a.start, "C16", "start state", 0)

\* no cell of the automaton has more than one candidate action (truly conflict-free)
NoMultiCand(a) == \A s \in States(a) : ~ConflictIn(a.closed[s + 1])

\* ---------------------------------------------------------------------------------------------
\* parses
LexOf(e) == e.lexemes
ToksOf(e) == [i \in 1 .. Len(e.lexemes) |-> e.lexemes[i][1]]

\* compare the implementation's reduce events with the model's; `full' = with production and span
EvMatch(iev, mev, full) ==
  /\ Len(iev) = Len(mev)
  /\ \A i \in 1 .. Len(iev) :
        /\ iev[i].r = mev[i].r /\ iev[i].args = mev[i].args
        /\ full => (iev[i].p = mev[i].p /\ iev[i].span = mev[i].span /\ iev[i].param = 4242)
FirstEvDiff(iev, mev, full) ==
  LET n == Min({Len(iev), Len(mev)})
      bad == {i \in 1 .. n : ~( iev[i].r = mev[i].r /\ iev[i].args = mev[i].args /\
                                (full => (iev[i].p = mev[i].p /\ iev[i].span = mev[i].span)) )}
  IN IF bad = {} THEN <<"length", Len(iev), Len(mev)>> ELSE <<"event", Min(bad) - 1>>

ParseErrs(errs) == SelectSeq(errs, LAMBDA x : x.kind = "parse")

\* index of a real lexeme by its start offset; Len(lex) for the EOF lexeme
LexIdx(lex, lx) == IF lx[4] /\ lx[1] = EOF THEN Len(lex)
                   ELSE LET c == {i \in 1 .. Len(lex) : lex[i][2] = lx[2]} IN IF c = {} THEN -1 ELSE Min(c) - 1

\* the implementation's repair sequences in the specification's vocabulary
RepOf(seq) == [i \in 1 .. Len(seq) |-> IF seq[i][1] = "i" THEN <<"i", seq[i][2]>> ELSE <<seq[i][1], 0>>]

\* does the repair sequence, as reported (with lexemes), line up with the input at la?
RECURSIVE RepLexOK(_, _, _)
RepLexOK(lex, la, seq) ==
  IF seq = <<>> THEN TRUE
  ELSE LET r == Head(seq) IN
       IF r[1] = "i" THEN RepLexOK(lex, la, Tail(seq))
       ELSE la < Len(lex) /\ r[2] = lex[la + 1][1] /\ r[3] = lex[la + 1][2] /\ r[4] = lex[la + 1][3]
            /\ RepLexOK(lex, la + 1, Tail(seq))

\* the total cost of a reported sequence, by the tokens it names (inserted tokens and the
\* tokens of the lexemes it says it deletes)
RECURSIVE RepCostNamed(_, _)
RepCostNamed(costs, seq) ==
  IF seq = <<>> THEN 0
  ELSE LET r == Head(seq) IN
       (IF r[1] \in {"i", "d"} /\ r[2] >= 0 /\ r[2] < Len(costs) THEN Cost(costs, r[2]) ELSE 0) + RepCostNamed(costs, Tail(seq))

\* apply one repair sequence to a full configuration (apply_repairs + lr_upto)
RECURSIVE ApplyFull(_, _, _, _)
ApplyFull(t, lex, cfg, seq) ==
  IF seq = <<>> THEN cfg
  ELSE LET r == Head(seq) IN
       CASE r[1] = "d" -> ApplyFull(t, lex, [cfg EXCEPT !.la = cfg.la + 1], Tail(seq))
         [] r[1] = "i" -> LET nl == NextLexeme(lex, cfg.la)
                              pre == <<"t", r[2], nl[3], 0, TRUE>>
                              c2 == RunUpto(t, lex, cfg, cfg.la + 1, pre, Fuel(lex))
                          IN ApplyFull(t, lex, [c2 EXCEPT !.la = cfg.la], Tail(seq))
         [] OTHER      -> ApplyFull(t, lex, RunUpto(t, lex, cfg, cfg.la + 1, <<>>, Fuel(lex)), Tail(seq))

ContainsAvoid(seq) == \E i \in 1 .. Len(seq) : seq[i][1] = "i" /\ C.avoid[seq[i][2] + 1]
RankOK(reps) ==
  /\ \A i, j \in 1 .. Len(reps) : i < j =>
        /\ (ContainsAvoid(reps[i]) => ContainsAvoid(reps[j]))
        /\ (ContainsAvoid(reps[i]) = ContainsAvoid(reps[j]) => Len(reps[i]) <= Len(reps[j]))
        /\ reps[i] # reps[j]

\* Simulate a run with recovery.  `errs' are the implementation's parse errors (they supply the
\* one choice the specification leaves open: which of the equally ranked repairs is applied);
\* `hooks' are the recover_in / recover_out events.  Returns [cfg, devs].
RECURSIVE SimRec(_, _, _, _, _, _, _, _)
SimRec(t, e, cfg0, errs, hooks, k, devs, opt) ==
  LET lex == LexOf(e)  toks == ToksOf(e)
      cfg == Run(t, lex, cfg0, Fuel(lex))
      recovery == opt.recovery  wantreps == opt.wantreps
  IN IF cfg.st # "err" THEN
        [cfg |-> cfg, devs |-> devs \cup IfDev(k = Len(errs) + 1, "C07", "more errors reported than the parse meets", <<k, Len(errs)>>)]
     ELSE IF k > Len(errs) THEN
        [cfg |-> cfg, devs |-> devs \cup D("C07", "error not reported", cfg.la)]
     ELSE
       LET er == errs[k]
           exp_lx == NextLexeme(lex, cfg.la)
           d1 == IfDev(er.lexeme = <<exp_lx[2], exp_lx[3], exp_lx[4], exp_lx[5]>> /\ er.stidx = TopState(cfg),
                       "C04", "error lexeme / state", <<er.lexeme, er.stidx, exp_lx, TopState(cfg)>>)
           hin  == IF 2 * k - 1 <= Len(hooks) THEN hooks[2 * k - 1] ELSE [ev |-> "none"]
           hout == IF 2 * k <= Len(hooks) THEN hooks[2 * k] ELSE [ev |-> "none"]
           d2 == IF ~recovery \/ ~opt.hookchk THEN {} ELSE
                 IfDev(hin.ev = "recover_in" /\ hin.laidx = cfg.la /\ hin.pstack = cfg.ps /\ hin.spans = cfg.sp,
                       "C05", "recover_in state # model", <<hin, cfg.ps, cfg.la>>)
       IN IF ~recovery THEN
            [cfg |-> cfg, devs |-> devs \cup d1 \cup IfDev(er.repairs = <<>> /\ Len(errs) = k, "C04", "recovery off: one error, no repairs", k)]
          ELSE IF er.repairs = <<>> THEN
            \* nothing found: the parse stops here.  Was there really nothing (within the cap)?
            LET ref == IF wantreps THEN RefRepairs(t, toks, e.costs, cfg.ps, cfg.la, MaxC) ELSE [found |-> FALSE, capped |-> TRUE]
                timedout == hout.ev = "recover_out" /\ hout.budget_left_ms = 0
                d3 == IF ref.found /\ ~timedout THEN D("C06", "no repairs reported but repairs exist", <<cfg.la, ref.set>>)
                      ELSE IF ref.found /\ timedout THEN D("SKIP", "recovery budget exhausted", cfg.la) ELSE {}
            IN [cfg |-> cfg, devs |-> devs \cup d1 \cup d2 \cup d3 \cup IfDev(k = Len(errs), "C07", "error without repairs is not the last", k)]
          ELSE
            LET reps == [i \in 1 .. Len(er.repairs) |-> RepOf(er.repairs[i])]
                repset == SeqToSet(reps)
                ref == IF wantreps THEN RefRepairs(t, toks, e.costs, cfg.ps, cfg.la, MaxC) ELSE [found |-> FALSE, capped |-> TRUE, set |-> {}]
                d3 == IF ~wantreps THEN {}
                      ELSE IF ~ref.found THEN (IF ref.capped THEN D("SKIP", "reference search capped", cfg.la)
                                               ELSE D("C06", "repairs reported but none exist", <<cfg.la, repset>>))
                      ELSE IfDev(repset = ref.set, "C06", "repair set # reference", <<cfg.la, repset, ref.set>>)
                d4 == IF ~(On("CHK_C05") \/ On("CHK_C06")) THEN {} ELSE
                      UNION { IfDev(ValidRepair(t, toks, cfg.ps, cfg.la, reps[i]), "C05", "reported repair does not repair", <<cfg.la, reps[i]>>)
                              \cup IfDev(RepLexOK(lex, cfg.la, er.repairs[i]), "C05", "repair lexemes # input", <<cfg.la, er.repairs[i]>>)
                              \cup IfDev(Len(reps[i]) > 0 /\ reps[i][Len(reps[i])][1] # "s", "C06", "sequence empty or ends in shift", reps[i])
                              \cup IfDev(\A j \in 1 .. Len(reps[i]) : reps[i][j] # <<"i", EOF>>, "C06", "EOF inserted", reps[i])
                              \cup IfDev(SeqCostOf(toks, e.costs, cfg.la, reps[i]) = SeqCostOf(toks, e.costs, cfg.la, reps[1]),
                                         "C06", "unequal costs", <<reps[1], reps[i]>>)
                              \cup IfDev(RepCostNamed(e.costs, er.repairs[i]) = RepCostNamed(e.costs, er.repairs[1]),
                                         "C06", "unequal costs by the lexemes the sequences name", <<er.repairs[1], er.repairs[i]>>)
                              : i \in 1 .. Len(reps) }
                d5 == IF On("CHK_C06") THEN IfDev(RankOK(reps), "C06", "ranking / duplicates", reps) ELSE {}
                cfg2 == [ApplyFull(t, lex, [cfg EXCEPT !.st = "run"], reps[1]) EXCEPT !.st = "run"]
                d6 == IF ~opt.hookchk THEN {} ELSE IfDev(hout.ev = "recover_out" /\ hout.laidx = cfg2.la /\ hout.pstack = cfg2.ps /\ hout.spans = cfg2.sp,
                            "C05", "recover_out state # replay of first repair", <<hout, cfg2.ps, cfg2.la>>)
                d7 == IF k > 1 THEN LET prev == LexIdx(lex, <<errs[k - 1].lexeme[1], errs[k - 1].lexeme[2], errs[k - 1].lexeme[3], errs[k - 1].lexeme[4]>>) IN
                                    IfDev(cfg.la >= prev + ParseAtLeast, "C07", "errors closer than N lexemes", <<prev, cfg.la>>)
                      ELSE {}
            IN SimRec(t, e, cfg2, errs, hooks, k + 1, devs \cup d1 \cup d2 \cup d3 \cup d4 \cup d5 \cup d6 \cup d7, opt)

\* does the bare LR machine (state stack only) on this table still run after `fuel' steps?
RECURSIVE LoopsBare(_, _, _, _, _)
LoopsBare(t, toks, st, la, fuel) ==
  IF fuel = 0 THEN TRUE
  ELSE LET a == TAct(t, st[Len(st)], Tok(toks, la)) IN
       CASE a[1] = "r" -> LET p == a[2]  st2 == SubSeq(st, 1, Len(st) - PLen(p))
                              st3 == TLCEval(Append(st2, TGoto(t, st2[Len(st2)], Lhs(p))))
                          IN LoopsBare(t, toks, st3, la, fuel - 1)
         [] a[1] = "s" -> LET st3 == TLCEval(Append(st, a[2])) IN LoopsBare(t, toks, st3, la + 1, fuel - 1)
         [] OTHER -> FALSE

\* does the table send the automaton round reductions on some token without consuming it?  Run the
\* bare machine from the one-state stack <<s>> with the lookahead fixed: a reduction that would pop
\* the base state depends on the rest of the stack and ends the run, as do shift, accept and error;
\* a run that is still going after `fuel' steps (every cycle passes through reductions of empty
\* productions, possibly mixed with unit and longer ones) does not depend on what is below s.
RECURSIVE RelRun(_, _, _, _)
RelRun(t, st, tok, fuel) ==
  IF fuel = 0 THEN TRUE
  ELSE LET a == TAct(t, st[Len(st)], tok) IN
       IF a[1] = "r" /\ PLen(a[2]) < Len(st)
       THEN LET st2 == SubSeq(st, 1, Len(st) - PLen(a[2]))
                st3 == TLCEval(Append(st2, TGoto(t, st2[Len(st2)], Lhs(a[2]))))
            IN RelRun(t, st3, tok, fuel - 1)
       ELSE FALSE
EpsCycle(t) == \E s \in 0 .. Len(t.act) - 1, tok \in Tokens : RelRun(t, <<s>>, tok, 600)

\* some cell of the table had more than one candidate action - whether the choice was made by a
\* default rule (a reported conflict) or by precedence / associativity (not reported)
MultiCell(a) == \E s \in 0 .. a.n - 1, tok \in Tokens :
                  Cardinality(CellReds(a, s, tok)) + (IF HasEdge(a, s, tok) THEN 1 ELSE 0) > 1
Resolved(t, a) == t.has_conflicts \/ (a.n > 0 /\ MultiCell(a))

RunDevs(t, a, e, run) ==
  IF "overflow" \in DOMAIN run THEN D("C07", "more errors than lexemes", run.nerrors)
  ELSE IF "panic" \in DOMAIN run /\ run.panic # "HARNESS-LOOP" THEN D("ANY", "parser panicked", run.panic)
  ELSE IF "panic" \in DOMAIN run THEN
         \* the parse was stopped after 100 000 reductions
         (IF X.cyclic THEN D("SKIP", "reduce loop on cyclic grammar", 0)
          ELSE IF Resolved(t, a) /\ LoopsBare(t, ToksOf(e), <<t.start>>, 0, 800)
               \* the specification's LR machine loops on this table as well: the loop is in the
               \* table (a resolved conflict sends the automaton round empty reductions - hidden left
               \* recursion), not in the driver
               THEN D("C07", "KF:lr-loop-conflicts", 0) \cup D("SKIP", "reduce loop of the LR automaton itself (table with resolved conflicts)", 0)
          ELSE D("ANY", "parse did not return (reduce loop)", 0))
  ELSE
  LET lex == LexOf(e)  toks == ToksOf(e)
      aerrs == ParseErrs(run.act.errors)
      merrs == ParseErrs(run.map.errors)
      sim  == SimRec(t, e, InitCfg(t), aerrs, run.act.hook, 1, {},
                     [recovery |-> run.recovery, wantreps |-> On("CHK_REPAIRS"), hookchk |-> TRUE])
      cfg  == sim.cfg
      \* the generic-tree run is simulated with its own error list (it may have applied a
      \* different, equally ranked first repair); it has no hook events
      simm2 == SimRec(t, e, InitCfg(t), merrs, <<>>, 1, {},
                      [recovery |-> run.recovery, wantreps |-> FALSE, hookchk |-> FALSE])
      mcfg == simm2.cfg
      accepted == cfg.st = "acc"
      root == Len(cfg.ev) - 1
      d_ev == IfDev(EvMatch(run.act.events, cfg.ev, TRUE), "C08", "reduce events # model", FirstEvDiff(run.act.events, cfg.ev, TRUE))
      d_res == IfDev(run.act.result = (IF accepted THEN root ELSE -1), "C07", "value returned iff accepted", <<run.act.result, cfg.st>>)
      d_mev == IfDev(EvMatch(run.map.events, mcfg.ev, FALSE), "C08", "generic-tree events # model", FirstEvDiff(run.map.events, mcfg.ev, FALSE))
      d_mres == IfDev(run.map.result = (IF mcfg.st = "acc" THEN Len(mcfg.ev) - 1 ELSE -1), "C07", "tree returned iff accepted", <<run.map.result, mcfg.st>>)
      d_tree == IF accepted /\ EvMatch(run.act.events, cfg.ev, TRUE)
                THEN IfDev(TreeValid(cfg.ev, root), "C01", "tree is not a derivation", 0)
                     \cup IfDev(PostOrder(cfg.ev, root) = [i \in 1 .. Len(cfg.ev) |-> i - 1], "C08", "actions not in bottom-up order", 0)
                     \cup (IF aerrs = <<>> THEN
                             IfDev([i \in 1 .. Len(Yield(cfg.ev, root)) |-> LET y == Yield(cfg.ev, root)[i] IN <<y[2], y[3], y[4]>>] = lex
                                   /\ \A i \in 1 .. Len(Yield(cfg.ev, root)) : ~Yield(cfg.ev, root)[i][5],
                                   "C01", "leaves # input lexemes", 0)
                           ELSE {})
                ELSE {}
      d_span == IF On("CHK_SPANS") THEN
                  UNION { IF SemSpanOK(cfg.ev, id) THEN {}
                          ELSE IF SpanShapeKnown(cfg.ev, id) THEN D("C08", "KF:span-empty-edge", <<cfg.ev[id + 1].p>>)
                          ELSE D("C08", "span # derived lexemes", <<id, cfg.ev[id + 1].span>>)
                          : id \in 0 .. Len(cfg.ev) - 1 }
                ELSE {}
      d_same == IF aerrs = <<>> /\ merrs = <<>> THEN
                  IfDev(EvMatch(run.map.events, run.act.events, FALSE) /\ run.map.result = run.act.result, "C08", "action tree # generic tree", 0)
                ELSE {}
      \* C07: error list vs outcome
      d_c07 == IF run.recovery THEN
                 IfDev(\A i \in 1 .. Len(aerrs) - 1 : aerrs[i].repairs # <<>>, "C07", "non-last error without repairs", 0)
                 \cup IfDev((run.act.result # -1) = (\A i \in 1 .. Len(aerrs) : aerrs[i].repairs # <<>>), "C07", "value iff every error repaired", 0)
                 \cup IfDev(run.act.nerrors <= Len(lex) + 1 /\ run.map.nerrors <= Len(lex) + 1, "C07", "more errors than lexemes", run.act.nerrors)
               ELSE {}
      \* language oracle (C01/C04) for the recovery-off run
      d_lang == IF ~run.recovery /\ On("CHK_LANG") /\ NoMultiCand(a) /\ X.islr1 THEN
                  LET cp == CanonParse(X.cc, toks) IN
                  IfDev(accepted = cp.acc, "C01", "accepts # canonical LR(1)", <<toks, accepted, cp.acc>>)
                  \cup (IF ~accepted /\ ~cp.acc /\ X.allprod /\ aerrs # <<>> THEN
                          IfDev(cfg.la = cp.err, "C04", "error position # canonical LR(1)", <<toks, cfg.la, cp.err>>)
                        ELSE {})
                  \cup (IF Len(toks) <= LangL /\ On("CHK_LANGSET") THEN
                          IfDev(accepted = (toks \in X.lang), "C01", "accepts # derivations", <<toks, accepted>>)
                          \cup (IF ~accepted /\ X.allprod /\ aerrs # <<>> THEN
                                  LET badidx == {i \in 1 .. Len(toks) : SubSeq(toks, 1, i) \notin X.pre}
                                      fb == IF badidx = {} THEN Len(toks) ELSE Min(badidx) - 1
                                  IN IfDev(cfg.la = fb, "C04", "error position # first non-prefix", <<toks, cfg.la, fb>>)
                                ELSE {})
                        ELSE {})
                ELSE {}
      \* C02: same first-error position / acceptance as the canonical parser on LR(1) grammars
      d_c02 == IF ~run.recovery /\ On("CHK_C02PARSE") /\ X.islr1 THEN
                 LET cp == CanonParse(X.cc, toks) IN
                 IfDev(accepted = cp.acc /\ (~accepted => cfg.la = cp.err), "C02", "parse # canonical LR(1) parser", <<toks, cfg.st, cfg.la, cp>>)
                 \cup (IF accepted /\ cp.acc THEN
                         IfDev([i \in 1 .. Len(cfg.ev) |-> cfg.ev[i].p] = cp.reds, "C02", "tree # canonical LR(1) tree", toks)
                       ELSE {})
               ELSE {}
  IN sim.devs \cup simm2.devs \cup d_ev \cup d_res \cup d_mev \cup d_mres \cup d_tree \cup d_span \cup d_same \cup d_c07 \cup d_lang \cup d_c02

ParseDevs(t, a, e) == UNION { RunDevs(t, a, e, e.runs[i]) : i \in 1 .. Len(e.runs) }

\* ---------------------------------------------------------------------------------------------
\* the trace machine
\* a deviation is reported if its property is being checked; table-level deviations (C03, C16)
\* are also reported when C01 is being checked, since a wrong table is a wrong parser
Filter(S) == { d \in S : d[1] \in {"SKIP", "ANY"} \/ On("CHK_" \o d[1]) \/ (d[1] \in {"C03", "C16"} /\ On("CHK_C01") /\ On("C01_TABLE")) }

Init == /\ l = 1 /\ inst = "" /\ C = EmptyCtx /\ X = [canon |-> {}] /\ A = [n |-> 0] /\ T = [start |-> 0]
        /\ pg = "idle" /\ ndev = 0 /\ last = ""
        /\ core = <<>> /\ closed = <<>> /\ isc = <<>> /\ edges = <<>> /\ cnd = <<>>
        /\ todo_off = 0 /\ pending = {} /\ cur = 0

Live0 == C.nt > 0      \* a grammar is loaded

Skip == UNCHANGED <<inst, C, X, A, T, pg, ndev, pvars>>

OnReset(e) ==
  /\ inst' = e.id /\ C' = EmptyCtx /\ X' = [canon |-> {}] /\ A' = [n |-> 0] /\ T' = [start |-> 0]
  /\ pg' = "idle" /\ UNCHANGED <<ndev, pvars>>

OnGrammar(e) ==
  IF ~WellFormedRaw(e)
  THEN /\ Report(D("C10", "grammar object not well-formed", 0)) /\ ndev' = ndev + 1
       /\ UNCHANGED <<inst, C, X, A, T, pg, pvars>>
  ELSE /\ C' = MkCtx(e)
       /\ LET ds == Filter(IF On("CHK_C03") THEN PPrecDevs(e) ELSE {}) IN Report(ds) /\ ndev' = ndev + Cardinality(ds)
       /\ UNCHANGED <<inst, A, T, X, pvars>>
       /\ pg' = IF On("REPLAY_PAGER") THEN "idle" ELSE "off"

\* the oracle cache is computed in the step after the grammar is loaded (operators read C)
NeedX == Live0 /\ X.canon = {}

OnCosts(e) ==
  LET ds == Filter(IF On("CHK_C17") THEN CostDevs(e) ELSE {}) IN Report(ds) /\ ndev' = ndev + Cardinality(ds)
  /\ UNCHANGED <<inst, C, X, A, T, pg, pvars>>

\* the harness killed the child process because it stayed silent: something did not return
OnHang(e) ==
  LET ds == Filter(
        CASE last = "analyses" ->
               (IF ~X.allprod \/ MinCostAlg(Rec[l - 1].costs).status # "ok"
                THEN D("C17", "KF:cost-nonreturn", "hang") ELSE D("C17", "cost query did not return", 0))
          [] last \in {"table", "parse"} ->
               (IF X.cyclic THEN D("SKIP", "parse hang on cyclic grammar", 0)
                ELSE IF Resolved(T, A) /\ "has_input" \in DOMAIN e /\ e.has_input /\ LoopsBare(T, e.input, <<T.start>>, 0, 800)
                     \* the harness could name the input of the parse that did not return, and the
                     \* specification's LR machine loops on this table for that input as well
                     THEN D("C07", "KF:lr-loop-conflicts", 2) \cup D("SKIP", "parse hang: the LR automaton of a table with resolved conflicts loops on this input", e.input)
                ELSE IF Resolved(T, A) /\ EpsCycle(T)
                     \* the automaton of this table can cycle through empty reductions by itself (see
                     \* RunDevs); the killed child cannot tell us which input it was working on
                     THEN D("C07", "KF:lr-loop-conflicts", 1) \cup D("SKIP", "parse hang on a table whose automaton has a cycle of empty reductions", 0)
                ELSE D("ANY", "parse did not return", 0))
          [] OTHER -> D("ANY", "construction did not return", last)) IN
  Report(ds) /\ ndev' = ndev + Cardinality(ds)
  /\ UNCHANGED <<inst, C, X, A, T, pg, pvars>>

OnAnalyses(e) ==
  LET ds == Filter(IF On("CHK_C17") THEN AnalysesDevs(e) ELSE {}) IN Report(ds) /\ ndev' = ndev + Cardinality(ds)
  /\ UNCHANGED <<inst, C, X, A, T, pg, pvars>>

\* Pager events.  First event of an instance initialises the model's Pager state.
PagerStart == pg = "idle"
OnPagerEv(e) ==
  IF pg = "off" THEN Skip
  ELSE IF pg = "idle" THEN
    \* the first event must be pick(0) from the initial state
    /\ e.ev = "pick" /\ e.i = 0
    /\ core' = <<StartKernel>> /\ isc' = <<TRUE>> /\ edges' = << <<>> >>
    /\ cnd' = [s \in Syms |-> <<>>] /\ cur' = 0 /\ todo_off' = 1
    /\ LET cl == Closure(StartKernel) IN closed' = <<cl>> /\ pending' = { <<s, Goto(cl, s)>> : s \in NextSyms(cl) }
    /\ pg' = "run" /\ UNCHANGED <<inst, C, X, A, T, ndev>>
  ELSE
    LET ns == IF "ns" \in DOMAIN e THEN ItemsOf(e.ns) ELSE {} IN
    CASE e.ev = "pick" ->
           /\ PickEffect(e.i)
           /\ LET ds == Filter(IfDev(PickGuardAny(e.i), "C02", "pager: a state picked that is closed already, or before the successors of the current one are done", <<e.i, pending>>)) IN
              Report(ds) /\ ndev' = ndev + Cardinality(ds)
           /\ UNCHANGED <<inst, C, X, A, T, pg>>
      [] e.ev = "exact" ->
           /\ ExactEffect(e.sym, e.k, ns)
           /\ LET ds == Filter(IfDev(ExactGuardAny(e.sym, e.k, ns), "C02", "pager: exact-match step not prescribed (the target's kernel is not the successor's)", <<e.sym, e.k>>)) IN
              Report(ds) /\ ndev' = ndev + Cardinality(ds)
           /\ UNCHANGED <<inst, C, X, A, T, pg>>
      [] e.ev = "merge" ->
           /\ MergeEffect(e.sym, e.k, ns)
           /\ LET ds == Filter(IfDev(MergeGuardAny(e.sym, e.k, ns), "C02", "pager: merge step not prescribed (not weakly compatible / exact match exists)", <<e.sym, e.k>>)) IN
              Report(ds) /\ ndev' = ndev + Cardinality(ds)
           /\ UNCHANGED <<inst, C, X, A, T, pg>>
      [] e.ev = "new" ->
           /\ NewEffect(e.sym, e.k, ns)
           /\ LET ds == Filter(IfDev(NewGuard(e.sym, e.k, ns), "C02", "pager: new-state step not prescribed (a compatible candidate exists)", <<e.sym, e.k>>)) IN
              Report(ds) /\ ndev' = ndev + Cardinality(ds)
           /\ UNCHANGED <<inst, C, X, A, T, pg>>
      [] OTHER -> \* pregc
           /\ LET ds == Filter(IfDev(PagerDone /\ e.n = NStates, "C02", "pager: stopped before all states were closed", <<e.n, NStates, Unclosed>>)) IN
              Report(ds) /\ ndev' = ndev + Cardinality(ds)
           /\ pg' = "done" /\ UNCHANGED <<inst, C, X, A, T, pvars>>

OnGraph(e) ==
  LET a == GraphOf(e) IN
  IF ~GraphShapeOK(a)
  THEN /\ Report(D("C16", "state graph malformed", 0)) /\ ndev' = ndev + 1
       /\ UNCHANGED <<inst, C, X, A, T, pg, pvars>>
  ELSE /\ A' = a
       /\ LET ds == Filter((IF On("CHK_C16") THEN C16GraphDevs(a) ELSE {})
                             \cup (IF On("CHK_C01") THEN CertDevs(a) ELSE {})
                             \cup (IF On("CHK_C02") THEN C02GraphDevs(a) \cup PagerGraphDevs(a) ELSE {})) IN
          Report(ds) /\ ndev' = ndev + Cardinality(ds)
       /\ UNCHANGED <<inst, C, X, T, pg, pvars>>

OnTable(e) ==
  IF A.n = 0 THEN /\ T' = e /\ UNCHANGED <<inst, C, X, A, pg, ndev, pvars>>
  ELSE IF ~TableShapeOK(A, e)
  THEN /\ Report(D("C16", "state table malformed", 0)) /\ ndev' = ndev + 1
       /\ UNCHANGED <<inst, C, X, A, T, pg, pvars>>
  ELSE /\ T' = e
       /\ LET ds == Filter((IF On("CHK_C03") \/ On("CHK_C01") THEN C03TableDevs(A, e) ELSE {})
                             \cup (IF On("CHK_C16") \/ On("CHK_C01") THEN C16TableDevs(A, e) ELSE {})) IN
          Report(ds) /\ ndev' = ndev + Cardinality(ds)
       /\ UNCHANGED <<inst, C, X, A, pg, pvars>>

OnTableErr(e) ==
  \* construction failed with an accept/reduce conflict: the model's own automaton must have one
  /\ LET ds == Filter(IF pg = "done" THEN IfDev(AcceptReduceConflict(GCGraph), "C03", "accept/reduce error without such a conflict", 0) ELSE {}) IN
     Report(ds) /\ ndev' = ndev + Cardinality(ds)
  /\ UNCHANGED <<inst, C, X, A, T, pg, pvars>>

OnParse(e) ==
  IF A.n = 0 \/ "act" \notin DOMAIN T THEN Skip
  ELSE /\ LET ds == Filter(ParseDevs(T, A, e)) IN Report(ds) /\ ndev' = ndev + Cardinality(ds)
       /\ UNCHANGED <<inst, C, X, A, T, pg, pvars>>

Next ==
  IF NeedX THEN
     \* silent step: build the oracle cache for the grammar just loaded
     /\ X' = MkX @@ (IF On("CHK_LANGSET")
                      THEN [lang |-> Lang(LangL), pre |-> IF AllProductive THEN Pre(LangL) ELSE {}]
                      ELSE [lang |-> {}, pre |-> {}])
     /\ UNCHANGED <<l, inst, C, A, T, pg, last, ndev, pvars>>
  ELSE
  /\ l <= Len(Rec)
  /\ l' = l + 1
  /\ last' = Rec[l].ev
  /\ LET e == Rec[l] IN
     CASE e.ev = "reset" -> OnReset(e)
       [] e.ev = "grammar" -> OnGrammar(e)
       [] e.ev \in {"crash", "grammar_panic", "table_panic"} ->
            /\ Report(D("ANY", "code under test crashed", e.ev)) /\ ndev' = ndev + 1
            /\ UNCHANGED <<inst, C, X, A, T, pg, pvars>>
       [] ~Live0 -> Skip
       [] e.ev = "analyses" -> OnAnalyses(e)
       [] e.ev = "costs" -> OnCosts(e)
       [] e.ev = "hang" -> OnHang(e)
       [] e.ev \in {"pick", "exact", "merge", "new", "pregc"} -> OnPagerEv(e)
       [] e.ev = "graph" -> OnGraph(e)
       [] e.ev = "table" -> OnTable(e)
       [] e.ev = "table_err" -> OnTableErr(e)
       [] e.ev = "parse" -> OnParse(e)
       [] OTHER -> Skip

Spec == Init /\ [][Next]_tvars

\* acceptance: every line consumed
Consumed == (l = Len(Rec) + 1) => PrintT(<<"DONE", Len(Rec), ndev>>)
=============================================================================
