--------------------------- MODULE TraceLexParse ---------------------------
(* Trace specification for LRNonStreamingLexerDef::from_str on arbitrary text: the %grmtools
   section parser (Header.tla), the conversion of the section to lexer flags and the .l parser
   (LexParse.tla), transcribed, must predict the outcome EXACTLY - start states and rules with all
   spans, or the errors (kind, spans) in order - and the outcome must satisfy the C12 contract.
   Event `lexparse': src (code points), hsrc (the same text as Header.tla characters), fk / nk
   (names of the flag / numeric settings as code points, in the order the code converts them),
   badre (byte offsets of rule lines whose regular expression the regex engine refused), res. *)
EXTENDS Naturals, Integers, Sequences, FiniteSets, TLC, Json, IOUtils
H == INSTANCE Header WITH Variant <- "code"
L == INSTANCE LexParse
Rec == ndJsonDeserialize(IOEnv.TRACE)
VARIABLES l, ndev
Prop == IF "PROP" \in DOMAIN IOEnv THEN IOEnv.PROP ELSE "C12"
Report(inst, S) == \A d \in S : PrintT(<<"DEV", Prop, inst, l, d[1], d[2]>>)
ToSet(s) == {s[i] : i \in 1 .. Len(s)}
Tup(s) == [i \in 1 .. Len(s) |-> s[i]]
HSrc(e) == [i \in 1 .. Len(e.hsrc) |-> <<e.hsrc[i][1], e.hsrc[i][2], e.hsrc[i][3]>>]
ErrList(es) == [i \in 1 .. Len(es) |-> [kind |-> es[i].kind, spans |-> [j \in 1 .. Len(es[i].spans) |-> <<es[i].spans[j][1], es[i].spans[j][2]>>]]]
Prefixed(es) == [i \in 1 .. Len(es) |-> [kind |-> "In '%grmtools' section " \o es[i].kind, spans |-> es[i].spans]]

\* the section's entry for a key, or none
Entry(h, key) == {n \in 1 .. Len(h.entries) : h.entries[n].key = key}
\* LexFlags::try_from: the first setting (in the code's order) whose value has the wrong shape
RECURSIVE FirstBad(_, _, _, _)
FirstBad(h, keys, want, i) ==
  IF i > Len(keys) THEN <<>>
  ELSE LET hit == Entry(h, Tup(keys[i])) IN
       IF hit # {} /\ h.entries[CHOOSE n \in hit : TRUE].v.t # want
       THEN << [kind |-> "In '%grmtools' section Converting header value to type 'LexFlags': Expected " \o (IF want = "flag" THEN "boolean" ELSE "numeric"),
                spans |-> << h.entries[CHOOSE n \in hit : TRUE].key_span >>] >>
       ELSE FirstBad(h, keys, want, i + 1)
FlagOn(h, key) == LET hit == Entry(h, key) IN hit # {} /\ h.entries[CHOOSE n \in hit : TRUE].v.t = "flag" /\ h.entries[CHOOSE n \in hit : TRUE].v.on

OpNum(op) == CASE op = "none" -> 0 [] op = "replace" -> 1 [] op = "push" -> 2 [] OTHER -> 3
MRule(r) == [named |-> r.named, name |-> r.name, name_span |-> r.name_span, re |-> r.re, states |-> r.states,
             op |-> OpNum(r.op), tgt |-> r.tgt, tok |-> r.tok_id]
IRule(r) == [named |-> r.named, name |-> Tup(r.name_cp), name_span |-> <<r.name_span[1], r.name_span[2]>>, re |-> Tup(r.re_cp),
             states |-> Tup(r.states), op |-> r.op, tgt |-> r.tgt, tok |-> r.tok]
MState(s) == [id |-> s.id, name |-> s.name, excl |-> s.excl, span |-> s.span]
IState(s) == [id |-> s.id, name |-> Tup(s.name_cp), excl |-> s.excl, span |-> <<s.span[1], s.span[2]>>]

Model(e) ==
  LET src == Tup(e.src)
      h == H!Parse(HSrc(e), FALSE)
  IN IF h.class = "err" THEN [class |-> "err", errors |-> Prefixed(h.errors)]
     ELSE IF h.class = "loop" THEN [class |-> "loop"]
     ELSE LET bad1 == FirstBad(h, e.fk, "flag", 1)
              bad == IF bad1 # <<>> THEN bad1 ELSE FirstBad(h, e.nk, "num", 1)
          IN IF bad # <<>> THEN [class |-> "err", errors |-> bad]
             ELSE LET start == CHOOSE k \in 0 .. Len(src) : L!B(src, k) = h.pos
                  IN L!LexParse(src, start, FlagOn(h, Tup(e.fk[5])), FlagOn(h, Tup(e.fk[4])), ToSet(e.badre))

Devs(e) ==
  IF e.res.class = "panic" THEN { <<"lex parser panicked", e.res.msg>> }
  ELSE IF e.res.class = "hang" THEN { <<"lex parser did not return", 0>> }
  ELSE
  LET m == Model(e)  src == Tup(e.src) IN
  (IF m.class = "loop" \/ L!Total(src, m) THEN {} ELSE { <<"model outcome violates the contract", m>> })
  \cup (IF m.class # e.res.class THEN { <<"outcome class # model", <<e.res.class, m>> >> }
        ELSE IF m.class = "err"
        THEN (IF ErrList(e.res.errors) = m.errors THEN {} ELSE { <<"INFO: errors # model (both reject the text)", <<ErrList(e.res.errors), m.errors>> >> })
        ELSE LET ir == [i \in 1 .. Len(e.res.def.rules) |-> IRule(e.res.def.rules[i])]
                 mr == [i \in 1 .. Len(m.rules) |-> MRule(m.rules[i])]
                 is == [i \in 1 .. Len(e.res.def.states) |-> IState(e.res.def.states[i])]
                 ms == [i \in 1 .. Len(m.states) |-> MState(m.states[i])]
             IN (IF ir = mr THEN {} ELSE { <<"rules # model", <<ir, mr>> >> })
                \cup (IF is = ms THEN {} ELSE { <<"start states # model", <<is, ms>> >> }))
Init == l = 1 /\ ndev = 0
Next == /\ l <= Len(Rec) /\ l' = l + 1
        /\ LET e == Rec[l]  ds == Devs(e) IN Report(e.id, ds) /\ ndev' = ndev + Cardinality(ds)
Spec == Init /\ [][Next]_<<l, ndev>>
Consumed == (l = Len(Rec) + 1) => PrintT(<<"DONE", Len(Rec), ndev>>)
=============================================================================
