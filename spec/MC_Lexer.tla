------------------------------ MODULE MC_Lexer ------------------------------
(* Bounded model: every lexer definition with NR rules over start states 0 .. NS-1 (each rule:
   named with an id / named without / skip; restricted to a subset of states or not; any stack
   operation), every inclusive/exclusive assignment, and EVERY environment: at each offset each
   rule matches any length (or not at all).  Inputs of length Len. *)
EXTENDS Lexer
CONSTANTS NR, NS, InLen, StateSets, Tgts
VARIABLES def, m
States == 0 .. NS - 1
RuleSpace == [named : BOOLEAN, tok : {-1, 7}, states : StateSets, op : 0 .. 3, tgt : Tgts]
Init == /\ def \in [rules : [1 .. NR -> RuleSpace], excl : [States -> BOOLEAN]]
        /\ ~def.excl[0]
        /\ m \in [0 .. InLen - 1 -> [1 .. NR -> 0 .. 2]]
        /\ \A p \in 0 .. InLen - 1 : \A r \in 1 .. NR : p + m[p][r] <= InLen
        /\ LexInit
Next == LexStep(def, m, InLen) /\ UNCHANGED <<def, m>>
Spec == Init /\ [][Next]_<<lvars, def, m>>
Inv == Tiles /\ InOrder /\ ErrAtStop(def, m) /\ StackOK
\* the step-wise lexer and the run function agree
RunAgrees == LexDone(InLen) => LET r == RunLex(def, m, InLen, 0, << <<1, 0>> >>, <<>>) IN r.out = lout /\ r.err = lerr
=============================================================================
