------------------------------ MODULE LexParse ------------------------------
(***************************************************************************)
(* The .l specification parser (lrlex/src/lib/parser.rs, LexParser),       *)
(* transcribed function by function (C11, C12): for ANY text it predicts   *)
(* the outcome - the rules and start states with all their spans, or the   *)
(* list of errors with kinds and spans in order.                           *)
(*                                                                         *)
(* A text is a sequence of code points; byte offsets (spans) follow from   *)
(* the UTF-8 width of each.  Positions inside the operators are 0-based    *)
(* character indices.  Loops are RECURSIVE operators with fuel ("LOOP" =   *)
(* does not return).                                                       *)
(*                                                                         *)
(* The one thing the parser delegates is compiling a rule's regular        *)
(* expression (regex crate).  Whether that succeeds is an INPUT of the     *)
(* model: BadRe is the set of byte offsets of rule lines whose regular     *)
(* expression the engine refuses (taken from the observed errors in trace  *)
(* validation, empty in the bounded model).                                *)
(***************************************************************************)
EXTENDS Naturals, Integers, Sequences, FiniteSets, TLC

\* ---- characters ----
PWS == {9, 10, 11, 12, 13, 32, 133, 8206, 8207, 8232, 8233}      \* Unicode Pattern_White_Space
LS  == {10, 13, 11, 8232, 8233}                                  \* RE_LINE_SEP: vertical separators
SS  == {32, 9}                                                   \* RE_SPACE_SEP: horizontal separators
Width(c) == IF c < 128 THEN 1 ELSE IF c < 2048 THEN 2 ELSE IF c < 65536 THEN 3 ELSE 4
IsAlpha(c) == (c >= 65 /\ c <= 90) \/ (c >= 97 /\ c <= 122)
IsAlnum(c) == IsAlpha(c) \/ (c >= 48 /\ c <= 57)
PCT == 37  LT == 60  GT == 62  COMMA == 44  SQ == 39  DQ == 34  SEMI == 59  PLUS == 43  MINUS == 45  SLASH == 47  BSLASH == 92

Cp(src, k) == IF k < Len(src) THEN src[k + 1] ELSE -1
RECURSIVE BOffL(_, _)
BOffL(src, k) == IF k = 0 THEN 0 ELSE BOffL(src, k - 1) + Width(src[k])
B(src, k) == BOffL(src, k)
RECURSIVE Skip(_, _, _)
Skip(src, k, S) == IF Cp(src, k) \in S THEN Skip(src, k + 1, S) ELSE k
Ws(src, k) == Skip(src, k, PWS)            \* parse_ws
Nl(src, k) == Skip(src, k, LS)             \* parse_nl
Spaces(src, k) == Skip(src, k, SS)         \* parse_spaces
RECURSIVE LineEnd(_, _)
LineEnd(src, k) == IF k >= Len(src) \/ Cp(src, k) \in LS THEN k ELSE LineEnd(src, k + 1)
Look2(src, k, a, b) == Cp(src, k) = a /\ Cp(src, k + 1) = b
\* trim_end_matches(whitespace) of src[a..b): the new end
RECURSIVE TrimEnd(_, _, _)
TrimEnd(src, a, b) == IF b > a /\ Cp(src, b - 1) \in PWS THEN TrimEnd(src, a, b - 1) ELSE b
RECURSIVE TrimStart(_, _, _)
TrimStart(src, a, b) == IF a < b /\ Cp(src, a) \in PWS THEN TrimStart(src, a + 1, b) ELSE a
Sub(src, a, b) == [i \in 1 .. b - a |-> src[a + i]]        \* code points of src[a..b)
\* first index in [a, b) whose character is in S, or -1
RECURSIVE FindIn(_, _, _, _)
FindIn(src, a, b, S) == IF a >= b THEN -1 ELSE IF Cp(src, a) \in S THEN a ELSE FindIn(src, a + 1, b, S)
RECURSIVE RFindIn(_, _, _, _)
RFindIn(src, a, b, S) == IF b <= a THEN -1 ELSE IF Cp(src, b - 1) \in S THEN b - 1 ELSE RFindIn(src, a, b - 1, S)

MkErr(src, kind, k) == [kind |-> kind, spans |-> << <<B(src, k), B(src, k)>> >>]
\* add_duplicate_occurrence
AddDup(errs, kind, orig, dup) ==
  LET hit == {n \in 1 .. Len(errs) : errs[n].kind = kind /\ errs[n].spans[1] = orig} IN
  IF hit # {} THEN LET n == CHOOSE m \in hit : \A o \in hit : m <= o IN [errs EXCEPT ![n].spans = Append(@, dup)]
  ELSE Append(errs, [kind |-> kind, spans |-> <<orig, dup>>])

\* ---- state: st = [states : Seq([id, name, excl, span]), rules : Seq(rule), errs : Seq(err)] ----
Initial == [id |-> 0, name |-> <<73, 78, 73, 84, 73, 65, 76>>, excl |-> FALSE, span |-> <<0, 0>>]
StateByName(st, name) == {n \in 1 .. Len(st.states) : st.states[n].name = name}

\* RE_START_STATE_NAME  ^[a-zA-Z][a-zA-Z0-9_.]*$
ValidStateName(nm) == Len(nm) >= 1 /\ IsAlpha(nm[1]) /\ \A i \in 2 .. Len(nm) : IsAlnum(nm[i]) \/ nm[i] \in {95, 46}
\* ^%[sS][a-zA-Z0-9]*$   /   ^%[xX][a-zA-Z0-9]*$
DeclKind(d) == IF Len(d) >= 2 /\ d[1] = PCT /\ \A i \in 3 .. Len(d) : IsAlnum(d[i])
               THEN (IF d[2] \in {115, 83} THEN "incl" ELSE IF d[2] \in {120, 88} THEN "excl" ELSE "none")
               ELSE "none"

\* declare_start_states: RE_WS.split(parameters) - every single blank separates, so two blanks
\* in a row give an empty name.  -> [ok, st, k] | [ok = FALSE, err]
RECURSIVE DeclNames(_, _, _, _, _, _)
DeclNames(src, st, excl, a, b, last) ==      \* names in src[a..b); last = end of the previous name
  IF a > b THEN [ok |-> TRUE, st |-> st, k |-> last]
  ELSE LET e0 == FindIn(src, a, b, PWS)
           e  == IF e0 < 0 THEN b ELSE e0
           nm == Sub(src, a, e)
           span == <<B(src, a), B(src, e)>>
       IN IF ~ValidStateName(nm) THEN [ok |-> FALSE, err |-> MkErr(src, "Invalid start state name", a)]
          ELSE LET dup == StateByName(st, nm)
                   st2 == IF dup # {}
                          THEN [st EXCEPT !.errs = AddDup(st.errs, "Start state already exists", st.states[CHOOSE n \in dup : TRUE].span, span)]
                          ELSE [st EXCEPT !.states = Append(st.states, [id |-> Len(st.states), name |-> nm, excl |-> excl, span |-> span])]
               IN IF e0 < 0 THEN [ok |-> TRUE, st |-> st2, k |-> e]
                  ELSE DeclNames(src, st2, excl, e + 1, b, e)

\* parse_declaration
ParseDecl(src, st, i) ==
  LET le == LineEnd(src, i)
      lt == TrimEnd(src, i, le)                       \* end of `line'
      w0 == FindIn(src, i, lt, PWS)
      de == IF w0 < 0 THEN TrimEnd(src, i, le) ELSE TrimEnd(src, i, w0)       \* end of `declaration'
      dl == IF w0 < 0 THEN le ELSE w0                   \* i + declaration_len
      kind == DeclKind(Sub(src, i, de))
  IN IF kind = "none" THEN [ok |-> FALSE, err |-> MkErr(src, "Unknown declaration", i)]
     ELSE LET pa == TrimStart(src, dl, le)  pb == TrimEnd(src, pa, le) IN
          IF pa >= pb THEN [ok |-> FALSE, err |-> MkErr(src, "Unknown declaration", i)]
          ELSE LET r == DeclNames(src, st, kind = "excl", pa, pb, i) IN
               IF ~r.ok THEN r ELSE [ok |-> TRUE, st |-> r.st, k |-> Ws(src, r.k)]

\* parse_declarations -> [ok, st, k]
RECURSIVE ParseDecls(_, _, _, _, _)
ParseDecls(src, st, i0, comments, fuel) ==
  LET i == Ws(src, i0) IN
  IF fuel = 0 THEN [ok |-> FALSE, err |-> [kind |-> "LOOP", spans |-> <<>>], st |-> st]
  ELSE IF comments /\ Look2(src, i, SLASH, SLASH) THEN ParseDecls(src, st, LineEnd(src, i), comments, fuel - 1)
  ELSE IF i = Len(src) THEN [ok |-> FALSE, err |-> MkErr(src, "File ends prematurely", i), st |-> st]
  ELSE IF Look2(src, i, PCT, PCT) THEN [ok |-> TRUE, st |-> st, k |-> Spaces(src, i + 2)]
  ELSE LET r == ParseDecl(src, st, i) IN
       \* (duplicate-state errors collected so far are reported together with the fatal one)
       IF ~r.ok THEN [ok |-> FALSE, err |-> r.err, st |-> st] ELSE ParseDecls(src, r.st, r.k, comments, fuel - 1)

\* ---- rules ----
\* characters that are special to the regex engine (regex_syntax::is_meta_character)
Meta == {92, 46, 43, 42, 63, 40, 41, 124, 91, 93, 123, 125, 94, 36, 35, 38, 45, 126}
IsHex(c) == (c >= 48 /\ c <= 57) \/ (c >= 65 /\ c <= 70) \/ (c >= 97 /\ c <= 102)
LexEscape(cs, i) ==
  LET c == cs[i] IN
  \/ (c \in {120, 117, 85} /\ i < Len(cs) /\ IsHex(cs[i + 1]))
  \/ (c >= 48 /\ c <= 57)
  \/ c \in {97, 102, 110, 114, 116, 118, 92, 112, 80, 100, 68, 115, 83, 119, 87, 65, 122}
RECURSIVE Unescape(_, _, _)
Unescape(cs, i, posix) ==
  IF i > Len(cs) THEN <<>>
  ELSE IF cs[i] = BSLASH /\ i < Len(cs) THEN
         LET c == cs[i + 1] IN
         IF ~(c \in Meta \/ LexEscape(cs, i + 1)) /\ c = 98
         THEN (IF posix THEN <<92, 120, 48, 56>> ELSE <<92, 98>>) \o Unescape(cs, i + 2, posix)
         ELSE IF c \in Meta \/ LexEscape(cs, i + 1) THEN <<92, c>> \o Unescape(cs, i + 2, posix)
         ELSE <<c>> \o Unescape(cs, i + 2, posix)
  ELSE <<cs[i]>> \o Unescape(cs, i + 1, posix)

\* trim_end_unescaped of src[a..b): the new end
TrimEndUnescaped(src, a, b) ==
  LET t == TrimEnd(src, a, b)
      RECURSIVE bs(_)
      bs(k) == IF k > a /\ Cp(src, k - 1) = BSLASH THEN 1 + bs(k - 1) ELSE 0
  IN IF t = b THEN b ELSE IF bs(t) % 2 = 1 THEN t + 1 ELSE t

\* the names between `<' and `>' of a rule prefix, split at commas, each trimmed
RECURSIVE SplitStates(_, _, _, _, _)
SplitStates(src, st, a, b, off) ==      \* -> [ok, ids] | [ok = FALSE, err]
  LET c0 == FindIn(src, a, b, {COMMA})
      e  == IF c0 < 0 THEN b ELSE c0
      na == TrimStart(src, a, e)  nb == TrimEnd(src, na, e)
      hit == StateByName(st, Sub(src, na, nb))
  IN IF hit = {} THEN [ok |-> FALSE, err |-> MkErr(src, "Start state not known", off)]
     ELSE LET id == st.states[CHOOSE n \in hit : TRUE].id IN
          IF c0 < 0 THEN [ok |-> TRUE, ids |-> <<id>>]
          ELSE LET r == SplitStates(src, st, c0 + 1, b, off) IN
               IF ~r.ok THEN r ELSE [ok |-> TRUE, ids |-> <<id>> \o r.ids]

\* parse_rule at line start i -> [ok, st, k] | [ok = FALSE, err]
ParseRule(src, st, i, posix, BadRe) ==
  LET le == LineEnd(src, i)
      lt == TrimEnd(src, i, le)                                   \* end of `line'
      rs == RFindIn(src, i, lt, SS)                               \* rspace
  IN IF rs < 0 THEN [ok |-> FALSE, err |-> MkErr(src, "Rule is missing a space", i)]
     ELSE
     LET hasT == Cp(src, rs + 1) = LT /\ rs + 1 < lt
         gt == IF hasT THEN FindIn(src, rs + 1, lt, {GT}) ELSE -1
     IN IF hasT /\ gt < 0 THEN [ok |-> FALSE, err |-> MkErr(src, "Invalid start state", rs)]
        ELSE
        LET opc == IF hasT THEN Cp(src, rs + 2) ELSE -1
            hasop == hasT /\ rs + 2 < gt /\ opc \in {PLUS, MINUS}
            op == IF ~hasT THEN "none" ELSE IF hasop /\ opc = PLUS THEN "push" ELSE IF hasop /\ opc = MINUS THEN "pop" ELSE "replace"
            tn == IF hasT THEN Sub(src, IF hasop THEN rs + 3 ELSE rs + 2, gt) ELSE <<>>
            thit == IF hasT THEN StateByName(st, tn) ELSE {}
        IN IF hasT /\ thit = {} THEN [ok |-> FALSE, err |-> MkErr(src, "Start state not known", rs + 1)]
           ELSE
           LET no == IF hasT THEN gt + 1 ELSE rs + 1                 \* where orig_name starts
               nm == Sub(src, no, lt)
               nlenb == B(src, lt) - B(src, no)                      \* orig_name.len() in bytes
               skip == nm = <<SEMI>> \/ nm = <<DQ, DQ>> \/ nm = <<SQ, SQ>>
               quoted == Len(nm) >= 2 /\ ((nm[1] = SQ /\ nm[Len(nm)] = SQ) \/ (nm[1] = DQ /\ nm[Len(nm)] = DQ))
           IN IF ~skip /\ (nlenb <= 2 \/ ~quoted)
              THEN [ok |-> FALSE, err |-> MkErr(src, "Invalid rule name", rs + 1)]
              ELSE
              LET name == IF skip THEN <<>> ELSE Sub(src, no + 1, lt - 1)
                  nspan == IF skip THEN <<B(src, no), B(src, no)>> ELSE <<B(src, no + 1), B(src, lt - 1)>>
                  dups == IF skip THEN {} ELSE {n \in 1 .. Len(st.rules) : st.rules[n].named /\ st.rules[n].name = name}
              IN IF dups # {}
                 THEN \* (`any' stops at the first rule of that name)
                      LET first == CHOOSE n \in dups : \A m \in dups : n <= m IN
                      [ok |-> TRUE, k |-> le,
                       st |-> [st EXCEPT !.errs = AddDup(st.errs, "Rule name already exists", st.rules[first].name_span, nspan)]]
                 ELSE
                 LET re_end == TrimEndUnescaped(src, i, rs)
                     pre == Cp(src, i) = LT /\ i < re_end
                     pgt == IF pre THEN FindIn(src, i, re_end, {GT}) ELSE -1
                 IN IF pre /\ pgt < 0 THEN [ok |-> FALSE, err |-> MkErr(src, "Invalid start state", i)]
                    ELSE LET ss == IF pre THEN SplitStates(src, st, i + 1, pgt, i) ELSE [ok |-> TRUE, ids |-> <<>>]
                         IN IF ~ss.ok THEN ss
                            ELSE IF B(src, i) \in BadRe THEN [ok |-> FALSE, err |-> MkErr(src, "Invalid regular expression", i)]
                            ELSE LET re == Unescape(Sub(src, IF pre THEN pgt + 1 ELSE i, re_end), 1, posix)
                                     rule == [named |-> ~skip, name |-> name, name_span |-> nspan, re |-> re, states |-> ss.ids,
                                              op |-> op, tgt |-> IF hasT THEN st.states[CHOOSE n \in thit : TRUE].id ELSE 0,
                                              tok_id |-> Len(st.rules)]
                                 IN [ok |-> TRUE, k |-> le, st |-> [st EXCEPT !.rules = Append(st.rules, rule)]]

\* parse_rules -> [ok, st, k]
RECURSIVE ParseRules(_, _, _, _, _, _, _)
ParseRules(src, st, i0, comments, posix, BadRe, fuel) ==
  LET i == Nl(src, i0)  le == LineEnd(src, i) IN
  IF fuel = 0 THEN [ok |-> FALSE, err |-> [kind |-> "LOOP", spans |-> <<>>], st |-> st]
  ELSE IF comments /\ Look2(src, i, SLASH, SLASH) THEN ParseRules(src, st, le, comments, posix, BadRe, fuel - 1)
  ELSE IF Ws(src, i) # i
  THEN ParseRules(src, [st EXCEPT !.errs = Append(st.errs, [kind |-> "Verbatim code not supported", spans |-> << <<B(src, i), B(src, le)>> >>])],
                  le, comments, posix, BadRe, fuel - 1)
  ELSE IF i = Len(src) \/ Look2(src, i, PCT, PCT) THEN [ok |-> TRUE, st |-> st, k |-> i]
  ELSE LET r == ParseRule(src, st, i, posix, BadRe) IN
       IF ~r.ok THEN [ok |-> FALSE, err |-> r.err, st |-> st] ELSE ParseRules(src, r.st, r.k, comments, posix, BadRe, fuel - 1)

\* LexParser::new_with_lex_flags(src, start, flags).  -> [class = "ok", states, rules] | [class = "err", errors] | [class = "loop"]
LexParse(src, start, comments, posix, BadRe) ==
  LET st0 == [states |-> <<Initial>>, rules |-> <<>>, errs |-> <<>>]
      d == ParseDecls(src, st0, start, comments, Len(src) + 3)
  IN IF ~d.ok THEN (IF d.err.kind = "LOOP" THEN [class |-> "loop"] ELSE [class |-> "err", errors |-> Append(d.st.errs, d.err)])
     ELSE LET r == ParseRules(src, d.st, d.k, comments, posix, BadRe, 2 * Len(src) + 3) IN
          IF ~r.ok THEN (IF r.err.kind = "LOOP" THEN [class |-> "loop"]
                         \* errors collected so far, then the fatal one (rules parsed before it contributed theirs)
                         ELSE [class |-> "err", errors |-> Append(r.st.errs, r.err)])
          ELSE LET i == r.k  errs == r.st.errs IN
               IF Look2(src, i, PCT, PCT)
               THEN (IF Ws(src, i + 2) = Len(src)
                     THEN (IF errs = <<>> THEN [class |-> "ok", states |-> r.st.states, rules |-> r.st.rules] ELSE [class |-> "err", errors |-> errs])
                     ELSE [class |-> "err", errors |-> Append(errs, MkErr(src, "Routines not currently supported", i))])
               ELSE (IF errs = <<>> THEN [class |-> "ok", states |-> r.st.states, rules |-> r.st.rules] ELSE [class |-> "err", errors |-> errs])

\* ---- the C12 contract on an outcome ----
ByteLen(src) == B(src, Len(src))
Bounds(src) == {B(src, k) : k \in 0 .. Len(src)}
SpanOK(src, s) == s[1] <= s[2] /\ s[2] <= ByteLen(src) /\ s[1] \in Bounds(src) /\ s[2] \in Bounds(src)
Total(src, r) ==
  /\ r.class # "loop"
  /\ r.class = "err" => /\ r.errors # <<>>
                        /\ \A n \in 1 .. Len(r.errors) : \A m \in 1 .. Len(r.errors[n].spans) : SpanOK(src, r.errors[n].spans[m])
  /\ r.class = "ok" => /\ \A n \in 1 .. Len(r.rules) : SpanOK(src, r.rules[n].name_span)
                       /\ \A n \in 1 .. Len(r.states) : SpanOK(src, r.states[n].span)
=============================================================================
