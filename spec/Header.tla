------------------------------- MODULE Header -------------------------------
(***************************************************************************)
(* The %grmtools section parser (cfgrammar/src/lib/header.rs,              *)
(* GrmtoolsSectionParser), transcribed function by function at the level   *)
(* of character classes (C12; the flags half of C11 rests on it).          *)
(*                                                                         *)
(* A text is a sequence of characters <<cls, w, id>>:                      *)
(*   cls  "ws" | "nl"   Unicode Pattern_White_Space (nl = U+000A: the only *)
(*                      character `.' does not match in RE_STRING)         *)
(*        "L"           a character (?i)[A-Z] matches    "_"   underscore  *)
(*        "D"           an ASCII digit                   "q"   double quote*)
(*        "bs"          backslash                                          *)
(*        "[" "]" "," ":" "(" ")" "{" "}" "!" "*"        themselves        *)
(*        "M"           the literal %grmtools where the parser looks for   *)
(*                      it (after the leading blanks of the text)          *)
(*        "o"           anything else                                      *)
(*   w    width in bytes (spans are byte offsets)                          *)
(*   id   lower-cased code point of a letter, value of a digit, else 0     *)
(*                                                                         *)
(* Positions inside the operators are character indices (0-based, k = N is *)
(* the end); B(k) is the byte offset of index k.  Every loop of the code   *)
(* is a RECURSIVE operator with explicit fuel: running out of fuel is the  *)
(* outcome "LOOP" - the model's rendering of `does not return'.            *)
(*                                                                         *)
(* Variant = "code" is the parser as it is; "noprogress" is the array loop *)
(* without its `nothing consumed' test (the pinned tree before 85aa5ff),   *)
(* which the termination invariant must refute.                            *)
(***************************************************************************)
EXTENDS Naturals, Integers, Sequences, FiniteSets, TLC

CONSTANT Variant

N(src) == Len(src)
Cls(src, k) == IF k < Len(src) THEN src[k + 1][1] ELSE "eof"
Id(src, k)  == src[k + 1][3]
RECURSIVE BOff(_, _)
BOff(src, k) == IF k = 0 THEN 0 ELSE BOff(src, k - 1) + src[k][2]
B(src, k) == BOff(src, k)
Sp(src, a, b) == <<B(src, a), B(src, b)>>

IsWs(src, k) == Cls(src, k) \in {"ws", "nl"}
RECURSIVE Ws(_, _)
Ws(src, k) == IF IsWs(src, k) THEN Ws(src, k + 1) ELSE k                 \* parse_ws
RECURSIVE ScanWhile(_, _, _)
ScanWhile(src, k, S) == IF Cls(src, k) \in S THEN ScanWhile(src, k + 1, S) ELSE k
NameEnd(src, k) == IF Cls(src, k) = "L" THEN ScanWhile(src, k + 1, {"L", "_"}) ELSE -1    \* RE_NAME
DigitsEnd(src, k) == IF Cls(src, k) = "D" THEN ScanWhile(src, k + 1, {"D"}) ELSE -1       \* RE_DIGITS
\* RE_STRING  ^"(\\.|[^"\\])*"  : the two alternatives start with different characters, so
\* matching is a deterministic scan; `\' followed by a newline (or by nothing) matches neither
RECURSIVE StrScan(_, _)
StrScan(src, k) ==
  CASE Cls(src, k) = "eof" -> -1
    [] Cls(src, k) = "q"   -> k + 1
    [] Cls(src, k) = "bs"  -> IF Cls(src, k + 1) \in {"eof", "nl"} THEN -1 ELSE StrScan(src, k + 2)
    [] OTHER               -> StrScan(src, k + 1)
StrEnd(src, k) == IF Cls(src, k) = "q" THEN StrScan(src, k + 1) ELSE -1
NameOf(src, a, b) == [i \in 1 .. b - a |-> Id(src, a + i - 1)]

\* does the digit string src[a..b) exceed u64::MAX = 18446744073709551615 ?
U64MAX == <<1, 8, 4, 4, 6, 7, 4, 4, 0, 7, 3, 7, 0, 9, 5, 5, 1, 6, 1, 5>>
RECURSIVE LexGreater(_, _, _)
LexGreater(a, b, i) == IF i > Len(a) THEN FALSE
                       ELSE IF a[i] # b[i] THEN a[i] > b[i] ELSE LexGreater(a, b, i + 1)
TooLarge(src, a, b) ==
  LET ds == [i \in 1 .. b - a |-> Id(src, a + i - 1)]
      nz == {i \in 1 .. Len(ds) : ds[i] # 0}
      sig == IF nz = {} THEN <<>> ELSE SubSeq(ds, CHOOSE i \in nz : \A j \in nz : i <= j, Len(ds))
  IN Len(sig) > 20 \/ (Len(sig) = 20 /\ LexGreater(sig, U64MAX, 1))

Err(kind, span) == [ok |-> FALSE, err |-> [kind |-> kind, spans |-> <<span>>]]
StarHint == "Unxpected token: '*', perhaps this is a glob, in which case it requires string quoting. "
NameErr(src, k) == IF Cls(src, k) = "*" THEN Err(StarHint, Sp(src, k, k)) ELSE Err("Illegal name", Sp(src, k, k))

\* parse_namespaced -> [ok, v, k]
ParseNS(src, i) ==
  LET j == NameEnd(src, i) IN
  IF j < 0 THEN NameErr(src, i)
  ELSE LET i2 == Ws(src, j) IN
       IF Cls(src, i2) = ":" /\ Cls(src, i2 + 1) = ":"
       THEN LET i3 == Ws(src, i2 + 2)  j3 == NameEnd(src, i3) IN
            IF j3 < 0 THEN NameErr(src, i3)
            ELSE [ok |-> TRUE, k |-> Ws(src, j3),
                  v |-> [has_ns |-> TRUE, ns |-> NameOf(src, i, j), ns_span |-> Sp(src, i, j),
                         member |-> NameOf(src, i3, j3), span |-> Sp(src, i3, j3)]]
       ELSE [ok |-> TRUE, k |-> i2,
             v |-> [has_ns |-> FALSE, ns |-> <<>>, ns_span |-> <<0, 0>>,
                    member |-> NameOf(src, i, j), span |-> Sp(src, i, j)]]

\* parse_setting -> [ok, v, k] | [ok = FALSE, err] | "LOOP" inside err.kind
RECURSIVE ParseSetting(_, _, _)
RECURSIVE ArrayLoop(_, _, _, _, _, _)
ParseSetting(src, i0, fuel) ==
  LET i == Ws(src, i0)
      de == DigitsEnd(src, i)
      se == StrEnd(src, i)
  IN IF fuel = 0 THEN Err("LOOP", <<0, 0>>)
     ELSE IF de >= 0 THEN
       (IF TooLarge(src, i, de) THEN Err("Invalid entry: 'number too large'", Sp(src, i, de))
        ELSE [ok |-> TRUE, k |-> Ws(src, de), v |-> [t |-> "num", span |-> Sp(src, i, de)]])
     ELSE IF se >= 0 THEN [ok |-> TRUE, k |-> Ws(src, se), v |-> [t |-> "str", span |-> Sp(src, i + 1, se - 1)]]
     ELSE IF Cls(src, i) = "[" THEN ArrayLoop(src, i, i + 1, i + 1, <<>>, fuel - 1)
     ELSE LET p == ParseNS(src, i) IN
          IF ~p.ok THEN p
          ELSE IF Cls(src, p.k) = "("
          THEN LET a == ParseNS(src, p.k + 1) IN            \* no blanks allowed after `('
               IF ~a.ok THEN a
               ELSE IF Cls(src, a.k) = ")"
               THEN [ok |-> TRUE, k |-> Ws(src, a.k + 1), v |-> [t |-> "ctor", ctor |-> p.v, arg |-> a.v]]
               ELSE Err("Expected token: ')'", Sp(src, a.k, a.k))
          ELSE [ok |-> TRUE, k |-> p.k, v |-> [t |-> "unit", ns |-> p.v]]
\* the `loop' of the array branch; i = position of `[', open = position after it
ArrayLoop(src, i, open, j0, vals, fuel) ==
  IF fuel = 0 THEN Err("LOOP", <<0, 0>>)
  ELSE LET j == Ws(src, j0) IN
       IF Cls(src, j) = "]"
       THEN [ok |-> TRUE, k |-> j + 1,      \* (no blanks skipped after `]')
             v |-> [t |-> "arr", vals |-> vals, open |-> Sp(src, i, open), close |-> Sp(src, j, j + 1)]]
       ELSE LET e  == ParseSetting(src, j, fuel - 1)
                looped == ~e.ok /\ e.err.kind = "LOOP"
                v2 == IF e.ok THEN Append(vals, e.v) ELSE vals          \* errors of elements are dropped
                j2 == IF e.ok THEN Ws(src, e.k) ELSE j
                j3 == IF Cls(src, j2) = "," THEN j2 + 1 ELSE j2
            IN IF looped THEN e
               ELSE IF j3 = j /\ Variant # "noprogress"
               THEN Err("Expected token: ']'", Sp(src, j, j))
               ELSE ArrayLoop(src, i, open, j3, v2, fuel - 1)

\* parse_key_value -> [ok, key, key_span, v, k]
ParseKV(src, i, fuel) ==
  IF Cls(src, i) = "!"
  THEN LET j == i + 1  k == NameEnd(src, j) IN
       IF k < 0 THEN NameErr(src, j)
       ELSE [ok |-> TRUE, key |-> NameOf(src, j, k), key_span |-> Sp(src, j, k),
             v |-> [t |-> "flag", on |-> FALSE, span |-> Sp(src, i, k)], k |-> Ws(src, k)]
  ELSE LET j == NameEnd(src, i) IN
       IF j < 0 THEN NameErr(src, i)
       ELSE LET i2 == Ws(src, j) IN
            IF Cls(src, i2) = ":"
            THEN LET s == ParseSetting(src, i2 + 1, fuel) IN
                 IF ~s.ok THEN s
                 ELSE [ok |-> TRUE, key |-> NameOf(src, i, j), key_span |-> Sp(src, i, j), v |-> s.v, k |-> s.k]
            ELSE [ok |-> TRUE, key |-> NameOf(src, i, j), key_span |-> Sp(src, i, j),
                  v |-> [t |-> "flag", on |-> TRUE, span |-> Sp(src, i, j)], k |-> i2]

\* add_duplicate_occurrence
AddDup(errs, orig, dup) ==
  LET hit == {n \in 1 .. Len(errs) : errs[n].kind = "Duplicate Entry" /\ errs[n].spans[1] = orig} IN
  IF hit # {} THEN LET n == CHOOSE m \in hit : \A o \in hit : m <= o
                   IN [errs EXCEPT ![n].spans = Append(@, dup)]
  ELSE Append(errs, [kind |-> "Duplicate Entry", spans |-> <<orig, dup>>])

\* the `while' loop of parse(); entries = sequence of [key, key_span, v] in order of insertion
RECURSIVE Entries(_, _, _, _, _)
Entries(src, i, entries, errs, fuel) ==
  IF fuel = 0 THEN [st |-> "LOOP"]
  ELSE IF Cls(src, i) = "}" \/ i >= Len(src) THEN [st |-> "out", i |-> i, entries |-> entries, errs |-> errs]
  ELSE LET kv == ParseKV(src, i, fuel) IN
       IF ~kv.ok THEN (IF kv.err.kind = "LOOP" THEN [st |-> "LOOP"]
                       ELSE [st |-> "fail", errs |-> Append(errs, kv.err)])
       ELSE LET same == {n \in 1 .. Len(entries) : entries[n].key = kv.key}
                errs2 == IF same # {} THEN AddDup(errs, entries[CHOOSE n \in same : TRUE].key_span, kv.key_span) ELSE errs
                ents2 == IF same # {} THEN entries ELSE Append(entries, [key |-> kv.key, key_span |-> kv.key_span, v |-> kv.v])
            IN IF Cls(src, kv.k) = ","
               THEN Entries(src, Ws(src, kv.k + 1), ents2, errs2, fuel - 1)
               ELSE [st |-> "out", i |-> Ws(src, kv.k), entries |-> ents2, errs |-> errs2]

\* GrmtoolsSectionParser::new(src, required).parse()
\*   -> [class = "ok", pos, entries] | [class = "err", errors] | [class = "loop"]
Parse(src, required) ==
  LET k0 == Ws(src, 0) IN
  IF Cls(src, k0) = "M"
  THEN LET i == Ws(src, k0 + 1) IN
       IF Cls(src, i) = "{"
       THEN LET r == Entries(src, Ws(src, i + 1), <<>>, <<>>, 2 * Len(src) + 4) IN
            CASE r.st = "LOOP" -> [class |-> "loop"]
              [] r.st = "fail" -> [class |-> "err", errors |-> r.errs]
              [] OTHER ->
                 IF Cls(src, r.i) = "*"
                 THEN [class |-> "err", errors |-> Append(r.errs, [kind |-> StarHint, spans |-> <<Sp(src, r.i, r.i + 1)>>])]
                 ELSE IF Cls(src, r.i) = "}"
                 THEN (IF r.errs = <<>> THEN [class |-> "ok", pos |-> B(src, r.i + 1), entries |-> r.entries]
                       ELSE [class |-> "err", errors |-> r.errs])
                 ELSE [class |-> "err", errors |-> Append(r.errs, [kind |-> "Expected token: '}'", spans |-> <<Sp(src, i, r.i)>>])]
       ELSE [class |-> "err", errors |-> <<[kind |-> "Expected token: '{'", spans |-> <<Sp(src, i, i)>>]>>]
  ELSE IF required
  THEN [class |-> "err", errors |-> <<[kind |-> "Missing %grmtools section", spans |-> <<<<0, 0>>>>]>>]
  ELSE [class |-> "ok", pos |-> 0, entries |-> <<>>]

(***************************************************************************)
(* The contract of C12 on an outcome                                       *)
(***************************************************************************)
ByteLen(src) == B(src, Len(src))
Boundaries(src) == {B(src, k) : k \in 0 .. Len(src)}
SpanOK(src, s) == s[1] <= s[2] /\ s[2] <= ByteLen(src) /\ s[1] \in Boundaries(src) /\ s[2] \in Boundaries(src)
Total(src, r) ==
  /\ r.class # "loop"
  /\ r.class = "err" => /\ r.errors # <<>>
                        /\ \A n \in 1 .. Len(r.errors) : \A m \in 1 .. Len(r.errors[n].spans) : SpanOK(src, r.errors[n].spans[m])
  /\ r.class = "ok" => r.pos \in Boundaries(src)
=============================================================================
