------------------------------ MODULE OnceInit ------------------------------
(***************************************************************************)
(* First use of a generated parser from several threads (C15).  The        *)
(* generated module keeps grammar and state table in a once-cell           *)
(*   static DATA: OnceLock<ParserData> ... DATA.get_or_init(reconstitute)  *)
(* Each thread: check the cell; if it is empty try to become the           *)
(* initialiser (exactly one wins), reconstitute, publish; otherwise wait   *)
(* until the value is published; then use it.                              *)
(***************************************************************************)
EXTENDS Naturals, FiniteSets, TLC
CONSTANT Threads
VARIABLES cell,     \* "empty" | "running" | "done"
          value,    \* the published value (0 = nothing yet; 1 = the reconstituted data)
          pc,       \* per thread: "idle" | "check" | "init" | "wait" | "use" | "done"
          seen,     \* per thread: the value it parsed with (0 = none yet)
          inits     \* how many times the initialiser ran
ovars == <<cell, value, pc, seen, inits>>
Init == cell = "empty" /\ value = 0 /\ pc = [t \in Threads |-> "idle"] /\ seen = [t \in Threads |-> 0] /\ inits = 0
Call(t) == pc[t] = "idle" /\ pc' = [pc EXCEPT ![t] = "check"] /\ UNCHANGED <<cell, value, seen, inits>>
Check(t) ==
  /\ pc[t] = "check"
  /\ CASE cell = "empty" -> cell' = "running" /\ pc' = [pc EXCEPT ![t] = "init"]      \* wins the race
       [] cell = "running" -> cell' = cell /\ pc' = [pc EXCEPT ![t] = "wait"]
       [] OTHER -> cell' = cell /\ pc' = [pc EXCEPT ![t] = "use"]
  /\ UNCHANGED <<value, seen, inits>>
Initialise(t) == /\ pc[t] = "init" /\ value' = 1 /\ cell' = "done" /\ inits' = inits + 1
                 /\ pc' = [pc EXCEPT ![t] = "use"] /\ UNCHANGED seen
Wait(t) == pc[t] = "wait" /\ cell = "done" /\ pc' = [pc EXCEPT ![t] = "use"] /\ UNCHANGED <<cell, value, seen, inits>>
Use(t) == pc[t] = "use" /\ seen' = [seen EXCEPT ![t] = value] /\ pc' = [pc EXCEPT ![t] = "done"] /\ UNCHANGED <<cell, value, inits>>
Next == \E t \in Threads : Call(t) \/ Check(t) \/ Initialise(t) \/ Wait(t) \/ Use(t)
Spec == Init /\ [][Next]_ovars /\ WF_ovars(Next)
\* no thread parses with unpublished data; exactly one initialisation; every thread gets the
\* sequential result
NoUseBeforePublish == \A t \in Threads : pc[t] = "done" => seen[t] = 1
OneInit == inits <= 1
AllFinish == <>(\A t \in Threads : pc[t] = "done")
=============================================================================
