SPECIFICATION MCSpec
CONSTANTS
  Depth = 6
INVARIANT InvClean
INVARIANT InvClean2
INVARIANT InvNoStale
INVARIANT InvNoStaleLexer
CHECK_DEADLOCK FALSE
