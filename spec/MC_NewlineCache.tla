-------------------------- MODULE MC_NewlineCache --------------------------
(* Bounded model: every text over {a, e-acute (2 bytes), LF, CR} up to MaxLen bytes,
   fed in every chunking into at most MaxFeeds pieces. *)
EXTENDS NewlineCache
CONSTANTS MaxLen, MaxFeeds, Fixed
Chars == { <<97>>, <<LF>>, <<CR>>, <<195, 169>> }
RECURSIVE Flat(_)
Flat(cs) == IF cs = <<>> THEN <<>> ELSE Head(cs) \o Flat(Tail(cs))
Chunks(n) == UNION { [1 .. k -> Chars] : k \in 0 .. n }
MCFeed == /\ feeds < MaxFeeds
          /\ \E ch \in Chunks(MaxLen - Len(text)) :
                LET bs == Flat(ch) IN Len(text) + Len(bs) <= MaxLen /\ Feed(bs)
MCSpec == NLInit /\ [][MCFeed]_nvars
InvState == StateOK
InvQueries == QueriesOK /\ OutOfRangeOK
InvSpans == SpansOK(Fixed)
=============================================================================
