-------------------------- MODULE MC_NewlineCache --------------------------
(* Bounded model: every text over {a, e-acute (2 bytes), a CJK ideograph (3 bytes, 2 columns),
   LF, CR} up to MaxLen bytes, fed in every chunking into at most MaxFeeds pieces.
   Fixed / FixedR: the cache's span_line_bytes guard / the formatter's rendering loop with (TRUE)
   or without (FALSE) their "fix:" commits - the FALSE variants must be refuted. *)
EXTENDS Diagnostics
CONSTANTS MaxLen, MaxFeeds, Fixed, FixedR
Chars == { <<97>>, <<LF>>, <<CR>>, <<195, 169>>, <<228, 184, 150>> }
RECURSIVE Flat(_)
Flat(cs) == IF cs = <<>> THEN <<>> ELSE Head(cs) \o Flat(Tail(cs))
Chunks(n) == UNION { [1 .. k -> Chars] : k \in 0 .. n }
MCFeed == /\ feeds < MaxFeeds
          /\ \E ch \in Chunks(MaxLen - Len(text)) :
                LET bs == Flat(ch) IN Len(text) + Len(bs) <= MaxLen /\ Feed(bs)
MCSpec == NLInit /\ [][MCFeed]_nvars
InvState == StateOK
InvQueries == QueriesOK /\ OutOfRangeOK
InvSpans == SpansOK(Fixed)
InvRender == RenderOK(FixedR)
=============================================================================
