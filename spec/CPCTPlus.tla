------------------------------ MODULE CPCTPlus ------------------------------
(***************************************************************************)
(* CPCT+ error recovery (lrpar/src/lib/cpctplus.rs, dijkstra.rs): C05-C07. *)
(*                                                                         *)
(* MEANING layer: RefRepairs - a plain layered exhaustive search over the  *)
(* moves {insert a non-EOF token that has an action, delete the next       *)
(* lexeme, shift one lexeme; never insert directly after a delete}: all    *)
(* minimum-cost sequences that reach a success configuration through       *)
(* non-success configurations, restricted to those whose configuration     *)
(* parses furthest (at most AtMost lexemes), trailing shifts stripped.     *)
(* No node merging, no cactus stacks, no time budget.                      *)
(*                                                                         *)
(* A search node is [st, la, rep, c]; rep is a sequence of                 *)
(* <<"i", t>> | <<"d", 0>> | <<"s", 0>>.                                   *)
(***************************************************************************)
EXTENDS LRParse

CONSTANTS ParseAtLeast,     \* N: shifts that make a repair a success (3 in the code)
          TryParseAtMost    \* how far candidate repairs are test-parsed for ranking (250)

\* One lookahead token through the LR automaton on a bare state stack: all pending reductions,
\* then at most one shift.
RECURSIVE LR1Tok(_, _, _, _)
LR1Tok(T, st, t, fuel) ==
  LET a == TAct(T, st[Len(st)], t) IN
  CASE a[1] = "r" /\ fuel > 0 ->
          LET p == a[2]  st2 == SubSeq(st, 1, Len(st) - PLen(p))
          IN LR1Tok(T, Append(st2, TGoto(T, st2[Len(st2)], Lhs(p))), t, fuel - 1)
    [] a[1] = "s" -> [st |-> Append(st, a[2]), shifted |-> TRUE,  acc |-> FALSE]
    [] a[1] = "a" -> [st |-> st,               shifted |-> FALSE, acc |-> TRUE]
    [] OTHER      -> [st |-> st,               shifted |-> FALSE, acc |-> FALSE]
RFuel == 4 * (C.np + 2) * (C.np + 2)

Tok(toks, la) == IF la < Len(toks) THEN toks[la + 1] ELSE EOF
Cost(costs, t) == costs[t + 1]
LastRep(n) == IF Len(n.rep) = 0 THEN "none" ELSE n.rep[Len(n.rep)][1]
TrailShifts(rep) == LET idx == {i \in 1 .. Len(rep) : rep[i][1] # "s"}
                    IN IF idx = {} THEN Len(rep) ELSE Len(rep) - Max(idx)
\* a configuration is a success if the last N repairs are shifts, or if the parser - after the
\* reductions the lookahead calls for - accepts
Success(T, toks, n) == \/ TrailShifts(n.rep) >= ParseAtLeast
                       \/ LR1Tok(T, n.st, Tok(toks, n.la), RFuel).acc

\* shift one real lexeme (after the reductions it calls for).  There is deliberately no
\* "reduce only" move: reductions depend on the lookahead, so a stack reduced under one
\* lookahead must not be the starting point of an insert or delete (replaying the sequence on
\* the real parser would not recreate it).
ShiftNbr(T, toks, n) ==
  LET r == LR1Tok(T, n.st, Tok(toks, n.la), RFuel) IN
  IF r.shifted /\ n.la < Len(toks)
  THEN {[st |-> r.st, la |-> n.la + 1, rep |-> Append(n.rep, <<"s", 0>>), c |-> n.c]}
  ELSE {}
InsNbrs(T, toks, costs, n) ==
  IF LastRep(n) = "d" THEN {} ELSE                    \* never insert after delete
  UNION { LET r == LR1Tok(T, n.st, t, RFuel) IN
          IF r.shifted THEN {[st |-> r.st, la |-> n.la, rep |-> Append(n.rep, <<"i", t>>),
                              c |-> n.c + Cost(costs, t)]} ELSE {}
        : t \in {u \in Tokens : u # EOF /\ TAct(T, n.st[Len(n.st)], u)[1] # "e"} }   \* never insert EOF
DelNbr(toks, costs, n) ==
  IF n.la >= Len(toks) THEN {} ELSE
  {[st |-> n.st, la |-> n.la + 1, rep |-> Append(n.rep, <<"d", 0>>),
    c |-> n.c + Cost(costs, Tok(toks, n.la))]}

\* close a set of same-cost nodes under (zero-cost) shift moves through non-success nodes
RECURSIVE ShiftClose(_, _, _, _)
ShiftClose(T, toks, done, todo) ==
  IF todo = {} THEN done
  ELSE LET new == UNION { IF Success(T, toks, n) THEN {} ELSE ShiftNbr(T, toks, n) : n \in todo }
           done2 == done \cup todo
       IN ShiftClose(T, toks, done2, new \ done2)

\* Layered search.  `pend' holds the seed nodes of the layers not yet explored; the next
\* layer is the one of least cost.  Nodes with more than maxops inserts/deletes are dropped and
\* the least cost of a dropped node is remembered (dmin): a result of cost c is exact only if
\* c < dmin.  Returns [found, succ, capped].
Ops(rep) == Cardinality({i \in 1 .. Len(rep) : rep[i][1] # "s"})
BIG == 100000000
RECURSIVE Search(_, _, _, _, _, _)
Search(T, toks, costs, pend, maxops, dmin) ==
  IF pend = {} THEN [found |-> FALSE, succ |-> {}, capped |-> dmin < BIG]
  ELSE LET c     == Min({n.c : n \in pend})
           seeds == {n \in pend : n.c = c}
           layer == ShiftClose(T, toks, {}, seeds)
           succ  == {n \in layer : Success(T, toks, n)}
       IN IF succ # {} THEN [found |-> TRUE, succ |-> succ, capped |-> dmin <= c]
          ELSE LET nbrs == UNION { InsNbrs(T, toks, costs, n) \cup DelNbr(toks, costs, n) : n \in layer }
                   keep == {n \in nbrs : Ops(n.rep) <= maxops}
                   drop == nbrs \ keep
                   dmin2 == IF drop = {} THEN dmin ELSE Min({dmin} \cup {n.c : n \in drop})
               IN Search(T, toks, costs, (pend \ seeds) \cup keep, maxops, dmin2)

\* how far does a plain parse get from a configuration (rank_cnds)
RECURSIVE Dist(_, _, _, _, _)
Dist(T, toks, st, la, lim) ==
  IF la = lim \/ la > Len(toks) THEN la
  ELSE LET r == LR1Tok(T, st, Tok(toks, la), RFuel)
       IN IF r.shifted THEN Dist(T, toks, r.st, la + 1, lim) ELSE la

Strip(rep) == SubSeq(rep, 1, Len(rep) - TrailShifts(rep))

\* result: [found, capped, cost, set : set of stripped repair sequences]
RefRepairs(T, toks, costs, st, la, maxops) ==
  LET start == [st |-> st, la |-> la, rep |-> <<>>, c |-> 0]
      res   == Search(T, toks, costs, {start}, maxops, BIG)
  IN IF ~res.found THEN [found |-> FALSE, capped |-> res.capped, cost |-> -1, set |-> {}]
     ELSE IF res.capped THEN [found |-> FALSE, capped |-> TRUE, cost |-> -1, set |-> {}]
     ELSE LET far == Max({Dist(T, toks, n.st, n.la, la + TryParseAtMost) : n \in res.succ})
              best == {m \in res.succ : Dist(T, toks, m.st, m.la, la + TryParseAtMost) = far}
          IN [found |-> TRUE, capped |-> FALSE, cost |-> (CHOOSE n \in res.succ : TRUE).c,
              set |-> { Strip(n.rep) : n \in best }]

(***************************************************************************)
(* Applying a repair sequence to a bare stack (what "repairs" means).      *)
(***************************************************************************)
RECURSIVE ApplyBare(_, _, _, _, _)
\* returns [ok, st, la]
ApplyBare(T, toks, st, la, seq) ==
  IF seq = <<>> THEN [ok |-> TRUE, st |-> st, la |-> la]
  ELSE LET r == Head(seq) IN
       CASE r[1] = "d" -> IF la >= Len(toks) THEN [ok |-> FALSE, st |-> st, la |-> la]
                          ELSE ApplyBare(T, toks, st, la + 1, Tail(seq))
         [] r[1] = "i" -> LET x == LR1Tok(T, st, r[2], RFuel) IN
                          IF x.shifted THEN ApplyBare(T, toks, x.st, la, Tail(seq))
                          ELSE [ok |-> FALSE, st |-> st, la |-> la]
         [] OTHER      -> LET x == LR1Tok(T, st, Tok(toks, la), RFuel) IN
                          IF x.shifted /\ la < Len(toks) THEN ApplyBare(T, toks, x.st, la + 1, Tail(seq))
                          ELSE [ok |-> FALSE, st |-> st, la |-> la]
\* after applying seq: at least N further lexemes shift without error, or accept is reached
RECURSIVE Continues(_, _, _, _, _)
Continues(T, toks, st, la, n) ==
  IF n = 0 THEN TRUE
  ELSE LET x == LR1Tok(T, st, Tok(toks, la), RFuel) IN
       IF x.acc THEN TRUE
       ELSE IF x.shifted /\ la < Len(toks) THEN Continues(T, toks, x.st, la + 1, n - 1)
       ELSE FALSE
ValidRepair(T, toks, st, la, seq) ==
  LET a == ApplyBare(T, toks, st, la, seq) IN
  a.ok /\ Continues(T, toks, a.st, a.la, ParseAtLeast)
SeqCostOf(toks, costs, la, seq) ==      \* total cost of a repair sequence applied at la
  LET RECURSIVE go(_, _)
      go(s, l) == IF s = <<>> THEN 0
                  ELSE CASE Head(s)[1] = "i" -> Cost(costs, Head(s)[2]) + go(Tail(s), l)
                         [] Head(s)[1] = "d" -> Cost(costs, Tok(toks, l)) + go(Tail(s), l + 1)
                         [] OTHER -> go(Tail(s), l + 1)
  IN go(seq, la)
=============================================================================
