--------------------------- MODULE OnceInitProof ---------------------------
(* The once-cell protocol of first use (OnceInit.tla, C15) for ANY set of threads: exactly one
   initialisation, and no thread ever parses with unpublished data.  TLC checks the same two
   invariants (and termination) for three threads; here they follow from an inductive invariant,
   proved by TLAPS. *)
EXTENDS OnceInit, TLAPS

PCs == {"idle", "check", "init", "wait", "use", "done"}
IndInv ==
  /\ cell \in {"empty", "running", "done"} /\ value \in {0, 1} /\ inits \in Nat
  /\ pc \in [Threads -> PCs] /\ seen \in [Threads -> {0, 1}]
  /\ cell = "empty" => inits = 0 /\ value = 0 /\ \A t \in Threads : pc[t] \in {"idle", "check"}
  /\ cell = "running" => inits = 0 /\ value = 0
  /\ cell = "done" => inits = 1 /\ value = 1
  /\ \A t \in Threads : pc[t] = "init" => cell = "running"
  /\ \A t, u \in Threads : pc[t] = "init" /\ pc[u] = "init" => t = u
  /\ \A t \in Threads : pc[t] \in {"use", "done"} => cell = "done"
  /\ \A t \in Threads : pc[t] = "done" => seen[t] = 1

LEMMA InitInd == Init => IndInv
  BY DEF Init, IndInv, PCs

LEMMA StepInd == IndInv /\ [Next]_ovars => IndInv'
  <1> SUFFICES ASSUME IndInv, [Next]_ovars PROVE IndInv'
    OBVIOUS
  <1>1. CASE UNCHANGED ovars
    BY <1>1 DEF IndInv, ovars
  <1>2. ASSUME NEW t \in Threads, Call(t) PROVE IndInv'
    BY <1>2 DEF IndInv, Call, PCs
  <1>3. ASSUME NEW t \in Threads, Check(t) PROVE IndInv'
    <2>1. CASE cell = "empty"
      BY <1>3, <2>1 DEF IndInv, Check, PCs
    <2>2. CASE cell = "running"
      BY <1>3, <2>2 DEF IndInv, Check, PCs
    <2>3. CASE cell = "done"
      BY <1>3, <2>3 DEF IndInv, Check, PCs
    <2> QED BY <2>1, <2>2, <2>3 DEF IndInv
  <1>4. ASSUME NEW t \in Threads, Initialise(t) PROVE IndInv'
    BY <1>4 DEF IndInv, Initialise, PCs
  <1>5. ASSUME NEW t \in Threads, Wait(t) PROVE IndInv'
    BY <1>5 DEF IndInv, Wait, PCs
  <1>6. ASSUME NEW t \in Threads, Use(t) PROVE IndInv'
    BY <1>6 DEF IndInv, Use, PCs
  <1> QED BY <1>1, <1>2, <1>3, <1>4, <1>5, <1>6 DEF Next

LEMMA IndImplies == IndInv => OneInit /\ NoUseBeforePublish
  BY DEF IndInv, OneInit, NoUseBeforePublish

THEOREM Safety == Spec => [](OneInit /\ NoUseBeforePublish)
  <1>1. Init /\ [][Next]_ovars => []IndInv
    BY InitInd, StepInd, PTL
  <1> QED BY <1>1, IndImplies, PTL DEF Spec
=============================================================================
