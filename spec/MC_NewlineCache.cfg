SPECIFICATION MCSpec
CONSTANTS
  MaxLen = 6
  MaxFeeds = 3
  Fixed = TRUE
INVARIANT InvState
INVARIANT InvQueries
INVARIANT InvSpans
CHECK_DEADLOCK FALSE
