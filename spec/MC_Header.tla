------------------------------ MODULE MC_Header ------------------------------
(* Bounded model of the %grmtools section parser: every text  [blank] %grmtools [blank] { body
   with a body of up to BodyLen characters over Alphabet (plus every text of up to 2 characters
   without that prefix): the parser terminates (never "loop") and its outcome satisfies the C12
   contract.  With Variant = "noprogress" (array loop without the `nothing consumed' test) the
   invariant must be refuted. *)
EXTENDS Header
CONSTANTS BodyLen
Alphabet == { <<"ws", 1, 0>>, <<"nl", 1, 0>>, <<"ws", 3, 0>>, <<"L", 1, 97>>, <<"L", 1, 98>>, <<"_", 1, 95>>,
              <<"D", 1, 1>>, <<"D", 1, 9>>, <<"q", 1, 0>>, <<"bs", 1, 0>>, <<"[", 1, 0>>, <<"]", 1, 0>>, <<",", 1, 0>>,
              <<":", 1, 0>>, <<"(", 1, 0>>, <<")", 1, 0>>, <<"}", 1, 0>>, <<"!", 1, 0>>, <<"*", 1, 0>>, <<"o", 2, 0>> }
VARIABLE text
Prefixes == { << <<"M", 9, 0>>, <<"{", 1, 0>> >>, << <<"ws", 1, 0>>, <<"M", 9, 0>>, <<"ws", 1, 0>>, <<"{", 1, 0>> >> }
Bodies == UNION { [1 .. n -> Alphabet] : n \in 0 .. BodyLen }
Init == \/ \E p \in Prefixes : \E b \in Bodies : text = p \o b
        \/ \E b \in UNION { [1 .. n -> Alphabet \cup {<<"M", 9, 0>>, <<"{", 1, 0>>}] : n \in 0 .. 2 } : text = b
Next == UNCHANGED text
Spec == Init /\ [][Next]_text
Inv == Total(text, Parse(text, FALSE)) /\ Total(text, Parse(text, TRUE))
=============================================================================
