SPECIFICATION Spec
CONSTANTS
  Win = 3
  Widths = {8, 16}
  Fixed = TRUE
INVARIANT Inv
CHECK_DEADLOCK FALSE
