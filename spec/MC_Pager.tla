------------------------------ MODULE MC_Pager ------------------------------
(***************************************************************************)
(* Bounded model of the construction pipeline (C01, C02, C04, C16 at the   *)
(* level of the DESIGN): for every grammar of a family (IOEnv.GRAMMARS, one *)
(* grammar record per line) Pager's algorithm is explored under EVERY      *)
(* order in which the successors of a state can be processed (the code     *)
(* walks a hash map there).  In every final state:                         *)
(*   - each live closed state is the LR(1) closure of its kernel (C16)     *)
(*   - the automaton has no more states than the canonical one, and no     *)
(*     conflict if the grammar is LR(1) (C02)                              *)
(*   - the table Yacc's rules give for it accepts exactly the sentences up *)
(*     to length L and rejects at the first lexeme that cannot continue a  *)
(*     sentence, whenever it is conflict-free (C01, C04)                   *)
(* MergeMode = "lalr" replaces weak compatibility by "same core" and must  *)
(* yield a counterexample on LR(1)-but-not-LALR(1) grammars (vacuity).     *)
(***************************************************************************)
EXTENDS CPCTPlus, Json, IOUtils

CONSTANTS MergeMode, L
Gs == ndJsonDeserialize(IOEnv.GRAMMARS)
VARIABLE gi
mvars == <<C, pvars, gi>>

Compatible(K1, K2) == IF MergeMode = "lalr" THEN CoreOf(K1) = CoreOf(K2) ELSE WeaklyCompatible(K1, K2)
WeakIdxM(sym, ns) == {j \in 1 .. Len(Cands(sym)) : Compatible(core[Cands(sym)[j] + 1], ns)}
\* the Pager actions with the compatibility test as a parameter of the model
MMergeGuard(sym, k, ns) == /\ <<sym, ns>> \in pending /\ ExactIdx(sym, ns) = {}
                           /\ WeakIdxM(sym, ns) # {} /\ k = Cands(sym)[Min(WeakIdxM(sym, ns))]
MNewGuard(sym, k, ns) == /\ <<sym, ns>> \in pending /\ ExactIdx(sym, ns) = {} /\ WeakIdxM(sym, ns) = {} /\ k = NStates

Init == /\ gi \in 1 .. Len(Gs) /\ C = MkCtx(Gs[gi])
        /\ core = << { <<Gs[gi].startprod, 0, Gs[gi].eof>> } >> /\ closed = << {} >> /\ isc = <<FALSE>> /\ edges = << <<>> >>
        /\ cnd = [s \in (0 .. Gs[gi].nt - 1) \cup {ROFF + r : r \in 0 .. Gs[gi].nr - 1} |-> <<>>]
        /\ todo_off = 0 /\ pending = {} /\ cur = 0
Next == /\ UNCHANGED <<C, gi>>
        /\ \/ \E i \in 0 .. NStates - 1 : Pick(i)
           \/ \E pr \in pending : \E k \in 0 .. NStates :
                 \/ ProcExact(pr[1], k, pr[2])
                 \/ (MMergeGuard(pr[1], k, pr[2]) /\ MergeEffect(pr[1], k, pr[2]))
                 \/ (MNewGuard(pr[1], k, pr[2]) /\ NewEffect(pr[1], k, pr[2]))
Spec == Init /\ [][Next]_mvars

\* ---- properties of final states ----
LiveStates == Live
ClosedOK == PagerDone => \A i \in LiveStates : closed[i + 1] = Closure(core[i + 1])
CanonSet == Canon
NotMoreStates == PagerDone => Cardinality(LiveStates) <= Cardinality(CanonSet)
CanonLR1 == \A k \in CanonSet : ~ConflictIn(Closure(k))
NoNewConflict == PagerDone => (CanonLR1 => \A i \in LiveStates : ~ConflictIn(closed[i + 1]))

\* the table of the final automaton and its language
AllStr(n) == UNION { [1 .. k -> (Tokens \ {EOF})] : k \in 0 .. n }
ModelTable == LET a == GCGraph IN
  [start |-> 0,
   act  |-> [s \in 1 .. a.n |-> [t \in 1 .. C.nt |-> YaccAct(a, s - 1, t - 1)]],
   goto |-> [s \in 1 .. a.n |-> [r \in 1 .. C.nr |-> YaccGoto(a, s - 1, r - 1)]]]
LexOfToks(w) == [i \in 1 .. Len(w) |-> <<w[i], 2 * (i - 1), 1>>]
LanguageOK ==
  PagerDone =>
    LET a == GCGraph IN
    (\A s \in 0 .. a.n - 1 : ~ConflictIn(a.closed[s + 1])) /\ ~Cyclic =>
      LET t == ModelTable  lang == Lang(L)  pre == IF AllProductive THEN Pre(L) ELSE {} IN
      \A w \in AllStr(L) :
        LET lex == LexOfToks(w)
            r == Run(t, lex, InitCfg(t), Fuel(lex)) IN
        /\ (r.st = "acc") = (w \in lang)
        /\ (r.st = "acc" => TreeValid(r.ev, Len(r.ev) - 1) /\ [i \in 1 .. Len(w) |-> Yield(r.ev, Len(r.ev) - 1)[i][2]] = w)
        /\ (r.st = "err" /\ AllProductive =>
              LET bad == {i \in 1 .. Len(w) : SubSeq(w, 1, i) \notin pre} IN
              r.la = (IF bad = {} THEN Len(w) ELSE Min(bad) - 1))
=============================================================================
