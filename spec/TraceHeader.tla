---------------------------- MODULE TraceHeader ----------------------------
(* Trace specification for the %grmtools section parser: one `hdr' event per text - the text as
   a sequence of <<class, width, id>> characters (lib/p_hdr.py classifies, see Header.tla) and
   what GrmtoolsSectionParser::parse returned.  The transcribed parser must predict the outcome
   EXACTLY: class, end position, every entry (key, key span, value shape with all spans) and,
   for errors, the list of kinds with their spans in order; and the outcome must satisfy the
   C12 contract. *)
EXTENDS Header, Json, IOUtils
Rec == ndJsonDeserialize(IOEnv.TRACE)
VARIABLES l, ndev
Prop == IF "PROP" \in DOMAIN IOEnv THEN IOEnv.PROP ELSE "C12"
Report(inst, S) == \A d \in S : PrintT(<<"DEV", Prop, inst, l, d[1], d[2]>>)
ToSet(s) == {s[i] : i \in 1 .. Len(s)}
SrcOf(e) == [i \in 1 .. Len(e.src) |-> <<e.src[i][1], e.src[i][2], e.src[i][3]>>]
ErrList(es) == [i \in 1 .. Len(es) |-> [kind |-> es[i].kind, spans |-> [j \in 1 .. Len(es[i].spans) |-> <<es[i].spans[j][1], es[i].spans[j][2]>>]]]
Devs(e) ==
  IF e.res.class = "panic" THEN { <<"section parser panicked", e.res.msg>> }
  ELSE IF e.res.class = "hang" THEN { <<"section parser did not return", 0>> }
  ELSE
  LET src == SrcOf(e)
      m == Parse(src, FALSE)
  IN (IF Total(src, m) THEN {} ELSE { <<"model outcome violates the contract", m>> })
     \cup (IF m.class # e.res.class THEN { <<"outcome class # model", <<e.res.class, m.class>> >> }
           ELSE IF m.class = "ok"
           THEN (IF m.pos = e.res.pos THEN {} ELSE { <<"end position # model", <<e.res.pos, m.pos>> >> })
                \cup (IF ToSet(m.entries) = ToSet(e.res.entries) /\ Len(m.entries) = Len(e.res.entries) THEN {}
                      ELSE { <<"parsed entries # model", <<e.res.entries, m.entries>> >> })
           ELSE IF m.class = "err"
           THEN (IF ErrList(e.res.errors) = m.errors THEN {} ELSE { <<"INFO: errors # model (both reject the text)", <<ErrList(e.res.errors), m.errors>> >> })
           ELSE {})
Init == l = 1 /\ ndev = 0
Next == /\ l <= Len(Rec) /\ l' = l + 1
        /\ LET e == Rec[l]  ds == Devs(e) IN Report(e.id, ds) /\ ndev' = ndev + Cardinality(ds)
Spec == Init /\ [][Next]_<<l, ndev>>
Consumed == (l = Len(Rec) + 1) => PrintT(<<"DONE", Len(Rec), ndev>>)
=============================================================================
