----------------------------- MODULE MC_MarkMap -----------------------------
(* every pair of maps over 2 keys (all marks, merge behaviours, default behaviours, values from
   {NoVal, 1, 2}): the laws the builders rely on; TheirsDoc is expected to FAIL (named deviation
   of the code from its documentation) and is run separately as a sanity check of the model *)
EXTENDS MarkMap
VARIABLES a, b
Vals == {NoVal, 1, 2}
MBs == {"none", "theirs", "ours", "excl"}
Slots == {s \in [present : BOOLEAN, used : BOOLEAN, req : BOOLEAN, mb : MBs, val : Vals] :
            (~s.present => s = Absent)}
Maps == [dmb : {"theirs", "ours", "excl"}, e : [Keys -> Slots]]
Init == a \in Maps /\ b \in Maps
Next == UNCHANGED <<a, b>>
Spec == Init /\ [][Next]_<<a, b>>
Laws == OursLaw(a, b) /\ ExclLaw(a, b)
Doc == TheirsDoc(a, b)
=============================================================================
