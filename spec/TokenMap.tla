------------------------------ MODULE TokenMap ------------------------------
(***************************************************************************)
(* lrlex::CTTokenMapBuilder (C15: generated modules are a function of the   *)
(* sources and settings alone): the module of token-id constants that is    *)
(* generated for hand-written lexers.  The token map arrives as a hash map; *)
(* what is generated must not depend on its iteration order:               *)
(*   one `pub const T_<NAME>: StorageT = id;' per token (as coded: in the  *)
(*   order of the tokens' original names; any fixed order would do - a      *)
(*   different one is reported as informational), NAME being the name - or  *)
(*   what the rename map gives for it - in ASCII upper case; then TOK_IDS, the   *)
(*   ids in the same order.  The build fails (and writes nothing) iff some  *)
(*   T_<NAME> is not a Rust identifier.                                     *)
(* Names are sequences of code points.                                      *)
(***************************************************************************)
EXTENDS Naturals, Sequences, FiniteSets, SequencesExt, FiniteSetsExt

LexLess(a, b) ==
  \E k \in 1 .. Min({Len(a), Len(b)}) + 1 :
     /\ \A j \in 1 .. k - 1 : a[j] = b[j]
     /\ IF k <= Len(a) /\ k <= Len(b) THEN a[k] < b[k] ELSE k > Len(a) /\ k <= Len(b)

Upper(c) == IF c >= 97 /\ c <= 122 THEN c - 32 ELSE c
\* characters that may continue a Rust identifier - for the alphabet of the drivers (ASCII letters,
\* digits, underscore, and the two non-ASCII letters they use); not a model of Unicode XID
IsIdChar(c) == \/ c \in 48 .. 57 \/ c \in 65 .. 90 \/ c \in 97 .. 122 \/ c = 95 \/ c \in {233, 19990}

\* tokens: sequence of <<name, id>> (any order, names distinct); rename: sequence of <<from, to>>
Renamed(name, rename) ==
  LET hits == {i \in 1 .. Len(rename) : rename[i][1] = name} IN
  IF hits = {} THEN name ELSE rename[Max(hits)][2]          \* a later pair overrides an earlier one
Ident(name, rename) == LET n == Renamed(name, rename) IN <<84, 95>> \o [i \in 1 .. Len(n) |-> Upper(n[i])]
IdentOK(name, rename) == \A i \in 1 .. Len(Renamed(name, rename)) : IsIdChar(Renamed(name, rename)[i])
BuildOK(tokens, rename) == \A i \in 1 .. Len(tokens) : IdentOK(tokens[i][1], rename)
Sorted(tokens) == SetToSortSeq(ToSet(tokens), LAMBDA x, y : LexLess(x[1], y[1]))
Consts(tokens, rename) == LET s == Sorted(tokens) IN [i \in 1 .. Len(s) |-> <<Ident(s[i][1], rename), s[i][2]>>]
TokIds(tokens) == LET s == Sorted(tokens) IN [i \in 1 .. Len(s) |-> s[i][2]]

\* deviations of one recorded build from the model
TokMapDevs(e) ==
  LET ok == BuildOK(e.tokens, e.rename) IN
  (IF e.res.ok = ok THEN {} ELSE { <<"token map: build outcome (fails iff some T_<NAME> is not an identifier)", <<e.res.ok, ok, e.res.err>> >> })
  \cup (IF ~e.res.ok \/ ~ok THEN {}
        ELSE \* WHAT is generated is the builder's documented behaviour; the ORDER is its own choice (any
             \* fixed order serves C15 - the digests of several processes are compared): informational
             (IF ToSet(e.res.consts) = ToSet(Consts(e.tokens, e.rename)) /\ Len(e.res.consts) = Len(e.tokens) THEN {}
              ELSE { <<"token map: constants (one per token: T_<renamed name in upper case> = id)", <<e.res.consts, Consts(e.tokens, e.rename)>> >> })
             \cup (IF e.res.consts = Consts(e.tokens, e.rename) \/ ToSet(e.res.consts) # ToSet(Consts(e.tokens, e.rename)) THEN {}
                   ELSE { <<"INFO: token map: constants not in the order of the token names", e.res.consts>> })
             \cup (IF Len(e.res.tok_ids) = Len(e.tokens) /\ \A x \in ToSet(e.res.tok_ids) :
                         Cardinality({i \in 1 .. Len(e.res.tok_ids) : e.res.tok_ids[i] = x}) = Cardinality({i \in 1 .. Len(e.tokens) : e.tokens[i][2] = x})
                   THEN {} ELSE { <<"token map: TOK_IDS (the ids of all tokens)", <<e.res.tok_ids, TokIds(e.tokens)>> >> })
             \cup (IF e.res.mod_name_ok /\ e.res.allow_dead_code_attr = e.adc THEN {} ELSE { <<"token map: module name / allow(dead_code)", e.res>> }))
  \cup (IF ok \/ ~e.res.exists THEN {} ELSE { <<"token map: a failed build left a file", e.res.err>> })
=============================================================================
