----------------------------- MODULE Diagnostics -----------------------------
(***************************************************************************)
(* lrpar::diagnostics::SpannedDiagnosticFormatter (C19: "error pretty-      *)
(* printing reports these positions"): the rendering of one span -          *)
(*                                                                         *)
(*     <line number>| <text of the line>                                   *)
(*     <indentation up to the span><underline> <message>                    *)
(*                                                                         *)
(* for every line the span touches.  MEANING layer: `Render', defined on    *)
(* the text through the line structure of NewlineCache (`LineStarts',       *)
(* `SpanLines', `Line').  ALGORITHM layer: `AlgRender', the loop of         *)
(* prefixed_underline_span_with_text as coded (str::lines(), the running    *)
(* span, the per-line arithmetic), a panic being the value PANIC.           *)
(* Output is a sequence of code points; the message is the single letter M. *)
(***************************************************************************)
EXTENDS NewlineCache

\* display width as unicode-width 0.1.x computes it FOR THE ALPHABET OF THE DRIVERS (ASCII incl.
\* control characters: 1; two-byte Latin letters: 1; the three- and four-byte characters used - a
\* CJK ideograph and an emoji: 2).  Not a model of Unicode.
CharW(b) == IF b < 224 THEN 1 ELSE 2
Width(lo, hi) == LET cs == CharStarts(lo, hi) IN Cardinality(cs) + Cardinality({p \in cs : CharW(text[p + 1]) = 2})

RECURSIVE Decode(_, _)       \* bytes at offsets [lo, hi) as code points
Decode(lo, hi) ==
  IF lo >= hi THEN <<>>
  ELSE LET b == text[lo + 1] IN
       IF b < 128 THEN <<b>> \o Decode(lo + 1, hi)
       ELSE IF b < 224 THEN <<(b - 192) * 64 + (text[lo + 2] - 128)>> \o Decode(lo + 2, hi)
       ELSE IF b < 240 THEN <<(b - 224) * 4096 + (text[lo + 2] - 128) * 64 + (text[lo + 3] - 128)>> \o Decode(lo + 3, hi)
       ELSE <<(b - 240) * 262144 + (text[lo + 2] - 128) * 4096 + (text[lo + 3] - 128) * 64 + (text[lo + 4] - 128)>> \o Decode(lo + 4, hi)
RECURSIVE Digits(_)
Digits(n) == IF n < 10 THEN <<48 + n>> ELSE Digits(n \div 10) \o <<48 + (n % 10)>>
Rep(c, n) == [i \in 1 .. n |-> c]
BAR == <<124, 32>>           \* "| "
MSG == <<32, 77>>            \* " M"
IsCRLFAt(o) == o + 2 <= Len(text) /\ text[o + 1] = CR /\ text[o + 2] = LF

\* ---------------------------------------------------------------------------------------------
\* MEANING.  The region is that of SpanLines (end offset read inclusively).  The lines shown are
\* the lines that begin in it - except a last line that is empty (nothing of it can be covered)
\* unless it is the only one.  A line is shown without its terminator (LF or CR LF); the last line
\* shown ends where the region ends.
ShownLines(s, en) ==
  LET S == LineStartOf(s)  E == LineEndOf(en) IN {ls \in LineStarts : ls >= S /\ ls <= E /\ (ls < E \/ ls = S)}
VisibleEnd(ls, E) ==
  LET le == LineEndOf(ls) IN
  IF le >= E THEN E ELSE IF le > ls /\ text[le] = CR THEN le - 1 ELSE le
\* pfx: what replaces the first columns of the indentation ("..." when the next span of the same
\* error is not on the next line, else nothing); msg: the message after the last underline
RenderLine(ls, s, en, S, E, last, pfx, msg) ==
  LET us == IF ls = S THEN s ELSE ls              \* where the underline starts on this line
      ve == VisibleEnd(ls, E)
      ue == Min({en, Max({us, ve})})              \* ... and where it ends (never before it starts)
      ds == Digits(Line(ls))
  IN ds \o BAR \o Decode(ls, ve) \o <<LF>>
     \o pfx \o Rep(32, Width(ls, us) + Len(ds) + 2 - Len(pfx)) \o Rep(94, Max({1, Width(us, ue)}))
     \o (IF last THEN <<32>> \o msg ELSE <<LF>>)
RECURSIVE RenderFrom(_, _, _, _, _, _, _)
RenderFrom(lss, s, en, S, E, pfx, msg) ==
  IF lss = <<>> THEN <<>>
  ELSE RenderLine(Head(lss), s, en, S, E, Len(lss) = 1, pfx, msg) \o RenderFrom(Tail(lss), s, en, S, E, pfx, msg)
RenderP(s, en, pfx, msg) ==
  LET S == LineStartOf(s)  E == LineEndOf(en) IN RenderFrom(SetToSortSeq(ShownLines(s, en), <), s, en, S, E, pfx, msg)
Render(s, en) == RenderP(s, en, <<>>, <<77>>)

\* An error or warning with several spans (format_spanned): the first span carries the message,
\* every further one "<n>th occurrence" (duplication errors; other kinds have one span); a span is
\* prefixed with dots when the next one is more than a line further down.
Ordinal(v) ==
  LET suf == IF (v % 100) \in 11 .. 13 THEN <<116, 104>>
             ELSE CASE v % 10 = 1 -> <<115, 116>> [] v % 10 = 2 -> <<110, 100>> [] v % 10 = 3 -> <<114, 100>> [] OTHER -> <<116, 104>>
  IN Digits(v) \o suf
OCCURRENCE == <<32, 111, 99, 99, 117, 114, 114, 101, 110, 99, 101>>        \* " occurrence"
RECURSIVE RenderSpannedFrom(_, _, _)
RenderSpannedFrom(spans, i, msg) ==
  IF i > Len(spans) THEN <<>>
  ELSE LET sp == spans[i]
           ln == Line(sp[1])
           nx == IF i < Len(spans) THEN Line(spans[i + 1][1]) ELSE ln
           pfx == IF nx > ln + 1 THEN <<46, 46, 46>> ELSE <<>>
       IN (IF i = 1 THEN RenderP(sp[1], sp[2], pfx, msg)
           ELSE <<LF>> \o RenderP(sp[1], sp[2], pfx, Ordinal(i) \o OCCURRENCE))
          \o RenderSpannedFrom(spans, i + 1, msg)
RenderSpanned(spans, msg) == RenderSpannedFrom(spans, 1, msg)

\* ---------------------------------------------------------------------------------------------
\* ALGORITHM, as coded.  `fixed' says which of the two repairs of the "fix:" commit are in:
\* "both"; "nosat" = only "an empty region is still one - empty - line"; "noempty" = only "the
\* remaining length of a line saturates at 0"; "none" = as pinned.
FixE(fixed) == fixed \in {"both", "nosat"}
FixS(fixed) == fixed \in {"both", "noempty"}
RECURSIVE RustLines(_, _)    \* str::lines() over [p, E): <<start, visible end>> per line
RustLines(p, E) ==
  IF p >= E THEN <<>>
  ELSE LET lfs == {k \in p .. E - 1 : text[k + 1] = LF} IN
       IF lfs = {} THEN << <<p, E>> >>
       ELSE LET lf == Min(lfs)
                v  == IF lf > p /\ text[lf] = CR THEN lf - 1 ELSE lf
            IN << <<p, v>> >> \o RustLines(lf + 1, E)
RECURSIVE AlgLoop(_, _, _, _, _)
AlgLoop(ps, i, cs, en, fixed) ==
  IF i > Len(ps) THEN <<>>
  ELSE LET len == ps[i][2] - ps[i][1]              \* source_line.len()
           lsb == LineStartOf(cs)                  \* span_line_bytes(span).0 (the cache: NewlineCache)
           off == cs - lsb
           rem == IF FixS(fixed) THEN Max({0, len - off}) ELSE len - off
       IN IF rem < 0 THEN <<PANIC>>                \* usize underflow
          ELSE LET ue == Min({en, cs + rem})
                   ds == Digits(Line(cs))
                   head == ds \o BAR \o Decode(ps[i][1], ps[i][2]) \o <<LF>>
                           \o Rep(32, Width(lsb, cs) + Len(ds) + 2) \o Rep(94, Max({1, Width(cs, ue)}))
               IN IF i = Len(ps) THEN head \o MSG
                  ELSE LET eol == lsb + len
                           nxt == eol + (IF IsCRLFAt(eol) THEN 2 ELSE 1)
                       IN IF nxt > en THEN <<PANIC>>  \* Span::new(start > end)
                          ELSE head \o <<LF>> \o AlgLoop(ps, i + 1, nxt, en, fixed)
AlgRender(s, en, fixed) ==
  LET S == LineStartOf(s)  E == LineEndOf(en)
      ps == IF FixE(fixed) /\ S = E THEN << <<S, S>> >> ELSE RustLines(S, E)
      r == AlgLoop(ps, 1, s, en, fixed)
  IN IF \E k \in 1 .. Len(r) : r[k] = PANIC THEN <<PANIC>> ELSE r

RenderOK(fixed) == \A s \in Boundaries : \A e \in Boundaries : s <= e => AlgRender(s, e, fixed) = Render(s, e)
=============================================================================
