------------------------------ MODULE TraceLex ------------------------------
(* Trace specification for the lexer (C09): lexdef / lexsync / lexrun events recorded from lrlex.
   The definition is taken as the implementation reports it (its faithfulness to the .l source is
   C11's business); rule selection, ties, start states, the stack, tiling and the single error
   are the specification's. *)
EXTENDS Lexer, Json, IOUtils
Rec == ndJsonDeserialize(IOEnv.TRACE)
VARIABLES l, inst, ndev, Dv
tvars == <<l, inst, ndev, Dv, lvars>>
Report(S) == \A d \in S : PrintT(<<"DEV", "C09", inst, l, d[1], d[2]>>)
IfDev(c, code, detail) == IF c THEN {} ELSE { <<code, detail>> }

DefOf(e) == [rules |-> [i \in 1 .. Len(e.rules) |->
                          [named |-> e.rules[i].named, tok |-> e.rules[i].tok, states |-> ToSet(e.rules[i].states),
                           op |-> e.rules[i].op, tgt |-> e.rules[i].tgt, name |-> e.rules[i].name]],
             excl |-> [sid \in {e.states[i].id : i \in 1 .. Len(e.states)} |->
                          (CHOOSE i \in 1 .. Len(e.states) : e.states[i].id = sid) \in {j \in 1 .. Len(e.states) : e.states[j].excl}]]

SyncDevs(e) ==
  LET names == {e.map[i][1] : i \in 1 .. Len(e.map)}
      idof(n) == (CHOOSE i \in 1 .. Len(e.map) : e.map[i][1] = n)
      rnames == {Dv.rules[i].name : i \in {j \in 1 .. Len(Dv.rules) : Dv.rules[j].named}}
      new == DefOf(e)
  IN IfDev(ToSet(e.first.names) = names \ rnames /\ e.first.none = (names \ rnames = {}),
           "names referenced by the parser but missing from the lexer", <<e.first, names \ rnames>>)
     \cup IfDev(ToSet(e.second.names) = rnames \ names /\ e.second.none = (rnames \ names = {}),
                "names defined in the lexer but missing from the parser", <<e.second, rnames \ names>>)
     \cup UNION { LET r == new.rules[i]  old == Dv.rules[i] IN
                  IfDev(IF r.named THEN r.tok = (IF r.name \in names THEN e.map[idof(r.name)][2] ELSE -1)
                                   ELSE r.tok = old.tok,
                        "token id after sync", <<i, r.name, r.tok>>)
                  : i \in 1 .. Len(new.rules) }
     \cup IfDev(Len(new.rules) = Len(Dv.rules), "sync changed the rule list", 0)

RunDevs(e) ==
  IF "panic" \in DOMAIN e.run THEN { <<"lexer panicked", e.run.panic>> }
  ELSE
  LET M == [o \in ToSet(e.bounds) |-> e.m[CHOOSE i \in 1 .. Len(e.bounds) : e.bounds[i] = o]]
      r == RunLex(Dv, M, e.len, 0, << <<1, 0>> >>, <<>>)
      got == [i \in 1 .. Len(e.run.lexemes) |-> <<e.run.lexemes[i][1], e.run.lexemes[i][2], e.run.lexemes[i][3]>>]
  IN IfDev(got = r.out, "lexemes # longest-match / earliest-rule / start-state model", <<got, r.out>>)
     \cup IfDev(\A i \in 1 .. Len(e.run.lexemes) : ~e.run.lexemes[i][4], "lexeme flagged faulty", 0)
     \cup IfDev(IF r.err = -1 THEN e.run.errs = <<>> ELSE e.run.errs = << <<r.err, r.err>> >>,
                "lexing error # first offset where no active rule matches", <<e.run.errs, r.err>>)
     \cup IfDev(e.run.error_last, "lexeme after the error", 0)

Init == l = 1 /\ inst = "" /\ ndev = 0 /\ Dv = [rules |-> <<>>] /\ LexInit
Next ==
  /\ l <= Len(Rec) /\ l' = l + 1 /\ UNCHANGED lvars
  /\ LET e == Rec[l] IN
     CASE e.ev = "lexreset" -> inst' = e.id /\ Dv' = [rules |-> <<>>] /\ UNCHANGED ndev
       [] e.ev = "lexdef" -> Dv' = DefOf(e) /\ UNCHANGED <<inst, ndev>>
       [] e.ev = "lexsync" -> /\ LET ds == SyncDevs(e) IN Report(ds) /\ ndev' = ndev + Cardinality(ds)
                              /\ Dv' = DefOf(e) /\ UNCHANGED inst
       [] e.ev = "lexrun" -> /\ LET ds == RunDevs(e) IN Report(ds) /\ ndev' = ndev + Cardinality(ds)
                             /\ UNCHANGED <<inst, Dv>>
       [] e.ev = "lexdef_panic" -> /\ Report({ <<"lexer definition parser panicked", e.msg>> }) /\ ndev' = ndev + 1
                                   /\ UNCHANGED <<inst, Dv>>
       [] OTHER -> UNCHANGED <<inst, ndev, Dv>>
Spec == Init /\ [][Next]_tvars
Consumed == (l = Len(Rec) + 1) => PrintT(<<"DONE", Len(Rec), ndev>>)
=============================================================================
