-------------------------------- MODULE LR1 --------------------------------
(***************************************************************************)
(* LR(1) items, closure, goto, the canonical LR(1) collection, LALR(1)     *)
(* lookaheads, and Pager's weak compatibility.  MEANING layer for C01,     *)
(* C02, C16.  An item is a triple <<p, d, t>>: production, dot, lookahead. *)
(* An item set is a set of such triples (the code's                        *)
(* HashMap<(PIdx, SIdx), Vob> flattened).                                  *)
(***************************************************************************)
EXTENDS Analyses

AfterDot(it)  == Rhs(it[1])[it[2] + 1]
Complete(it)  == it[2] = PLen(it[1])

RECURSIVE Closure(_)
Closure(I) ==
  LET add == UNION {
        LET p == it[1]  d == it[2]  a == it[3]  rhs == Rhs(p) IN
        IF d < Len(rhs) /\ IsRule(rhs[d + 1])
        THEN { <<q, 0, b>> : q \in ProdsOf(RuleOf(rhs[d + 1])),
                             b \in FirstSeq(SubSeq(rhs, d + 2, Len(rhs)), a) }
        ELSE {} : it \in I }
      I2 == I \cup add
  IN IF I2 = I THEN I ELSE Closure(I2)

Goto(I, s) == { <<it[1], it[2] + 1, it[3]>> : it \in {x \in I : ~Complete(x) /\ AfterDot(x) = s} }
NextSyms(I) == { AfterDot(x) : x \in {y \in I : ~Complete(y)} }

CoreOf(I)   == { <<x[1], x[2]>> : x \in I }
Ctx(I, c)   == { x[3] : x \in {y \in I : y[1] = c[1] /\ y[2] = c[2]} }

StartKernel == { <<StartProd, 0, EOF>> }

\* canonical LR(1) collection (set of kernels)
RECURSIVE CanonFix(_, _)
CanonFix(done, todo) ==
  IF todo = {} THEN done
  ELSE LET k == CHOOSE x \in todo : TRUE
           c == Closure(k)
           succ == { Goto(c, s) : s \in NextSyms(c) }
           done2 == done \cup {k}
       IN CanonFix(done2, (todo \cup succ) \ done2)
Canon == CanonFix({}, {StartKernel})

\* Candidate actions of a closed item set on token t
Reductions(I, t) == { x[1] : x \in {y \in I : Complete(y) /\ y[3] = t} }
HasShift(I, t)   == \E x \in I : ~Complete(x) /\ AfterDot(x) = t
\* a genuine LR(1) conflict: two candidate actions for some token
ConflictIn(I) == \E t \in Tokens :
                    \/ Cardinality(Reductions(I, t)) > 1
                    \/ (Reductions(I, t) # {} /\ HasShift(I, t))
IsLR1 == \A k \in Canon : ~ConflictIn(Closure(k))

\* LALR(1) lookaheads of a core: union over the canonical states with that core
LALRKernel(canon, core) == UNION { k : k \in {x \in canon : CoreOf(x) = core} }

(***************************************************************************)
(* Pager's weak compatibility (conditions 1-3, as in Pager 1977 p255 and   *)
(* as coded in pager.rs): kernels with equal cores are compatible unless   *)
(* some pair of items i # j has crossing contexts (1) while neither kernel *)
(* already had them overlapping (2, 3).                                    *)
(***************************************************************************)
WeaklyCompatible(K1, K2) ==
  /\ CoreOf(K1) = CoreOf(K2)
  /\ \A i, j \in CoreOf(K1) : i # j =>
       ~( /\ (Ctx(K1, i) \cap Ctx(K2, j) # {} \/ Ctx(K1, j) \cap Ctx(K2, i) # {})
          /\ Ctx(K1, i) \cap Ctx(K1, j) = {}
          /\ Ctx(K2, i) \cap Ctx(K2, j) = {} )

(***************************************************************************)
(* A generic LR driver over an "action function".  Used with the canonical *)
(* automaton as reference parser.  A canonical state is its kernel.        *)
(***************************************************************************)
\* cc is the closure map [k \in Canon |-> Closure(k)] (computed once per grammar by the caller)
CanonClosures(canon) == [k \in canon |-> Closure(k)]
CanonAction(cc, k, t) ==      \* <<"s", kernel'>> | <<"r", p>> | <<"a", 0>> | <<"e", 0>> | <<"c", 0>>
  LET I == cc[k]
      rs == Reductions(I, t)
  IN IF Cardinality(rs) > 1 \/ (rs # {} /\ HasShift(I, t)) THEN <<"c", 0>>
     ELSE IF rs # {} THEN (LET p == CHOOSE x \in rs : TRUE IN
                           IF p = StartProd /\ t = EOF THEN <<"a", 0>> ELSE <<"r", p>>)
     ELSE IF HasShift(I, t) THEN <<"s", Goto(I, t)>>
     ELSE <<"e", 0>>

\* run the canonical parser on toks (sequence of tokens, EOF implicit); returns
\* [acc |-> BOOLEAN, err |-> index of first offending lexeme (0-based) or -1, conflict |-> BOOLEAN,
\*  reds |-> sequence of productions reduced]
RECURSIVE CanonRun(_, _, _, _, _)
CanonRun(cc, st, toks, la, reds) ==
  LET t == IF la < Len(toks) THEN toks[la + 1] ELSE EOF
      a == CanonAction(cc, st[Len(st)], t)
  IN CASE a[1] = "s" -> CanonRun(cc, Append(st, a[2]), toks, la + 1, reds)
       [] a[1] = "r" -> LET p == a[2]
                            st2 == SubSeq(st, 1, Len(st) - PLen(p))
                            nk == Goto(cc[st2[Len(st2)]], RSym(Lhs(p)))
                        IN CanonRun(cc, Append(st2, nk), toks, la, Append(reds, p))
       [] a[1] = "a" -> [acc |-> TRUE, err |-> -1, conflict |-> FALSE, reds |-> reds]
       [] a[1] = "c" -> [acc |-> FALSE, err |-> la, conflict |-> TRUE, reds |-> reds]
       [] OTHER      -> [acc |-> FALSE, err |-> la, conflict |-> FALSE, reds |-> reds]
CanonParse(cc, toks) == CanonRun(cc, <<StartKernel>>, toks, 0, <<>>)
=============================================================================
