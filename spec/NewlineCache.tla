---------------------------- MODULE NewlineCache ----------------------------
(***************************************************************************)
(* cfgrammar::NewlineCache (C19): byte offsets <-> lines / columns.         *)
(*                                                                         *)
(* A text is a sequence of bytes (integers).  ALGORITHM layer: the cache's *)
(* state (newlines, trailing) and Feed exactly as coded, and the queries   *)
(* transcribed from newlinecache.rs - an out-of-range vector index is the  *)
(* distinguished value PANIC, so a panic is a value TLC can see.           *)
(* MEANING layer: the same queries defined directly on the text.           *)
(***************************************************************************)
EXTENDS Naturals, Integers, Sequences, FiniteSets, TLC, FiniteSetsExt, SequencesExt

LF == 10
CR == 13
PANIC == -7
IsCont(b) == b >= 128 /\ b < 192          \* UTF-8 continuation byte

VARIABLES text,      \* everything fed so far
          newlines,  \* Seq(Nat): offsets at which lines start (always begins with 0)
          trailing,  \* bytes after the last newline
          feeds      \* number of feeds so far
nvars == <<text, newlines, trailing, feeds>>

NLInit == text = <<>> /\ newlines = <<0>> /\ trailing = 0 /\ feeds = 0

\* feed(): scan the chunk; every LF at chunk offset k adds start_pos + k + 1 and resets trailing
RECURSIVE FeedScan(_, _, _, _, _)
FeedScan(bs, k, start, nl, tr) ==
  IF k > Len(bs) THEN <<nl, tr>>
  ELSE IF bs[k] = LF THEN FeedScan(bs, k + 1, start, Append(nl, start + (k - 1) + 1), 0)
  ELSE FeedScan(bs, k + 1, start, nl, tr + 1)
FeedLen == newlines[Len(newlines)] + trailing
Feed(bs) ==
  LET r == FeedScan(bs, 1, FeedLen, newlines, trailing) IN
  /\ text' = text \o bs /\ newlines' = r[1] /\ trailing' = r[2] /\ feeds' = feeds + 1

\* ---------------------------------------------------------------------------------------------
\* ALGORITHM: queries as coded
At(seq, i) == IF i >= 0 /\ i < Len(seq) THEN seq[i + 1] ELSE PANIC
\* Rust's binary_search on a strictly increasing vector: <<"ok", idx>> or <<"err", insertion idx>>
BSearch(seq, x) == LET hit == {i \in 1 .. Len(seq) : seq[i] = x} IN
   IF hit # {} THEN <<"ok", Min(hit) - 1>> ELSE <<"err", Cardinality({i \in 1 .. Len(seq) : seq[i] < x})>>

AlgLineNum(o) ==
  IF o > FeedLen THEN -1
  ELSE LET last == newlines[Len(newlines)] IN
       IF o < last + trailing /\ o > last THEN Len(newlines)
       ELSE Max({i \in 1 .. Len(newlines) : newlines[i] <= o})
AlgLineByte(o) == LET n == AlgLineNum(o) IN IF n = -1 THEN -1 ELSE (IF n > Len(newlines) \/ n = 0 THEN -1 ELSE newlines[n])

CharStarts(lo, hi) == {p \in lo .. hi - 1 : ~IsCont(text[p + 1])}     \* offsets of characters in [lo, hi)
AlgLineCol(o) ==
  IF o > FeedLen THEN <<-1, -1>>
  ELSE LET n == AlgLineNum(o) IN
       IF o = Len(text) THEN <<Len(newlines), Cardinality(CharStarts(newlines[Len(newlines)], Len(text))) + 1>>
       ELSE LET lb == newlines[n]
                \* the loop counts every character up to and including the one at o, except an LF
                \* that directly follows a CR
                counted == {p \in CharStarts(lb, Len(text)) : p <= o /\ ~(text[p + 1] = LF /\ p > lb /\ text[p] = CR)}
            IN <<n, Cardinality(counted)>>

\* span_line_bytes as coded (fixed == TRUE: with the guard of the "fix:" commit; FALSE: as pinned)
AlgSpanLines(s, e, fixed) ==
  LET b1  == BSearch(newlines, s)
      st  == IF b1[1] = "ok" THEN At(newlines, b1[2]) ELSE At(newlines, b1[2] - 1)
      stl == IF b1[1] = "ok" THEN b1[2] + 1 ELSE b1[2]
      rest == SubSeq(newlines, stl + 1, Len(newlines))
      b2  == BSearch(rest, e)
      j   == b2[2]
      lastcond == IF fixed THEN stl + j = Len(newlines) - 1 ELSE stl + j = Len(newlines) - stl
      en  == IF b2[1] = "ok"
             THEN (IF lastcond THEN FeedLen
                   ELSE LET v == At(newlines, stl + j + 1) IN IF v = PANIC THEN PANIC ELSE v - 1)
             ELSE (IF stl + j = Len(newlines) THEN FeedLen
                   ELSE LET v == At(newlines, stl + j) IN IF v = PANIC THEN PANIC ELSE v - 1)
  IN IF st = PANIC \/ en = PANIC THEN <<PANIC, PANIC>> ELSE <<st, en>>

\* ---------------------------------------------------------------------------------------------
\* MEANING: directly on the text
LFs == {k \in 1 .. Len(text) : text[k] = LF}                 \* 1-based positions of newlines
LineStarts == {0} \cup LFs                                   \* offset after each newline
Line(o) == 1 + Cardinality({k \in LFs : k <= o})             \* newlines strictly before offset o
LineStartOf(o) == Max({ls \in LineStarts : ls <= o})
LineEndOf(o) == LET nx == {k \in LFs : k - 1 >= o} IN IF nx = {} THEN Len(text) ELSE Min(nx) - 1
\* characters since the line began, a CR LF pair counting once; the character at o itself counts
\* (columns start at 1), at the very end of the text there is no such character
Col(o) ==
  LET ls == LineStartOf(o)
      logical(p) == ~(text[p + 1] = LF /\ p > 0 /\ text[p] = CR)
  IN IF o = Len(text) THEN Cardinality(CharStarts(ls, Len(text))) + 1
     ELSE Cardinality({p \in CharStarts(ls, Len(text)) : p <= o /\ logical(p)})
\* lines of a span; the end offset is read inclusively (as the crate's spanlines_str test fixes it)
SpanLines(s, e) == <<LineStartOf(s), LineEndOf(e)>>

Boundaries == {o \in 0 .. Len(text) : o = Len(text) \/ ~IsCont(text[o + 1])}

\* ---------------------------------------------------------------------------------------------
\* invariants of the design: algorithm = meaning
StateOK == /\ FeedLen = Len(text)
           /\ newlines = SetToSortSeq(LineStarts, <)
QueriesOK == \A o \in Boundaries :
               /\ AlgLineNum(o) = Line(o)
               /\ AlgLineByte(o) = LineStartOf(o)
               /\ AlgLineCol(o) = <<Line(o), Col(o)>>
SpansOK(fixed) == \A s \in Boundaries : \A e \in Boundaries : s <= e => AlgSpanLines(s, e, fixed) = SpanLines(s, e)
OutOfRangeOK == AlgLineNum(Len(text) + 1) = -1 /\ AlgLineCol(Len(text) + 1) = <<-1, -1>>
=============================================================================
