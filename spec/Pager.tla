------------------------------- MODULE Pager -------------------------------
(***************************************************************************)
(* Pager's state-minimising LR(1) construction as implemented by           *)
(* lrtable/src/lib/pager.rs (ALGORITHM layer for C02, C15, C16).           *)
(*                                                                         *)
(* One action per critical section of the code:                            *)
(*   Pick        choose the next un-closed state (first at/after todo_off, *)
(*               else the first at all), close it, compute its successors  *)
(*   ProcExact   a successor equals an existing candidate's kernel: edge   *)
(*   ProcMerge   a successor is weakly compatible with a candidate: edge,  *)
(*               union the contexts, re-open the target if it grew         *)
(*   ProcNew     otherwise: append a new state, register it as candidate   *)
(*   GC          drop unreachable states and renumber                      *)
(* The order in which the successors of a state are processed is the       *)
(* iteration order of a hash map in the code; here it is nondeterministic. *)
(* State indices are 0-based as in the code; sequences are 1-based.        *)
(*                                                                         *)
(* Every action is split into Guard (is this step what the algorithm       *)
(* prescribes?) and Effect (the state change), so that the trace           *)
(* specification can apply a recorded step even when its guard fails and   *)
(* report the deviation instead of stopping.                               *)
(***************************************************************************)
EXTENDS LR1

VARIABLES core,      \* Seq(kernel item set)
          closed,    \* Seq(closed item set); meaningful only where isc
          isc,       \* Seq(BOOLEAN): is the state closed (Some) or awaiting processing (None)?
          edges,     \* Seq(function symbol -> state index)
          cnd,       \* function symbol -> Seq(state index): weak-compatibility candidates
          todo_off,  \* where the search for the next un-closed state starts
          pending,   \* set of <<symbol, kernel>> successors of `cur' still to process
          cur        \* state being processed

pvars == <<core, closed, isc, edges, cnd, todo_off, pending, cur>>

Syms == Tokens \cup {RSym(r) : r \in Rules}
NStates == Len(core)
Unclosed == {i \in 0 .. NStates - 1 : ~isc[i + 1]}

PagerInit ==
  /\ core = <<StartKernel>> /\ closed = << {} >> /\ isc = <<FALSE>> /\ edges = << <<>> >>
  /\ cnd = [s \in Syms |-> <<>>] /\ todo_off = 0 /\ pending = {} /\ cur = 0

NextPick == LET after == {i \in Unclosed : i >= todo_off}
            IN IF after # {} THEN Min(after) ELSE Min(Unclosed)

PickGuard(i) == pending = {} /\ Unclosed # {} /\ i = NextPick
PickEffect(i) ==
  LET cl == Closure(core[i + 1]) IN
  /\ closed' = [closed EXCEPT ![i + 1] = cl]
  /\ isc' = [isc EXCEPT ![i + 1] = TRUE]
  /\ pending' = { <<s, Goto(cl, s)>> : s \in NextSyms(cl) }
  /\ cur' = i /\ todo_off' = i + 1
  /\ UNCHANGED <<core, edges, cnd>>
Pick(i) == PickGuard(i) /\ PickEffect(i)

Cands(sym) == cnd[sym]
ExactIdx(sym, ns) == {j \in 1 .. Len(Cands(sym)) : core[Cands(sym)[j] + 1] = ns}
WeakIdx(sym, ns)  == {j \in 1 .. Len(Cands(sym)) : WeaklyCompatible(core[Cands(sym)[j] + 1], ns)}

SetEdge(e, i, sym, tgt) ==
  [e EXCEPT ![i + 1] = [x \in DOMAIN e[i + 1] \cup {sym} |-> IF x = sym THEN tgt ELSE e[i + 1][x]]]

ExactGuard(sym, k, ns) ==
  /\ <<sym, ns>> \in pending
  /\ ExactIdx(sym, ns) # {} /\ k = Cands(sym)[Min(ExactIdx(sym, ns))]
ExactEffect(sym, k, ns) ==
  /\ pending' = pending \ {<<sym, ns>>}
  /\ edges' = SetEdge(edges, cur, sym, k)
  /\ UNCHANGED <<core, closed, isc, cnd, todo_off, cur>>
ProcExact(sym, k, ns) == ExactGuard(sym, k, ns) /\ ExactEffect(sym, k, ns)

MergeGuard(sym, k, ns) ==
  /\ <<sym, ns>> \in pending
  /\ ExactIdx(sym, ns) = {}
  /\ WeakIdx(sym, ns) # {} /\ k = Cands(sym)[Min(WeakIdx(sym, ns))]
MergeEffect(sym, k, ns) ==
  LET merged == core[k + 1] \cup {x \in ns : <<x[1], x[2]>> \in CoreOf(core[k + 1])} IN
  /\ pending' = pending \ {<<sym, ns>>}
  /\ edges' = SetEdge(edges, cur, sym, k)
  /\ core' = [core EXCEPT ![k + 1] = merged]
  /\ isc' = (IF merged # core[k + 1] THEN [isc EXCEPT ![k + 1] = FALSE] ELSE isc)
  /\ UNCHANGED <<closed, cnd, todo_off, cur>>
ProcMerge(sym, k, ns) == MergeGuard(sym, k, ns) /\ MergeEffect(sym, k, ns)

NewGuard(sym, k, ns) ==
  /\ <<sym, ns>> \in pending
  /\ ExactIdx(sym, ns) = {} /\ WeakIdx(sym, ns) = {}
  /\ k = NStates
NewEffect(sym, k, ns) ==
  /\ pending' = pending \ {<<sym, ns>>}
  /\ core' = Append(core, ns) /\ closed' = Append(closed, {}) /\ isc' = Append(isc, FALSE)
  /\ edges' = Append(SetEdge(edges, cur, sym, NStates), <<>>)
  /\ cnd' = [cnd EXCEPT ![sym] = Append(@, NStates)]
  /\ UNCHANGED <<todo_off, cur>>
ProcNew(sym, k, ns) == NewGuard(sym, k, ns) /\ NewEffect(sym, k, ns)

\* The guards above are those of the algorithm AS CODED (next un-closed state in index order, first
\* candidate in insertion order): the bounded model runs them.  Pager's algorithm leaves both choices
\* free, and none of the listed properties depends on them; the trace specification therefore accepts
\* any member of the family: any un-closed state, any exact / weakly compatible candidate.
PickGuardAny(i) == pending = {} /\ i \in Unclosed
ExactGuardAny(sym, k, ns) ==
  /\ <<sym, ns>> \in pending
  /\ \E j \in ExactIdx(sym, ns) : k = Cands(sym)[j]
MergeGuardAny(sym, k, ns) ==
  /\ <<sym, ns>> \in pending
  /\ ExactIdx(sym, ns) = {}
  /\ \E j \in WeakIdx(sym, ns) : k = Cands(sym)[j]

PagerDone == pending = {} /\ Unclosed = {}

PagerNext ==
  \/ \E i \in 0 .. NStates - 1 : Pick(i)
  \/ \E pr \in pending : \E k \in 0 .. NStates :
        ProcExact(pr[1], k, pr[2]) \/ ProcMerge(pr[1], k, pr[2]) \/ ProcNew(pr[1], k, pr[2])

(***************************************************************************)
(* Garbage collection: states reachable from state 0, renumbered in order. *)
(***************************************************************************)
RECURSIVE ReachStates(_, _)
ReachStates(seen, todo) ==
  IF todo = {} THEN seen
  ELSE LET nxt == UNION { { edges[i + 1][s] : s \in DOMAIN edges[i + 1] } : i \in todo }
       IN ReachStates(seen \cup todo, nxt \ (seen \cup todo))
Live == ReachStates({}, {0})
NewIdx(i) == Cardinality({j \in Live : j < i})      \* offset map of gc()
\* the final graph, as a record comparable with what the implementation reports
LiveSeq == SetToSortSeq(Live, <)
GCGraph ==
  [n |-> Cardinality(Live),
   core   |-> [j \in 1 .. Cardinality(Live) |-> core[LiveSeq[j] + 1]],
   closed |-> [j \in 1 .. Cardinality(Live) |-> closed[LiveSeq[j] + 1]],
   edges  |-> [j \in 1 .. Cardinality(Live) |->
                 LET e == edges[LiveSeq[j] + 1] IN [s \in DOMAIN e |-> NewIdx(e[s])]]]
=============================================================================
