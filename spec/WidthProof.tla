----------------------------- MODULE WidthProof -----------------------------
(* C20's arithmetic core, proved by TLAPS for ALL natural counts and the three storage widths:
   a build that the (repaired) guards do not refuse stores no value that has wrapped.  The same
   statement is checked by Apalache (WidthApa.tla) and, in windows, by TLC (MC_Width.tla); the
   definitions are those of Width.tla with 2^w written out for the three widths. *)
EXTENDS Integers, TLAPS

MaxOf(wd) == IF wd = 8 THEN 255 ELSE IF wd = 16 THEN 65535 ELSE 4294967295
Wrap(x, wd) == x % (MaxOf(wd) + 1)

StoredRules(rules, eco)  == rules + 1 + (IF eco THEN 2 ELSE 0)
StoredTokens(tokens) == tokens + 1
StoredProds(prods, eco, implicit)  == prods + 1 + (IF eco THEN implicit + 2 ELSE 0)
StoredSyms(maxsyms, eco, toksyms)   == IF eco THEN (LET m == maxsyms + toksyms IN IF m < 2 THEN 2 ELSE m)
                                       ELSE (IF maxsyms < 1 THEN 1 ELSE maxsyms)
GrammarRefused(rules, tokens, prods, maxsyms, eco, implicit, toksyms, w) ==
   \/ StoredRules(rules, eco) > MaxOf(w) \/ StoredTokens(tokens) > MaxOf(w)
   \/ StoredProds(prods, eco, implicit) > MaxOf(w) \/ StoredSyms(maxsyms, eco, toksyms) > MaxOf(w)
GraphRefused(pregc, states, w) == pregc > MaxOf(w) \/ states > MaxOf(w) \/ ~(states < MaxOf(w)) \/ ~(states < MaxOf(w) - 1)
NoWrap(rules, tokens, prods, maxsyms, eco, implicit, toksyms, states, w) ==
  /\ Wrap(StoredRules(rules, eco), w) = StoredRules(rules, eco)
  /\ Wrap(StoredTokens(tokens), w) = StoredTokens(tokens)
  /\ Wrap(StoredProds(prods, eco, implicit), w) = StoredProds(prods, eco, implicit)
  /\ Wrap(StoredSyms(maxsyms, eco, toksyms), w) = StoredSyms(maxsyms, eco, toksyms)
  /\ Wrap(states, w) = states
  /\ Wrap(states + 1, w) = states + 1

LEMMA ModSmall == \A x \in Nat, m \in Nat \ {0} : x < m => x % m = x
  OBVIOUS

LEMMA MaxNat == \A w \in {8, 16, 32} : MaxOf(w) \in Nat /\ MaxOf(w) + 1 \in Nat \ {0}
  BY DEF MaxOf

LEMMA WrapId == \A x \in Nat, w \in {8, 16, 32} : x <= MaxOf(w) => Wrap(x, w) = x
  <1> TAKE x \in Nat, w \in {8, 16, 32}
  <1> HAVE x <= MaxOf(w)
  <1>1. MaxOf(w) + 1 \in Nat \ {0} /\ MaxOf(w) \in Nat  BY MaxNat
  <1>2. x < MaxOf(w) + 1  BY <1>1
  <1> QED BY <1>1, <1>2, ModSmall DEF Wrap

THEOREM WidthGuards ==
  \A rules, tokens, prods, maxsyms, implicit, toksyms, pregc, states \in Nat, eco \in BOOLEAN, w \in {8, 16, 32} :
     \/ GrammarRefused(rules, tokens, prods, maxsyms, eco, implicit, toksyms, w)
     \/ GraphRefused(pregc, states, w)
     \/ NoWrap(rules, tokens, prods, maxsyms, eco, implicit, toksyms, states, w)
  <1> TAKE rules, tokens, prods, maxsyms, implicit, toksyms, pregc, states \in Nat, eco \in BOOLEAN, w \in {8, 16, 32}
  <1> SUFFICES ASSUME ~GrammarRefused(rules, tokens, prods, maxsyms, eco, implicit, toksyms, w),
                      ~GraphRefused(pregc, states, w)
               PROVE  NoWrap(rules, tokens, prods, maxsyms, eco, implicit, toksyms, states, w)
    OBVIOUS
  <1>0. MaxOf(w) \in Nat  BY MaxNat
  <1>1. StoredRules(rules, eco) \in Nat /\ StoredRules(rules, eco) <= MaxOf(w)
    BY <1>0 DEF GrammarRefused, StoredRules
  <1>2. StoredTokens(tokens) \in Nat /\ StoredTokens(tokens) <= MaxOf(w)
    BY <1>0 DEF GrammarRefused, StoredTokens
  <1>3. StoredProds(prods, eco, implicit) \in Nat /\ StoredProds(prods, eco, implicit) <= MaxOf(w)
    BY <1>0 DEF GrammarRefused, StoredProds
  <1>4. StoredSyms(maxsyms, eco, toksyms) \in Nat /\ StoredSyms(maxsyms, eco, toksyms) <= MaxOf(w)
    BY <1>0 DEF GrammarRefused, StoredSyms
  <1>5. states <= MaxOf(w) /\ states + 1 \in Nat /\ states + 1 <= MaxOf(w)
    BY <1>0 DEF GraphRefused
  <1> QED BY <1>1, <1>2, <1>3, <1>4, <1>5, WrapId DEF NoWrap
=============================================================================
