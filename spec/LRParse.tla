------------------------------ MODULE LRParse ------------------------------
(***************************************************************************)
(* The LR runtime of lrpar/src/lib/parser.rs (C01, C04, C07, C08, C13).    *)
(*                                                                         *)
(* A table is T = [act, goto] (see StateTable); the input is a sequence of *)
(* lexemes <<tok, start, len>>.  A parser configuration is                 *)
(*   [ps  : state stack,            as : value stack,                      *)
(*    sp  : span stack (code-shaped), la : lookahead index (0-based),      *)
(*    ev  : reduce events so far,   st : "run" | "acc" | "err"]            *)
(* A value-stack entry is <<"t", tok, start, len, faulty>> for a lexeme or *)
(* <<"n", id, 0, 0, FALSE>> for the value returned by reduce event id.     *)
(* A reduce event is [p, r, span, args] - exactly what a recording action  *)
(* sees.  ALGORITHM layer: Shift / Reduce / Accept / Error as coded,       *)
(* including the code's span arithmetic.  MEANING layer: TreeValid, Yield, *)
(* SemSpan.                                                                *)
(***************************************************************************)
EXTENDS StateTable

LexTok(lex, i) == lex[i + 1][1]
NextTok(lex, la) == IF la < Len(lex) THEN LexTok(lex, la) ELSE EOF
EndOfInput(lex) == IF Len(lex) = 0 THEN 0 ELSE lex[Len(lex)][2] + lex[Len(lex)][3]
\* the lexeme at index la; beyond the end: a zero-length faulty EOF lexeme at the end of the last
NextLexeme(lex, la) ==
  IF la < Len(lex) THEN <<"t", lex[la + 1][1], lex[la + 1][2], lex[la + 1][3], FALSE>>
  ELSE <<"t", EOF, EndOfInput(lex), 0, TRUE>>

InitCfg(T) == [ps |-> <<T.start>>, as |-> <<>>, sp |-> <<>>, la |-> 0, ev |-> <<>>, st |-> "run"]
TopState(cfg) == cfg.ps[Len(cfg.ps)]

\* the span the code computes for a reduction that keeps `keep' stack entries (pop_idx - 1)
CodeSpan(sp, keep) ==
  IF Len(sp) = 0 THEN <<0, 0>>
  ELSE IF keep < Len(sp) THEN <<sp[keep + 1][1], sp[Len(sp)][2]>>
  ELSE <<sp[Len(sp)][1], sp[Len(sp)][2]>>

DoReduce(T, cfg, p) ==
  LET n    == PLen(p)
      keep == Len(cfg.as) - n                \* value/span entries that stay (pop_idx - 1)
      ps2  == SubSeq(cfg.ps, 1, Len(cfg.ps) - n)
      tgt  == TGoto(T, ps2[Len(ps2)], Lhs(p))
      span == CodeSpan(cfg.sp, keep)
      args == SubSeq(cfg.as, keep + 1, Len(cfg.as))
      id   == Len(cfg.ev)
  IN [cfg EXCEPT !.ps = Append(ps2, tgt),
                 !.as = Append(SubSeq(cfg.as, 1, keep), <<"n", id, 0, 0, FALSE>>),
                 !.sp = Append(SubSeq(cfg.sp, 1, keep), span),
                 !.ev = Append(cfg.ev, [p |-> p, r |-> Lhs(p), span |-> span, args |-> args])]

DoShift(cfg, tgt, lexeme) ==
  [cfg EXCEPT !.ps = Append(cfg.ps, tgt), !.as = Append(cfg.as, lexeme),
              !.sp = Append(cfg.sp, <<lexeme[3], lexeme[3] + lexeme[4]>>), !.la = cfg.la + 1]

\* one step of `lr' on the real input
Step(T, lex, cfg) ==
  LET a == TAct(T, TopState(cfg), NextTok(lex, cfg.la)) IN
  CASE a[1] = "r" -> DoReduce(T, cfg, a[2])
    [] a[1] = "s" -> DoShift(cfg, a[2], NextLexeme(lex, cfg.la))
    [] a[1] = "a" -> [cfg EXCEPT !.st = "acc"]
    [] OTHER      -> [cfg EXCEPT !.st = "err"]

\* run until accept or error (fuel guards against reduce loops of cyclic grammars)
RECURSIVE Run(_, _, _, _)
Run(T, lex, cfg, fuel) ==
  IF cfg.st # "run" THEN cfg
  ELSE IF fuel = 0 THEN [cfg EXCEPT !.st = "loop"]
  ELSE Run(T, lex, Step(T, lex, cfg), fuel - 1)
Fuel(lex) == 40 * (Len(lex) + 2) * (C.np + 2)

\* lr_upto: parse from cfg.la up to (excluding) endla; with pre # <<>> the lexeme `pre' stands
\* in for the lookahead (an inserted token).  Stops at accept/error without changing st.
RECURSIVE RunUpto(_, _, _, _, _, _)
RunUpto(T, lex, cfg, endla, pre, fuel) ==
  IF cfg.la = endla \/ cfg.la > Len(lex) \/ fuel = 0 THEN cfg
  ELSE LET t == IF pre # <<>> THEN pre[2] ELSE NextTok(lex, cfg.la)
           a == TAct(T, TopState(cfg), t)
       IN CASE a[1] = "r" -> RunUpto(T, lex, DoReduce(T, cfg, a[2]), endla, pre, fuel - 1)
            [] a[1] = "s" -> RunUpto(T, lex, DoShift(cfg, a[2], IF pre # <<>> THEN pre ELSE NextLexeme(lex, cfg.la)),
                                     endla, pre, fuel - 1)
            [] OTHER -> cfg

(***************************************************************************)
(* MEANING: trees.  The events of a run form a forest; event ids are       *)
(* positions in the event sequence (0-based).                              *)
(***************************************************************************)
EvAt(ev, id) == ev[id + 1]
ArgSym(ev, a) == IF a[1] = "t" THEN a[2] ELSE RSym(EvAt(ev, a[2]).r)
\* each node's children spell one production of its rule; children come from earlier events
NodeValid(ev, id) ==
  LET e == EvAt(ev, id) IN
  /\ e.p \in Prods /\ Lhs(e.p) = e.r
  /\ Len(e.args) = PLen(e.p)
  /\ \A i \in 1 .. Len(e.args) :
        /\ (e.args[i][1] = "n" => e.args[i][2] \in 0 .. id - 1)
        /\ ArgSym(ev, e.args[i]) = Rhs(e.p)[i]
RECURSIVE Yield(_, _)
Yield(ev, id) ==      \* the lexemes at the leaves, left to right
  LET e == EvAt(ev, id)
      part(a) == IF a[1] = "t" THEN << a >> ELSE Yield(ev, a[2])
  IN FoldLeft(LAMBDA acc, a : acc \o part(a), <<>>, e.args)
\* every event is the child of exactly one later event, except the root
UsedOnce(ev, root) ==
  LET uses(id) == Cardinality({ <<j, i>> \in UNION { {<<j, i>> : i \in 1 .. Len(ev[j].args)} : j \in 1 .. Len(ev) } :
                                 ev[j].args[i][1] = "n" /\ ev[j].args[i][2] = id })
  IN \A id \in 0 .. Len(ev) - 1 : IF id = root THEN uses(id) = 0 ELSE uses(id) = 1
TreeValid(ev, root) ==
  /\ root \in 0 .. Len(ev) - 1
  /\ \A id \in 0 .. Len(ev) - 1 : NodeValid(ev, id)
  /\ UsedOnce(ev, root)
\* bottom-up, left-to-right: the events are exactly the post-order of the tree
RECURSIVE PostOrder(_, _)
PostOrder(ev, id) ==
  LET e == EvAt(ev, id)
      part(a) == IF a[1] = "t" THEN <<>> ELSE PostOrder(ev, a[2])
  IN Append(FoldLeft(LAMBDA acc, a : acc \o part(a), <<>>, e.args), id)

\* the span a node SHOULD get: first derived lexeme's start to last derived lexeme's end
SemSpanOK(ev, id) ==
  LET y == Yield(ev, id)  sp == EvAt(ev, id).span IN
  IF y = <<>> THEN sp[1] = sp[2]
  ELSE sp = << y[1][3], y[Len(y)][3] + y[Len(y)][4] >>
\* The shapes for which the code's span arithmetic is known to deviate (known finding C08-span):
\* the code takes a node's start from its first child's span and its end from the last child's,
\* and gives a node that derived nothing its left neighbour's span.  So a node's start (end) is
\* unreliable when its first (last) child derives nothing or is itself unreliable on that side.
RECURSIVE EdgeBad(_, _, _)
EdgeBad(ev, id, left) ==
  LET e == EvAt(ev, id)
      a == IF left THEN e.args[1] ELSE e.args[Len(e.args)]
  IN Len(e.args) = 0 \/ (a[1] = "n" /\ (Yield(ev, a[2]) = <<>> \/ EdgeBad(ev, a[2], left)))
SpanShapeKnown(ev, id) == EdgeBad(ev, id, TRUE) \/ EdgeBad(ev, id, FALSE)
=============================================================================
