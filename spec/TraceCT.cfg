SPECIFICATION TSpec
INVARIANT Consumed
CHECK_DEADLOCK FALSE
