----------------------------- MODULE CanonTable -----------------------------
(* The canonical LR(1) automaton of the grammar in C as a graph record, and the Yacc table the
   specification derives from it (StateTable.YaccAct / YaccGoto): the table the bounded models of
   the parser and of error recovery run on, built without any help from the implementation. *)
EXTENDS CPCTPlus

RECURSIVE SeqOfSet(_)
SeqOfSet(S) == IF S = {} THEN <<>> ELSE LET x == CHOOSE y \in S : TRUE IN <<x>> \o SeqOfSet(S \ {x})
CanonAuto ==
  LET ks == <<StartKernel>> \o SeqOfSet(Canon \ {StartKernel})
      cl == [i \in 1 .. Len(ks) |-> Closure(ks[i])]
      ix(k) == CHOOSE i \in 1 .. Len(ks) : ks[i] = k
  IN [n |-> Len(ks), start |-> 0, core |-> ks, closed |-> cl,
      edges |-> [i \in 1 .. Len(ks) |-> [s \in NextSyms(cl[i]) |-> ix(Goto(cl[i], s)) - 1]]]
TableOf(a) ==
  [start |-> 0,
   act  |-> [s \in 1 .. a.n |-> [t \in 1 .. C.nt |-> YaccAct(a, s - 1, t - 1)]],
   goto |-> [s \in 1 .. a.n |-> [r \in 1 .. C.nr |-> YaccGoto(a, s - 1, r - 1)]]]

AllStr(n) == UNION { [1 .. k -> (Tokens \ {EOF})] : k \in 0 .. n }
LexOfToks(x) == [i \in 1 .. Len(x) |-> <<x[i], 2 * (i - 1), 1>>]

=============================================================================
