------------------------------ MODULE TraceCT ------------------------------
(* Trace specification for compile-time build histories (C18, and the %expect rule of C03).
   Events: hist (start of a history, with the description of every source version), edit_g,
   edit_l, set, build.  Every event is one action of CTBuild.tla; a build event carries what the
   real builder reported and left on disk, and what a clean build into an empty directory of the
   same sources and settings produced. *)
EXTENDS CTBuild, SequencesExt, Json, IOUtils
Rec == ndJsonDeserialize(IOEnv.TRACE)
VARIABLES l, inst, ndev, GI, LI
tvars == <<l, inst, ndev, GI, LI, cvars>>
Prop == IF "PROP" \in DOMAIN IOEnv THEN IOEnv.PROP ELSE "C18"
Report(S) == \A d \in S : PrintT(<<"DEV", d[1], inst, l, d[2], d[3]>>)
IfDev(c, p, code, detail) == IF c THEN {} ELSE { <<p, code, detail>> }

BuildDevs(e) ==
  LET c == CleanParser(GI, gv, opts) IN
  \* what the model says must have happened (primed variables: the state after the build action)
  IfDev(e.ok = last'.ok, "C18", "build outcome (Ok/Err) # model", <<e.ok, last'.ok, last'.stage, e.err>>)
  \cup (IF e.which = "parser" THEN IfDev(~e.ok \/ e.regenerated = last'.regenerated, "C18", "regenerated() # model (unchanged configuration must not be regenerated, changed one must)", <<e.regenerated, last'.regenerated>>) ELSE {})
  \cup IfDev(e.grammar_out.exists = pout'.present, "C18", "generated parser file present/absent # model (stale file left behind or fresh file missing)", <<e.grammar_out.exists, pout'.present>>)
  \cup (IF e.which = "both" THEN IfDev(e.lexer_out.exists = lout'.present, "C18", "generated lexer file present/absent # model", <<e.lexer_out.exists, lout'.present>>) ELSE {})
  \* and the files equal those of a clean build of the current sources and settings
  \cup (IF e.ok /\ last'.ok THEN
          IfDev(e.clean_g.exists /\ e.grammar_out.digest = e.clean_g.digest, "C18", "generated parser # clean build", <<e.grammar_out, e.clean_g>>)
          \cup (IF e.which = "both" THEN IfDev(e.clean_l.exists /\ e.lexer_out.digest = e.clean_l.digest, "C18", "generated lexer # clean build", <<e.lexer_out, e.clean_l>>) ELSE {})
        ELSE {})
  \* the same observation as C01 / C13 / C14 / C15 see it (C01: the parser that is generated recognises
  \* the CURRENT grammar's language, not that of an earlier version): the module a successful build leaves in place is
  \* THE module of these sources and settings - the one a build into an empty directory generates,
  \* whose behaviour (C13), embedded tables (C14) and bytes (C15) those properties are about - and
  \* not a function of what an earlier build left behind
  \cup (IF e.ok /\ last'.ok /\ Prop \in {"C01", "C13", "C14", "C15"} THEN
          IfDev(e.clean_g.exists /\ e.grammar_out.digest = e.clean_g.digest, Prop,
                "same sources and settings, but the module left in place is not the one a build into an empty directory generates (it depends on an earlier build)", <<e.grammar_out, e.clean_g>>)
          \cup (IF e.which = "both" THEN IfDev(e.clean_l.exists /\ e.lexer_out.digest = e.clean_l.digest, Prop,
                "same sources and settings, but the lexer module left in place is not the one a build into an empty directory generates", <<e.lexer_out, e.clean_l>>) ELSE {})
        ELSE {})
  \* the %expect rule (C03): with error_on_conflicts the build fails iff the counts differ
  \cup (IF "sr" \in DOMAIN e /\ GI[gv].valid /\ ~(opts["wae"] /\ GI[gv].warn) /\ e.which = "parser" /\ (last'.regenerated \/ ~last'.ok)
        THEN IfDev(e.ok = (~opts["eoc"] \/ ExpectOK([sr |-> e.sr, rr |-> e.rr, expect |-> e.expect, expectrr |-> e.expectrr])),
                   "C03", "build fails iff conflict counts differ from %expect / %expect-rr", <<e.ok, e.sr, e.rr, e.expect, e.expectrr>>)
        ELSE {})

TInit == /\ l = 1 /\ inst = "" /\ ndev = 0 /\ GI = <<>> /\ LI = <<>>
         /\ gv = "" /\ gm = 0 /\ lv = "" /\ lm = 0 /\ opts = <<>> /\ pout = Absent /\ lout = Absent /\ clock = 0
         /\ last = [ok |-> TRUE, regenerated |-> FALSE, stage |-> "none"]
TNext ==
  /\ l <= Len(Rec) /\ l' = l + 1
  /\ LET e == Rec[l] IN
     CASE e.ev = "hist" ->
            /\ inst' = e.id /\ UNCHANGED ndev
            /\ GI' = [v \in DOMAIN e.ginfo |-> [e.ginfo[v] EXCEPT !.names = ToSet(e.ginfo[v].names)]]
            /\ LI' = [v \in DOMAIN e.linfo |-> [e.linfo[v] EXCEPT !.names = ToSet(e.linfo[v].names)]]
            /\ gv' = e.g0 /\ gm' = 1 /\ lv' = e.l0 /\ lm' = 1 /\ opts' = e.opts0
            /\ pout' = Absent /\ lout' = Absent /\ clock' = 2 /\ last' = [ok |-> TRUE, regenerated |-> FALSE, stage |-> "none"]
       [] e.ev = "edit_g" -> EditGrammar(e.v) /\ UNCHANGED <<inst, ndev, GI, LI>>
       [] e.ev = "edit_g_same" -> EditGrammarSameTick(e.v) /\ UNCHANGED <<inst, ndev, GI, LI>>
       [] e.ev = "edit_l" -> EditLexer(e.v) /\ UNCHANGED <<inst, ndev, GI, LI>>
       [] e.ev = "set" -> SetOpt(e.k, e.v) /\ UNCHANGED <<inst, ndev, GI, LI>>
       [] OTHER -> \* build
            /\ (IF e.which = "parser" THEN BuildParser(GI) ELSE BuildBoth(GI, LI))
            /\ LET ds == {d \in BuildDevs(e) : d[1] = Prop} IN Report(ds) /\ ndev' = ndev + Cardinality(ds)
            /\ UNCHANGED <<inst, GI, LI>>
TSpec == TInit /\ [][TNext]_tvars
Consumed == (l = Len(Rec) + 1) => PrintT(<<"DONE", Len(Rec), ndev>>)
=============================================================================
