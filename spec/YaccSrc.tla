------------------------------ MODULE YaccSrc ------------------------------
(***************************************************************************)
(* From a .y source DOCUMENT to the grammar object (C10).                  *)
(*                                                                         *)
(* A document is the abstract content of a Yacc source, in source order:   *)
(*   [kind, decls : Seq(declaration), rules : Seq(rule piece)]             *)
(* declaration = [d, occ : Seq(name occurrence), ...]                      *)
(*   d in {"token", "prec" (kind 0 left / 1 right / 2 nonassoc),           *)
(*         "avoid_insert", "implicit_tokens", "epp" (text), "expect" (v),  *)
(*         "expectrr" (v), "actiontype" (t), "start" (name)}               *)
(* rule piece  = [n, s, e, type, prods : Seq(production)]                  *)
(* production  = [syms : Seq(occurrence), prec : occurrence or n = "",     *)
(*                action, has_action, ps, pe, pemax, nonempty_text]        *)
(* occurrence  = [n, q ("q" quoted / "bare"), s, e]  (s, e = byte span of  *)
(*               the name in the rendered text)                            *)
(* Layout, comments and quoting style are NOT part of the document: every  *)
(* rendering of the same document must give the same grammar object.       *)
(*                                                                         *)
(* GrammarOf(doc) is the grammar object the documentation promises:        *)
(* numbering rules, token-vs-rule disambiguation, precedence levels,       *)
(* synthesised start rule / EOF token / Eco implicit-token rules.          *)
(***************************************************************************)
EXTENDS Naturals, Integers, Sequences, FiniteSets, TLC, FiniteSetsExt, SequencesExt

ROFFY == 100000

RECURSIVE DedupNames(_, _, _)
DedupNames(seq, seen, acc) ==     \* names of the occurrences, first occurrence order
  IF seq = <<>> THEN acc
  ELSE IF Head(seq).n \in seen THEN DedupNames(Tail(seq), seen, acc)
  ELSE DedupNames(Tail(seq), seen \cup {Head(seq).n}, Append(acc, Head(seq)))

Flatten(ss) == FoldLeft(LAMBDA a, b : a \o b, <<>>, ss)

IsEco(doc) == doc.kind = "eco"
DeclaredTokens(doc) == UNION { {doc.decls[i].occ[j].n : j \in 1 .. Len(doc.decls[i].occ)}
                               : i \in {k \in 1 .. Len(doc.decls) : doc.decls[k].d = "token"} }
\* an unquoted name in a production is a token iff it was declared with %token
IsTokSym(doc, sym) == sym.q = "q" \/ sym.n \in DeclaredTokens(doc)

DeclOcc(doc, d) == IF d.d \in {"token", "avoid_insert"} \/ (d.d = "implicit_tokens" /\ IsEco(doc)) THEN d.occ ELSE <<>>
ProdOcc(doc, p) == SelectSeq(p.syms, LAMBDA sy : IsTokSym(doc, sy)) \o (IF p.prec.n # "" THEN <<p.prec>> ELSE <<>>)
AllTokOcc(doc) ==
  Flatten([i \in 1 .. Len(doc.decls) |-> DeclOcc(doc, doc.decls[i])])
  \o Flatten([i \in 1 .. Len(doc.rules) |-> Flatten([j \in 1 .. Len(doc.rules[i].prods) |-> ProdOcc(doc, doc.rules[i].prods[j])])])
\* the tokens in numbering order, each with the occurrence that defines it
TokDefs(doc) == DedupNames(AllTokOcc(doc), {}, <<>>)
TokIdx(doc, name) == (CHOOSE i \in 1 .. Len(TokDefs(doc)) : TokDefs(doc)[i].n = name) - 1

ImplicitNames(doc) ==
  LET ds == {k \in 1 .. Len(doc.decls) : doc.decls[k].d = "implicit_tokens"} IN
  IF IsEco(doc) /\ ds # {} THEN UNION { {doc.decls[k].occ[j].n : j \in 1 .. Len(doc.decls[k].occ)} : k \in ds } ELSE {}
HasImplicit(doc) == IsEco(doc) /\ \E k \in 1 .. Len(doc.decls) : doc.decls[k].d = "implicit_tokens"

RulePieces(doc) == doc.rules
UserRuleDefs(doc) == DedupNames(doc.rules, {}, <<>>)          \* first piece of every rule
RuleNames(doc) == <<"^">> \o (IF HasImplicit(doc) THEN <<"~", "^~">> ELSE <<>>)
                  \o [i \in 1 .. Len(UserRuleDefs(doc)) |-> UserRuleDefs(doc)[i].n]
RuleIdx(doc, name) == (CHOOSE i \in 1 .. Len(RuleNames(doc)) : RuleNames(doc)[i] = name) - 1

StartName(doc) ==
  LET ds == {k \in 1 .. Len(doc.decls) : doc.decls[k].d = "start"} IN
  IF ds # {} THEN doc.decls[Min(ds)].name ELSE doc.rules[1].n

\* precedences: level = index of the declaration among the precedence declarations
PrecDecls(doc) == SelectSeq(doc.decls, LAMBDA d : d.d = "prec")
TokPrec(doc, name) ==
  LET hit == {k \in 1 .. Len(PrecDecls(doc)) : \E j \in 1 .. Len(PrecDecls(doc)[k].occ) : PrecDecls(doc)[k].occ[j].n = name} IN
  IF hit = {} THEN <<-1, -1>> ELSE <<Min(hit) - 1, PrecDecls(doc)[Min(hit)].kind>>

\* user productions in source order: [rule, syms, prec, ...]
UserProds(doc) == Flatten([i \in 1 .. Len(doc.rules) |->
                    [j \in 1 .. Len(doc.rules[i].prods) |-> [rule |-> doc.rules[i].n, p |-> doc.rules[i].prods[j]]]])
SymCode(doc, sy) == IF IsTokSym(doc, sy) THEN TokIdx(doc, sy.n) ELSE ROFFY + RuleIdx(doc, sy.n)
ProdRhs(doc, p) ==
  Flatten([i \in 1 .. Len(p.syms) |->
             IF IsTokSym(doc, p.syms[i]) /\ HasImplicit(doc)
             THEN <<SymCode(doc, p.syms[i]), ROFFY + RuleIdx(doc, "~")>>
             ELSE <<SymCode(doc, p.syms[i])>>])
\* production precedence: that of the %prec token, else of its last token
ProdPrec(doc, p) ==
  LET toks == {i \in 1 .. Len(p.syms) : IsTokSym(doc, p.syms[i])} IN
  IF p.prec.n # "" THEN TokPrec(doc, p.prec.n)
  ELSE IF toks = {} THEN <<-1, -1>> ELSE TokPrec(doc, p.syms[Max(toks)].n)

\* the synthesised productions, after the user's
ImplicitSorted(doc) == SetToSortSeq(ImplicitNames(doc), LAMBDA a, b : TokIdx(doc, a) < TokIdx(doc, b))
ExtraProds(doc) ==
  IF HasImplicit(doc)
  THEN << [r |-> 0, rhs |-> <<ROFFY + RuleIdx(doc, "^~")>>] >>
       \o [i \in 1 .. Len(ImplicitSorted(doc)) |-> [r |-> RuleIdx(doc, "~"), rhs |-> <<TokIdx(doc, ImplicitSorted(doc)[i]), ROFFY + RuleIdx(doc, "~")>>]]
       \o << [r |-> RuleIdx(doc, "~"), rhs |-> <<>>] >>
       \o << [r |-> RuleIdx(doc, "^~"), rhs |-> <<ROFFY + RuleIdx(doc, "~"), ROFFY + RuleIdx(doc, StartName(doc))>>] >>
  ELSE << [r |-> 0, rhs |-> <<ROFFY + RuleIdx(doc, StartName(doc))>>] >>

NUser(doc) == Len(UserProds(doc))
ExpectedProdsOfRule(doc, ri) ==     \* production indices of rule ri, in order
  LET name == RuleNames(doc)[ri + 1]
      user == SelectSeq([k \in 1 .. NUser(doc) |-> k - 1], LAMBDA k : UserProds(doc)[k + 1].rule = name)
      extra == SelectSeq([k \in 1 .. Len(ExtraProds(doc)) |-> NUser(doc) + k - 1], LAMBDA k : ExtraProds(doc)[k - NUser(doc) + 1].r = ri)
  IN user \o extra

DeclValue(doc, kind) == LET ds == {k \in 1 .. Len(doc.decls) : doc.decls[k].d = kind} IN IF ds = {} THEN -1 ELSE doc.decls[Min(ds)].v
EppOf(doc, name) == LET ds == {k \in 1 .. Len(doc.decls) : doc.decls[k].d = "epp" /\ doc.decls[k].occ[1].n = name} IN
                    IF ds = {} THEN name ELSE doc.decls[Min(ds)].text
AvoidNames(doc) == UNION { {doc.decls[k].occ[j].n : j \in 1 .. Len(doc.decls[k].occ)} : k \in {i \in 1 .. Len(doc.decls) : doc.decls[i].d = "avoid_insert"} }
GlobalActionType(doc) == LET ds == {k \in 1 .. Len(doc.decls) : doc.decls[k].d = "actiontype"} IN IF ds = {} THEN "" ELSE doc.decls[Min(ds)].t
ActionTypeOf(doc, ri) ==
  LET name == RuleNames(doc)[ri + 1] IN
  IF name \in {"^", "~", "^~"} THEN ""
  ELSE IF doc.kind = "grmtools" THEN (CHOOSE d \in ToSet(UserRuleDefs(doc)) : d.n = name).type
  ELSE IF doc.kind \in {"original", "original_noaction", "original_useraction"} THEN GlobalActionType(doc) ELSE ""

(***************************************************************************)
(* Deviations of an observed grammar object from GrammarOf(doc).           *)
(* obs is the dump of every accessor (harness ysrc.rs).                    *)
(***************************************************************************)
IfDevY(c, code, detail) == IF c THEN {} ELSE { <<code, detail>> }
YDevs(doc, obs) ==
  LET td == TokDefs(doc)  nt == Len(td) + 1
      rn == RuleNames(doc) nr == Len(rn)
      up == UserProds(doc)  ep == ExtraProds(doc)  np == Len(up) + Len(ep)
  IN
  IfDevY(obs.nt = nt /\ obs.nr = nr /\ obs.np = np, "counts (tokens + EOF, rules + start rule, productions + start production)", <<obs.nt, nt, obs.nr, nr, obs.np, np>>)
  \cup IfDevY(obs.iter_rules = [i \in 1 .. obs.nr |-> i - 1] /\ obs.iter_tidxs = [i \in 1 .. obs.nt |-> i - 1]
              /\ obs.iter_pidxs = [i \in 1 .. obs.np |-> i - 1] /\ obs.inrange, "dense numbering / indices in range", 0)
  \cup (IF obs.nt # nt \/ obs.nr # nr \/ obs.np # np THEN {} ELSE
    UNION { IfDevY(obs.tokens[i].name = td[i].n /\ obs.tokens[i].has_name, "token name / numbering", <<i - 1, obs.tokens[i].name, td[i].n>>)
            \cup IfDevY(obs.tokens[i].span = <<td[i].s, td[i].e>>, "token span # text that defines it", <<td[i].n, obs.tokens[i].span, <<td[i].s, td[i].e>> >>)
            \cup IfDevY(obs.tokens[i].prec = TokPrec(doc, td[i].n), "token precedence / associativity", <<td[i].n, obs.tokens[i].prec, TokPrec(doc, td[i].n)>>)
            \cup IfDevY(obs.tokens[i].epp = EppOf(doc, td[i].n) /\ obs.tokens[i].has_epp, "%epp string", <<td[i].n, obs.tokens[i].epp>>)
            \cup IfDevY(obs.tokens[i].avoid = (td[i].n \in AvoidNames(doc)), "%avoid_insert set", td[i].n)
            \cup IfDevY(obs.tokens[i].idx_by_name = i - 1, "token_idx(name)", td[i].n)
            : i \in 1 .. Len(td) }
    \cup IfDevY(~obs.tokens[nt].has_name /\ obs.eof = nt - 1 /\ obs.tokens[nt].prec = <<-1, -1>> /\ ~obs.tokens[nt].has_epp,
                "one unnamed end-of-input token, last", obs.eof)
    \cup UNION { IfDevY(obs.rules[i].name = rn[i], "rule name / numbering", <<i - 1, obs.rules[i].name, rn[i]>>)
                 \cup IfDevY(obs.rules[i].prods = ExpectedProdsOfRule(doc, i - 1), "productions of rule", <<rn[i], obs.rules[i].prods, ExpectedProdsOfRule(doc, i - 1)>>)
                 \cup IfDevY(obs.rules[i].actiontype = ActionTypeOf(doc, i - 1) /\ obs.rules[i].has_actiontype = (ActionTypeOf(doc, i - 1) # ""),
                             "action type", <<rn[i], obs.rules[i].actiontype, ActionTypeOf(doc, i - 1)>>)
                 \cup (IF rn[i] \in {"^", "~", "^~"} THEN {}
                       ELSE LET d == CHOOSE x \in ToSet(UserRuleDefs(doc)) : x.n = rn[i] IN
                            IfDevY(obs.rules[i].span = <<d.s, d.e>>, "rule span # text that defines it", <<rn[i], obs.rules[i].span, <<d.s, d.e>> >>))
                 : i \in 1 .. nr }
    \cup UNION { LET p == up[k].p  o == obs.prods[k] IN
                 IfDevY(o.r = RuleIdx(doc, up[k].rule), "production's rule", <<k - 1, o.r>>)
                 \cup IfDevY(o.rhs = ProdRhs(doc, p) /\ o.len = Len(o.rhs), "production symbols (source order)", <<k - 1, o.rhs, ProdRhs(doc, p)>>)
                 \cup IfDevY(o.prec = ProdPrec(doc, p), "production precedence (%prec, else last token)", <<k - 1, o.prec, ProdPrec(doc, p)>>)
                 \cup IfDevY(o.has_action = p.has_action /\ o.action = p.action, "action code", <<k - 1, o.action, p.action>>)
                 \cup IfDevY(IF p.nonempty_text THEN o.span[1] = p.ps /\ o.span[2] >= p.pe /\ o.span[2] <= p.pemax
                                                ELSE o.span[1] = o.span[2] \/ o.span[2] <= p.pemax,
                             "production span # text that defines it", <<k - 1, o.span, <<p.ps, p.pe, p.pemax>> >>)
                 : k \in 1 .. Len(up) }
    \cup UNION { LET o == obs.prods[Len(up) + k] IN
                 IfDevY(o.r = ep[k].r /\ o.rhs = ep[k].rhs /\ o.prec = <<-1, -1>> /\ ~o.has_action, "synthesised production", <<Len(up) + k - 1, o.rhs, ep[k].rhs>>)
                 \cup IfDevY(o.span[1] >= 0 /\ o.action_span[1] >= -1, "accessor panics on a synthesised production", <<Len(up) + k - 1, o.span, o.action_span>>)
                 : k \in 1 .. Len(ep) }
    \cup IfDevY(obs.startprod = Len(up) /\ obs.startrule = 0, "start rule / start production", <<obs.startprod, obs.startrule>>)
    \cup IfDevY(obs.expect = DeclValue(doc, "expect") /\ obs.expectrr = DeclValue(doc, "expectrr"), "%expect / %expect-rr", <<obs.expect, obs.expectrr>>)
    \cup IfDevY(obs.implicit_rule = (IF HasImplicit(doc) THEN 1 ELSE -1), "implicit rule", obs.implicit_rule)
    \cup IfDevY(obs.has_programs = doc.has_programs /\ obs.rule_idx_ok, "programs / rule_idx", 0))
=============================================================================
