----------------------------- MODULE TraceTotal -----------------------------
(* Trace specification for C12: one `outcome' event per (entry point, input string). *)
EXTENDS Totality, Json, IOUtils
Rec == ndJsonDeserialize(IOEnv.TRACE)
VARIABLES l, ndev
Report(inst, S) == \A d \in S : PrintT(<<"DEV", "C12", inst, l, d[1], d[2]>>)
Init == l = 1 /\ ndev = 0
Next == /\ l <= Len(Rec) /\ l' = l + 1
        /\ LET e == Rec[l]  ds == TotalityDevs(e.res, e.len, e.bounds) IN
           Report(e.id, {<<e.entry \o ": " \o d[1], d[2]>> : d \in ds}) /\ ndev' = ndev + Cardinality(ds)
Spec == Init /\ [][Next]_<<l, ndev>>
Consumed == (l = Len(Rec) + 1) => PrintT(<<"DONE", Len(Rec), ndev>>)
=============================================================================
