------------------------------ MODULE MC_CPCT ------------------------------
(***************************************************************************)
(* ALGORITHM layer of CPCT+ (lrpar/src/lib/cpctplus.rs + dijkstra.rs),     *)
(* checked against the MEANING layer of CPCTPlus.tla (C05, C06, C07 at the *)
(* level of the design).                                                   *)
(*                                                                         *)
(* What the code does and RefRepairs does not:                             *)
(*   - cost buckets `buckets[bc]' holding nodes, popped one at a time in an    *)
(*     order that is an accident of IndexMap (here: ANY order);            *)
(*   - nodes with the same parse stack and lookahead index whose repair    *)
(*     sequences are "compatible" (both end in a delete or neither does,   *)
(*     same number of trailing shifts) are MERGED: one node, several       *)
(*     alternative histories (PathFNode::eq, the `merge' closure);         *)
(*   - the search phase stops at the FIRST success node; the rest of its   *)
(*     bucket is then swept, following shifts only (`explore_all = false');*)
(*   - a node reached by reductions alone is kept only if it accepts;      *)
(*   - collect_repairs unfolds the merged histories, rank_cnds keeps the   *)
(*     nodes that parse furthest, simplify_repairs strips trailing shifts. *)
(*                                                                         *)
(* A bucket entry is [st, la, del, ns, reps]: parse stack, lookahead       *)
(* index, "last repair is a delete", number of trailing shifts and the SET *)
(* of repair sequences merged into it.  <<st, la, del, ns>> is exactly the *)
(* equivalence PathFNode::eq decides.                                      *)
(*                                                                         *)
(* Instances: every grammar of IOEnv.GRAMMARS x its canonical-LR(1) Yacc   *)
(* table (built by the specification itself) x every erroneous token       *)
(* string up to length L x two cost functions.                             *)
(***************************************************************************)
EXTENDS CanonTable, Json, IOUtils

CONSTANTS L,        \* input length bound
          MAXC,     \* repair cost bound (nodes beyond it are dropped: result `capped')
          Variant   \* "code", or a deliberately wrong algorithm that the properties must refute:
                    \* "nodel" (nodes merged although only one ends in a delete), "nosweep" (stop
                    \* at the first success node)
Gs == ndJsonDeserialize(IOEnv.GRAMMARS)

VARIABLES gi, inp, tbl, tcost, st0, la0,     \* the instance: grammar, input, table, token tcost, error configuration
          buckets, bc, phase, sweep, scs, capped
avars == <<C, pvars, gi, inp, tbl, tcost, st0, la0, buckets, bc, phase, sweep, scs, capped>>

\* ---- entries ----
Top(st) == st[Len(st)]
Key(e) == IF Variant = "nodel" THEN <<e.st, e.la, e.ns>> ELSE <<e.st, e.la, e.del, e.ns>>
AddRep(e, r) == { Append(s, r) : s \in e.reps }
SuccessE(e) == e.ns >= ParseAtLeast \/ TAct(tbl, Top(e.st), Tok(inp, e.la))[1] = "a"

\* neighbours, as <<cost, entry>> pairs
InsE(e, cost) ==
  IF e.del THEN {} ELSE
  UNION { LET r == LR1Tok(tbl, e.st, t, RFuel) IN
          IF r.shifted THEN { <<cost + Cost(tcost, t),
                                [st |-> r.st, la |-> e.la, del |-> FALSE, ns |-> 0, reps |-> AddRep(e, <<"i", t>>)]>> }
          ELSE {}
        : t \in {u \in Tokens : u # EOF /\ TAct(tbl, Top(e.st), u)[1] # "e"} }
DelE(e, cost) ==
  IF e.la >= Len(inp) THEN {} ELSE
  { <<cost + Cost(tcost, Tok(inp, e.la)),
      [st |-> e.st, la |-> e.la + 1, del |-> TRUE, ns |-> 0, reps |-> AddRep(e, <<"d", 0>>)]>> }
ShiftE(e, cost) ==
  LET r == LR1Tok(tbl, e.st, Tok(inp, e.la), RFuel) IN
  IF r.shifted
  THEN { <<cost, [st |-> r.st, la |-> e.la + 1, del |-> FALSE, ns |-> e.ns + 1, reps |-> AddRep(e, <<"s", 0>>)]>> }
  ELSE IF r.st # e.st /\ r.acc      \* reductions only: kept iff they lead to accept
  THEN { <<cost, [e EXCEPT !.st = r.st]>> }
  ELSE {}

\* insert an entry into a bucket, merging with the compatible entry if there is one
Into(S, x) == IF \E y \in S : Key(y) = Key(x)
              THEN LET y == CHOOSE z \in S : Key(z) = Key(x) IN (S \ {y}) \cup {[y EXCEPT !.reps = y.reps \cup x.reps]}
              ELSE S \cup {x}
RECURSIVE IntoAll(_, _)
IntoAll(S, X) == IF X = {} THEN S ELSE LET x == CHOOSE y \in X : TRUE IN IntoAll(Into(S, x), X \ {x})

Init ==
  /\ gi \in 1 .. Len(Gs) /\ C = MkCtx(Gs[gi])
  /\ core = <<>> /\ closed = <<>> /\ isc = <<>> /\ edges = <<>> /\ cnd = <<>> /\ todo_off = 0 /\ pending = {} /\ cur = 0
  /\ tbl = TLCEval(TableOf(CanonAuto))
  /\ inp \in AllStr(L)
  /\ \E cm \in {1, 2} : tcost = [t \in 1 .. C.nt |-> IF cm = 1 THEN 1 ELSE 1 + ((t - 1) % 2)]
  /\ LET r == Run(tbl, LexOfToks(inp), InitCfg(tbl), Fuel(LexOfToks(inp))) IN
     /\ r.st = "err"                                   \* only erroneous inputs are instances
     /\ st0 = r.ps /\ la0 = r.la
     /\ buckets = [k \in 0 .. MAXC |-> IF k = 0 THEN {[st |-> r.ps, la |-> r.la, del |-> FALSE, ns |-> 0, reps |-> {<<>>}]} ELSE {}]
  /\ bc = 0 /\ phase = "search" /\ sweep = {} /\ scs = {} /\ capped = FALSE

Advance ==
  /\ phase = "search" /\ buckets[bc] = {}
  /\ IF bc = MAXC THEN phase' = "done" /\ capped' = TRUE /\ UNCHANGED bc
     ELSE bc' = bc + 1 /\ UNCHANGED <<phase, capped>>
  /\ UNCHANGED <<buckets, sweep, scs>>

Pop(e) ==
  /\ phase = "search" /\ e \in buckets[bc]
  /\ IF SuccessE(e)
     THEN /\ scs' = {e} /\ phase' = (IF Variant = "nosweep" THEN "done" ELSE "sweep") /\ sweep' = buckets[bc] \ {e}
          /\ UNCHANGED <<buckets, bc, capped>>
     ELSE LET nb   == InsE(e, bc) \cup DelE(e, bc) \cup ShiftE(e, bc)
              keep == {x \in nb : x[1] <= MAXC}
              t1   == [buckets EXCEPT ![bc] = @ \ {e}]
          IN /\ buckets' = [k \in 0 .. MAXC |-> IntoAll(t1[k], {x[2] : x \in {y \in keep : y[1] = k}})]
             /\ capped' = (capped \/ keep # nb)
             /\ UNCHANGED <<bc, phase, sweep, scs>>

PopSweep(e) ==
  /\ phase = "sweep" /\ e \in sweep
  /\ IF SuccessE(e)
     THEN scs' = scs \cup {e} /\ sweep' = sweep \ {e}
     ELSE scs' = scs /\ sweep' = IntoAll(sweep \ {e}, {x[2] : x \in ShiftE(e, bc)})
  /\ UNCHANGED <<buckets, bc, phase, capped>>

Finish == phase = "sweep" /\ sweep = {} /\ phase' = "done" /\ UNCHANGED <<buckets, bc, sweep, scs, capped>>

\* Popping non-success nodes commutes (each only adds nodes to its own and to dearer buckets), so
\* they are taken in one fixed order; what the pop order really decides is WHEN the first success
\* node is met, i.e. which of them ends the search phase and how much of the bucket has been
\* expanded by then - and that choice is left completely open.
NextPlain(S) == CHOOSE x \in {y \in S : ~SuccessE(y)} : TRUE
Next == /\ UNCHANGED <<C, pvars, gi, inp, tbl, tcost, st0, la0>>
        /\ \/ Advance \/ Finish
           \/ \E e \in buckets[bc] : (SuccessE(e) \/ (~SuccessE(e) /\ e = NextPlain(buckets[bc]))) /\ Pop(e)
           \/ \E e \in sweep : e = (CHOOSE x \in sweep : TRUE) /\ PopSweep(e)
Spec == Init /\ [][Next]_avars

\* ---- what the algorithm reports (collect_repairs, rank_cnds, simplify_repairs) ----
Found == phase = "done" /\ scs # {}
DistE(e) == Dist(tbl, inp, e.st, e.la, la0 + TryParseAtMost)
AlgSet == LET far == Max({DistE(e) : e \in scs})
          IN UNION { {Strip(s) : s \in e.reps} : e \in {x \in scs : DistE(x) = far} }

\* ---- properties ----
\* every history merged into a node replays, from the error configuration, to that node's
\* configuration (up to reductions the lookahead still calls for): merging is sound, and the
\* stack the search worked on is the stack a replay of the repair produces (C05)
ReplaysTo(e, s) == LET a == ApplyBare(tbl, inp, st0, la0, s) IN
                   /\ a.ok /\ a.la = e.la
                   /\ (a.st = e.st \/ LR1Tok(tbl, a.st, Tok(inp, a.la), RFuel).st = e.st)
AllEntries == UNION {buckets[k] : k \in 0 .. MAXC} \cup sweep \cup scs
MergeSound == \A e \in AllEntries : \A s \in e.reps : ReplaysTo(e, s)
\* every reported repair sequence repairs (C05)
RepairsRepair == Found => \A e \in scs : \A s \in e.reps : ValidRepair(tbl, inp, st0, la0, Strip(s))
\* the reported set is the complete minimum-cost set, whatever the order nodes are popped in (C06)
Ref == RefRepairs(tbl, inp, tcost, st0, la0, MAXC)
AlgEqualsRef ==
  phase = "done" =>
    IF Found THEN /\ Ref.found /\ Ref.cost = bc /\ AlgSet = Ref.set
    ELSE (~capped => ~Ref.found)
\* every reported sequence tcost exactly the cost of the bucket it was found in
CostsAgree == Found => \A e \in scs : \A s \in e.reps : SeqCostOf(inp, tcost, la0, s) = bc
\* no success node is ever left unexplored in a cheaper bucket
Minimal == Found => \A k \in 0 .. bc - 1 : buckets[k] = {}
\* applying any reported repair moves the parse on, or the input ends / is accepted (C07)
Progress == Found => \A e \in scs : e.la > la0 \/ e.la = Len(inp) \/ \E s \in e.reps : Len(s) > 0
=============================================================================
