------------------------------ MODULE Totality ------------------------------
(* The outcome contract of the specification parsers (C12): a value, or a non-empty list of
   errors; never a panic, never a hang; every span satisfies start <= end <= length of the text
   and lies on character boundaries, and the diagnostics formatter's rendering of every error
   shows the error's message. *)
EXTENDS Naturals, Integers, Sequences, FiniteSets, TLC, SequencesExt
SpanOK(sp, len, bounds) == sp[1] <= sp[2] /\ sp[2] <= len /\ sp[1] \in bounds /\ sp[2] \in bounds
ItemsOK(items, len, bounds) == \A i \in 1 .. Len(items) : \A j \in 1 .. Len(items[i].spans) : SpanOK(items[i].spans[j], len, bounds)
TotalityDevs(res, len, bnds) ==
  LET bounds == ToSet(bnds) IN
  CASE res.class = "panic" -> { <<"parser panicked", res.msg>> }
    [] res.class = "hang" -> { <<"parser did not return", 0>> }
    [] res.class = "err" ->
         (IF res.errors = <<>> THEN { <<"error outcome with an empty error list", 0>> } ELSE {})
         \cup (IF ItemsOK(res.errors, len, bounds) THEN {} ELSE { <<"error span outside the text / off a character boundary", res.errors>> })
         \cup { <<"the rendering of an error does not show its message", res.errors[i]>> :
                  i \in {i \in 1 .. Len(res.errors) : "shown" \in DOMAIN res.errors[i] /\ ~res.errors[i].shown} }
    [] OTHER -> (IF "warnings" \in DOMAIN res /\ ~ItemsOK(res.warnings, len, bounds)
                 THEN { <<"warning span outside the text / off a character boundary", res.warnings>> } ELSE {})
=============================================================================
