---------------------------- MODULE TraceMarkMap ----------------------------
(* Trace specification for cfgrammar::markmap::MarkMap: random operation sequences on two maps
   (`vh markmap'); after every operation the model's result and the full observation of both
   maps through the public API must coincide with what the code returned. *)
EXTENDS MarkMap, Json, IOUtils
Rec == ndJsonDeserialize(IOEnv.TRACE)
VARIABLES l, ndev, inst, maps
Prop == IF "PROP" \in DOMAIN IOEnv THEN IOEnv.PROP ELSE "C11"
Report(S) == \A d \in S : PrintT(<<"DEV", Prop, inst, l, d[1], d[2]>>)
ToSet(s) == {s[i] : i \in 1 .. Len(s)}

\* the observation the code must report for map m
ObsKey(m, k) == [k |-> k, get |-> Get(m, k), contains |-> Contains(m, k), used |-> IsUsed(m, k), req |-> IsRequired(m, k),
                 occupied |-> Occupied(m, k), mb |-> IF Occupied(m, k) THEN Slot(m, k).mb ELSE "hidden"]
ObsDevs(m, o, which) ==
  UNION { IF o.keys[k + 1] = ObsKey(m, k) THEN {} ELSE { <<"observation of a key # model", <<which, o.keys[k + 1], ObsKey(m, k)>> >> } : k \in Keys }
  \cup (IF ToSet(o.unused) = Unused(m) THEN {} ELSE { <<"unused() # model", <<which, o.unused, Unused(m)>> >> })
  \cup (IF ToSet(o.missing) = Missing(m) THEN {} ELSE { <<"missing() # model", <<which, o.missing, Missing(m)>> >> })
  \cup (IF ToSet(o.keyset) = KeysOf(m) THEN {} ELSE { <<"keys() # model", <<which, o.keyset, KeysOf(m)>> >> })
  \cup (IF ToSet(o.iter) = Iter(m) THEN {} ELSE { <<"iteration # model", <<which, o.iter, Iter(m)>> >> })

Step(e) ==    \* -> [maps, res]
  LET w == e.w + 1  m == maps[w]  other == maps[3 - w] IN
  CASE e.op = "insert"        -> LET r == Insert(m, e.k, e.v) IN [maps |-> [maps EXCEPT ![w] = r.m], res |-> r.r]
    [] e.op = "remove"        -> LET r == Remove(m, e.k) IN [maps |-> [maps EXCEPT ![w] = r.m], res |-> r.r]
    [] e.op = "mark_used"     -> [maps |-> [maps EXCEPT ![w] = MarkUsed(m, e.k).m], res |-> NoVal]
    [] e.op = "mark_required" -> [maps |-> [maps EXCEPT ![w] = MarkRequired(m, e.k).m], res |-> NoVal]
    [] e.op = "set_mb"        -> [maps |-> [maps EXCEPT ![w] = SetMB(m, e.k, e.b).m], res |-> NoVal]
    [] e.op = "set_default"   -> [maps |-> [maps EXCEPT ![w] = SetDefault(m, e.b).m], res |-> NoVal]
    [] e.op = "merge"         -> LET r == Merge(m, other) IN
                                 [maps |-> [maps EXCEPT ![w] = r.m, ![3 - w] = Empty], res |-> [err |-> r.err, key |-> r.key]]
    [] OTHER                  -> [maps |-> maps, res |-> "panic"]

Init == l = 1 /\ ndev = 0 /\ inst = "" /\ maps = <<Empty, Empty>>
Next ==
  /\ l <= Len(Rec) /\ l' = l + 1
  /\ LET e == Rec[l] IN
     IF e.ev = "mm_reset" THEN inst' = e.id /\ maps' = <<Empty, Empty>> /\ UNCHANGED ndev
     ELSE LET s == Step(e)
              ds == (IF e.op = "panic" THEN { <<"MarkMap operation panicked", e.res>> }
                     ELSE (IF s.res = e.res THEN {} ELSE { <<"result of " \o e.op \o " # model", <<e.res, s.res>> >> })
                          \cup ObsDevs(s.maps[1], e.obs[1], 0) \cup ObsDevs(s.maps[2], e.obs[2], 1))
          IN /\ maps' = s.maps /\ UNCHANGED inst
             /\ Report(ds) /\ ndev' = ndev + Cardinality(ds)
Spec == Init /\ [][Next]_<<l, ndev, inst, maps>>
Consumed == (l = Len(Rec) + 1) => PrintT(<<"DONE", Len(Rec), ndev>>)
=============================================================================
