------------------------------ MODULE Pipeline ------------------------------
(***************************************************************************)
(* The pipeline  source -> grammar -> graph -> table -> parser, seen       *)
(* through its PROJECTION: everything the public API lets a user observe   *)
(* (numbering, names, precedences, %epp, %avoid_insert, actions, action    *)
(* types, every action / goto cell, views, conflicts, parse results).      *)
(* The projection is what the other modules (YaccSrc, StateTable, LRParse) *)
(* define; here it is an opaque value `proj' plus two laws:                *)
(*                                                                         *)
(*  C14  Reconstitute(format) - serialising grammar and table and reading  *)
(*       them back, as every generated parser does at start-up - is a      *)
(*       STUTTERING step: the projection does not change.                  *)
(*  C15  Build is a function of (sources, settings): two Builds of the     *)
(*       same inputs, in whatever process (hash seed) they run, give the   *)
(*       same projection.                                                  *)
(***************************************************************************)
EXTENDS Naturals, Sequences, TLC

VARIABLES src,     \* identity of the sources + settings of the current instance
          proj,    \* the observed projection (a digest of the full observation), or "none"
          built    \* function: src identity -> projection of the first Build seen for it
pvars2 == <<src, proj, built>>

PInit == src = "" /\ proj = "none" /\ built = <<>>

\* a (new) process builds the pipeline for sources s and observes p
Build(s, p) == /\ src' = s /\ proj' = p
               /\ built' = IF s \in DOMAIN built THEN built ELSE built @@ (s :> p)
BuildDeterministic(s, p) == s \in DOMAIN built => built[s] = p      \* C15

\* serialise + _reconstitute, observing p afterwards: nothing may have changed
Reconstitute(p) == proj' = p /\ UNCHANGED <<src, built>>
ReconstituteStutters(p) == p = proj                                  \* C14
=============================================================================
