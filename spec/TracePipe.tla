----------------------------- MODULE TracePipe -----------------------------
(* Trace specification for C14 (built / reconstitute events) and C15 (proc / built events from
   independent processes; tokmap events: runs of CTTokenMapBuilder against TokenMap.tla). *)
EXTENDS Pipeline, Json, IOUtils, FiniteSets
TM == INSTANCE TokenMap
Rec == ndJsonDeserialize(IOEnv.TRACE)
VARIABLES l, ndev
Prop == IF "PROP" \in DOMAIN IOEnv THEN IOEnv.PROP ELSE "C14"
Report(inst, S) == \A d \in S : PrintT(<<"DEV", Prop, inst, l, d[1], d[2]>>)
Key(e) == e.id \o "/" \o ToString(e.width)
Init == l = 1 /\ ndev = 0 /\ PInit
Next ==
  /\ l <= Len(Rec) /\ l' = l + 1
  /\ LET e == Rec[l] IN
     CASE e.ev = "built" ->
            /\ Build(Key(e), e.digest)
            /\ LET ds == IF Prop = "C15" /\ ~BuildDeterministic(Key(e), e.digest)
                         THEN { <<"same sources and settings, different result in another process", <<e.proc, e.diff>> >> } ELSE {} IN
               Report(e.id, ds) /\ ndev' = ndev + Cardinality(ds)
       [] e.ev = "reconstitute" ->
            /\ Reconstitute(proj)      \* adopt nothing: the projection must not move
            /\ LET ds == IF ReconstituteStutters(e.digest) THEN {}
                         ELSE { <<"observation changed by serialise + reconstitute (" \o e.format \o ", u" \o ToString(e.width) \o ")", e.diff>> } IN
               Report(e.id, ds) /\ ndev' = ndev + Cardinality(ds)
       [] e.ev = "entry" ->
            \* the same configuration through build() and through the deprecated process_file(): same
            \* outcome, same module
            /\ LET ds == IF e.build = e.process_file THEN {}
                         ELSE { <<"CTParserBuilder::process_file (deprecated entry point) does not do what build() does with the same settings", <<e.build, e.process_file>> >> } IN
               Report(e.id, ds) /\ ndev' = ndev + Cardinality(ds)
            /\ UNCHANGED pvars2
       [] e.ev = "tokmap" ->
            \* one run of CTTokenMapBuilder: what it generated against TokenMap.tla
            /\ LET ds == TM!TokMapDevs(e) IN Report(e.id, ds) /\ ndev' = ndev + Cardinality(ds)
            /\ UNCHANGED pvars2
       [] OTHER -> UNCHANGED <<ndev, pvars2>>
Spec == Init /\ [][Next]_<<l, ndev, pvars2>>
Consumed == (l = Len(Rec) + 1) => PrintT(<<"DONE", Len(Rec), ndev>>)
=============================================================================
