---------------------------- MODULE CTBuildProof ----------------------------
(* C18's core for the parser builder, for histories of ANY length over ANY set of grammar
   versions: after a successful CTParserBuilder::build the generated module is the one a clean
   build of the current grammar and settings produces; a failed build leaves no module; an
   unchanged configuration is not regenerated.  The reason the "output is up to date" shortcut is
   sound is the inductive invariant below: an output that is newer than the grammar file was
   generated from the grammar's current version.  The invariant is preserved by every action of the model, combined
   (lexer + parser) builds and lexer edits included.  (TLC checks the complete model, token
   synchronisation included, up to a depth: MC_CTBuild.tla.) *)
EXTENDS CTBuild, TLAPS

CONSTANTS Versions, GInfo, Vals, LVersions, LInfo
AllKeys == ParserCacheKeys \cup LexerKeys \cup {"lex_wae"}
ASSUME GInfoType == GInfo \in [Versions -> [valid : BOOLEAN, warn : BOOLEAN, sr : Nat, rr : Nat, expect : Int, expectrr : Int, tok : Nat]]
ASSUME ValsType == BOOLEAN \subseteq Vals

OptsType(o) == o \in [AllKeys -> Vals] /\ o["wae"] \in BOOLEAN /\ o["eoc"] \in BOOLEAN

PNext == \/ \E v \in Versions : EditGrammar(v) \/ EditGrammarSameTick(v)
         \/ \E k \in AllKeys, x \in Vals : (k \in {"wae", "eoc"} => x \in BOOLEAN) /\ SetOpt(k, x)
         \/ \E v \in LVersions : EditLexer(v)
         \/ BuildParser(GInfo)
         \/ BuildBoth(GInfo, LInfo)

Good(out) ==          \* a module that some clean build could have produced
  LET g == GInfo[out.src] IN
  /\ out.src \in Versions /\ out.mtime \in Nat /\ out.opts \in [ParserCacheKeys -> Vals]
  /\ g.valid /\ ~(out.opts["wae"] /\ g.warn) /\ ~(out.opts["eoc"] /\ ~ExpectOK(g)) /\ out.tok = g.tok

Inv ==
  /\ gv \in Versions /\ gm \in Nat /\ clock \in Nat /\ gm < clock
  /\ OptsType(opts)
  /\ pout.present \in BOOLEAN
  /\ pout.present => Good(pout) /\ pout.mtime < clock
  /\ pout.present /\ pout.mtime > gm => pout.src = gv          \* newer than the grammar => made from it

PInit == gv \in Versions /\ gm = 1 /\ OptsType(opts) /\ pout = Absent /\ clock = 2

LEMMA Keys == "wae" \in ParserCacheKeys /\ "eoc" \in ParserCacheKeys /\ "wae" \in AllKeys /\ "eoc" \in AllKeys
  BY DEF ParserCacheKeys, AllKeys

LEMMA InitInv == PInit => Inv
  BY DEF PInit, Inv, Absent

LEMMA POptsType == \A o : OptsType(o) => POpts(o) \in [ParserCacheKeys -> Vals] /\ POpts(o)["wae"] = o["wae"] /\ POpts(o)["eoc"] = o["eoc"]
  BY Keys DEF OptsType, POpts, AllKeys

LEMMA OutGood ==
  Inv => LET r == ParserBuild(GInfo, gv, gm, opts, pout, clock) IN
         /\ r.out.present \in BOOLEAN
         /\ r.out.present => Good(r.out) /\ r.out.mtime < clock + 1
         /\ r.out.present /\ r.out.mtime > gm => r.out.src = gv
  <1> SUFFICES ASSUME Inv
               PROVE LET r == ParserBuild(GInfo, gv, gm, opts, pout, clock) IN
                     /\ r.out.present \in BOOLEAN
                     /\ r.out.present => Good(r.out) /\ r.out.mtime < clock + 1
                     /\ r.out.present /\ r.out.mtime > gm => r.out.src = gv
    OBVIOUS
  <1> DEFINE g == GInfo[gv]
             r == ParserBuild(GInfo, gv, gm, opts, pout, clock)
  <1>0. g \in [valid : BOOLEAN, warn : BOOLEAN, sr : Nat, rr : Nat, expect : Int, expectrr : Int, tok : Nat]
    BY GInfoType DEF Inv
  <1>2. POpts(opts) \in [ParserCacheKeys -> Vals] /\ POpts(opts)["wae"] = opts["wae"] /\ POpts(opts)["eoc"] = opts["eoc"]
    BY POptsType DEF Inv
  <1>3. CASE ~g.valid \/ (opts["wae"] /\ g.warn)
    <2>1. r.out = Absent  BY <1>3 DEF ParserBuild
    <2> QED BY <2>1 DEF Absent
  <1>4. CASE ~(~g.valid \/ (opts["wae"] /\ g.warn)) /\ (pout.present /\ pout.mtime > gm /\ pout.opts = POpts(opts) /\ pout.tok = g.tok)
    <2>1. r.out = pout  BY <1>4 DEF ParserBuild
    <2> QED BY <2>1, <1>4 DEF Inv, Good
  <1>5. CASE ~(~g.valid \/ (opts["wae"] /\ g.warn)) /\ ~(pout.present /\ pout.mtime > gm /\ pout.opts = POpts(opts) /\ pout.tok = g.tok) /\ (opts["eoc"] /\ ~ExpectOK(g))
    <2>1. r.out = Absent  BY <1>5 DEF ParserBuild
    <2> QED BY <2>1 DEF Absent
  <1>6. CASE ~(~g.valid \/ (opts["wae"] /\ g.warn)) /\ ~(pout.present /\ pout.mtime > gm /\ pout.opts = POpts(opts) /\ pout.tok = g.tok) /\ ~(opts["eoc"] /\ ~ExpectOK(g))
    <2>1. r.out = [present |-> TRUE, src |-> gv, opts |-> POpts(opts), tok |-> g.tok, mtime |-> clock]
      BY <1>6 DEF ParserBuild
    <2> QED BY <2>1, <1>0, <1>2, <1>6 DEF Inv, Good
  <1> QED BY <1>3, <1>4, <1>5, <1>6

LEMMA StepInv == Inv /\ [PNext]_cvars => Inv'
  <1> SUFFICES ASSUME Inv, [PNext]_cvars PROVE Inv'
    OBVIOUS
  <1>1. CASE UNCHANGED cvars
    BY <1>1 DEF Inv, cvars, Good, OptsType
  <1>2. ASSUME NEW v \in Versions, EditGrammar(v) PROVE Inv'
    BY <1>2 DEF Inv, EditGrammar, Good, OptsType
  <1>3. ASSUME NEW v \in Versions, EditGrammarSameTick(v) PROVE Inv'
    BY <1>3 DEF Inv, EditGrammarSameTick, Good, OptsType
  <1>4. ASSUME NEW k \in AllKeys, NEW x \in Vals, k \in {"wae", "eoc"} => x \in BOOLEAN, SetOpt(k, x) PROVE Inv'
    <2>1. opts' = [opts EXCEPT ![k] = x] /\ UNCHANGED <<gv, gm, pout, clock>>
      BY <1>4 DEF SetOpt
    <2>2. opts \in [AllKeys -> Vals] /\ opts["wae"] \in BOOLEAN /\ opts["eoc"] \in BOOLEAN
      BY DEF Inv, OptsType
    <2>3. opts' \in [AllKeys -> Vals]
      BY <2>1, <2>2
    <2>4. opts'["wae"] \in BOOLEAN
      <3>1. CASE k = "wae"  BY <3>1, <2>1, <2>2, <1>4, Keys
      <3>2. CASE k # "wae"  BY <3>2, <2>1, <2>2, Keys
      <3> QED BY <3>1, <3>2
    <2>5. opts'["eoc"] \in BOOLEAN
      <3>1. CASE k = "eoc"  BY <3>1, <2>1, <2>2, <1>4, Keys
      <3>2. CASE k # "eoc"  BY <3>2, <2>1, <2>2, Keys
      <3> QED BY <3>1, <3>2
    <2> QED BY <2>1, <2>3, <2>4, <2>5 DEF Inv, Good, OptsType
  <1>5. ASSUME BuildParser(GInfo) PROVE Inv'
    <2>1. pout' = ParserBuild(GInfo, gv, gm, opts, pout, clock).out /\ clock' = clock + 1 /\ gv' = gv /\ gm' = gm /\ opts' = opts
      BY <1>5 DEF BuildParser
    <2> QED BY <2>1, OutGood DEF Inv, OptsType
  <1>6. ASSUME NEW v \in LVersions, EditLexer(v) PROVE Inv'
    BY <1>6 DEF Inv, EditLexer, Good, OptsType
  <1>7. ASSUME BuildBoth(GInfo, LInfo) PROVE Inv'
    <2>1. CASE ~LInfo[lv].valid
      <3>1. pout' = pout /\ clock' = clock + 1 /\ gv' = gv /\ gm' = gm /\ opts' = opts
        BY <1>7, <2>1 DEF BuildBoth
      <3> QED BY <3>1 DEF Inv, Good, OptsType
    <2>2. CASE LInfo[lv].valid
      <3>1. pout' = ParserBuild(GInfo, gv, gm, opts, pout, clock).out /\ clock' = clock + 1 /\ gv' = gv /\ gm' = gm /\ opts' = opts
        BY <1>7, <2>2 DEF BuildBoth
      <3> QED BY <3>1, OutGood DEF Inv, OptsType
    <2> QED BY <2>1, <2>2
  <1> QED BY <1>1, <1>2, <1>3, <1>4, <1>5, <1>6, <1>7 DEF PNext

\* after a successful build: the module of a clean build of the current grammar and settings
THEOREM AfterBuild ==
  Inv /\ BuildParser(GInfo) /\ last'.ok =>
     /\ CleanParser(GInfo, gv', opts').present
     /\ pout'.present /\ pout'.src = gv' /\ pout'.opts = POpts(opts') /\ pout'.tok = GInfo[gv'].tok
  <1> SUFFICES ASSUME Inv, BuildParser(GInfo), last'.ok
               PROVE /\ CleanParser(GInfo, gv', opts').present
                     /\ pout'.present /\ pout'.src = gv' /\ pout'.opts = POpts(opts') /\ pout'.tok = GInfo[gv'].tok
    OBVIOUS
  <1> DEFINE g == GInfo[gv]
             r == ParserBuild(GInfo, gv, gm, opts, pout, clock)
  <1>1. pout' = r.out /\ last'.ok = r.ok /\ gv' = gv /\ opts' = opts
    BY DEF BuildParser
  <1>2. POpts(opts)["wae"] = opts["wae"] /\ POpts(opts)["eoc"] = opts["eoc"]
    BY POptsType DEF Inv
  <1>3. CASE ~g.valid \/ (opts["wae"] /\ g.warn)
    <2>1. r.ok = FALSE  BY <1>3 DEF ParserBuild
    <2> QED BY <2>1, <1>1
  <1>4. CASE ~(~g.valid \/ (opts["wae"] /\ g.warn)) /\ (pout.present /\ pout.mtime > gm /\ pout.opts = POpts(opts) /\ pout.tok = g.tok)
    <2>1. r.out = pout  BY <1>4 DEF ParserBuild
    <2>2. pout.src = gv /\ Good(pout)  BY <1>4 DEF Inv
    <2>3. ~(opts["eoc"] /\ ~ExpectOK(g))  BY <2>2, <1>2, <1>4 DEF Good
    <2> QED BY <2>1, <2>2, <2>3, <1>1, <1>4 DEF CleanParser, Absent
  <1>5. CASE ~(~g.valid \/ (opts["wae"] /\ g.warn)) /\ ~(pout.present /\ pout.mtime > gm /\ pout.opts = POpts(opts) /\ pout.tok = g.tok) /\ (opts["eoc"] /\ ~ExpectOK(g))
    <2>1. r.ok = FALSE  BY <1>5 DEF ParserBuild
    <2> QED BY <2>1, <1>1
  <1>6. CASE ~(~g.valid \/ (opts["wae"] /\ g.warn)) /\ ~(pout.present /\ pout.mtime > gm /\ pout.opts = POpts(opts) /\ pout.tok = g.tok) /\ ~(opts["eoc"] /\ ~ExpectOK(g))
    <2>1. r.out = [present |-> TRUE, src |-> gv, opts |-> POpts(opts), tok |-> g.tok, mtime |-> clock]
      BY <1>6 DEF ParserBuild
    <2> QED BY <2>1, <1>1, <1>6 DEF CleanParser, Absent
  <1> QED BY <1>3, <1>4, <1>5, <1>6

\* a failed build leaves no module behind
THEOREM NoStale == BuildParser(GInfo) /\ ~last'.ok => pout' = Absent
  BY DEF BuildParser, ParserBuild

\* an unchanged configuration is not regenerated, and the build says so
THEOREM Unchanged ==
  /\ pout.present /\ pout.mtime > gm /\ pout.opts = POpts(opts) /\ pout.tok = GInfo[gv].tok
  /\ GInfo[gv].valid /\ ~(opts["wae"] /\ GInfo[gv].warn)
  /\ BuildParser(GInfo)
  => ~last'.regenerated /\ last'.ok /\ pout' = pout
  BY DEF BuildParser, ParserBuild

\* the combined build (CTLexerBuilder with an embedded parser build), for any lexer versions: a
\* successful one writes the lexer module of the current lexer file, settings and token set; a
\* failed one leaves no lexer module; the parser part behaves as in a parser-only build
THEOREM BothLexer ==
  BuildBoth(GInfo, LInfo) =>
           /\ (last'.ok => lout' = [present |-> TRUE, src |-> lv', opts |-> LOpts(opts'), tok |-> GInfo[gv'].tok])
           /\ (~last'.ok => lout' = Absent)
  BY DEF BuildBoth

THEOREM BothParser ==
  BuildBoth(GInfo, LInfo) /\ LInfo[lv].valid =>
           pout' = ParserBuild(GInfo, gv, gm, opts, pout, clock).out /\ gv' = gv /\ gm' = gm /\ opts' = opts /\ clock' = clock + 1
  BY DEF BuildBoth

THEOREM Safety == PInit /\ [][PNext]_cvars => []Inv
  BY InitInv, StepInv, PTL
=============================================================================
