----------------------------- MODULE TraceWidth -----------------------------
(* Trace specification for C20: one `width' event per grammar with the outcome of building it
   with u8 / u16 / u32 storage.  A narrower build must either be refused with the documented
   panic or report exactly the sizes, numbering, table and parse results of the u32 build. *)
EXTENDS Width, Sequences, FiniteSets, Json, IOUtils
Rec == ndJsonDeserialize(IOEnv.TRACE)
VARIABLES l, ndev
Prop == IF "PROP" \in DOMAIN IOEnv THEN IOEnv.PROP ELSE "C20"
Report(inst, S) == \A d \in S : PrintT(<<"DEV", Prop, inst, l, d[1], d[2]>>)
\* as C10 sees the same builds: the grammar OBJECT of a narrow build is a faithful image of the source
\* (sizes as the source defines them, dense numbering, every index in range, no query fails)
C10Codes == {"reported sizes differ from u32 (wrapped?)", "reported sizes differ from what the source defines",
             "grammar observation differs from u32", "undocumented panic instead of a clean refusal"}
IfDev(c, code, detail) == IF c THEN {} ELSE { <<code, detail>> }

\* the counts of this instance as the Width model wants them (source-level counts come from the
\* generator, state counts from the u32 build)
CountsOf(e) == [rules |-> e.counts.rules, tokens |-> e.counts.tokens, prods |-> e.counts.prods,
                maxsyms |-> e.counts.maxsyms, eco |-> e.counts.eco, implicit |-> e.counts.implicit,
                toksyms |-> e.counts.toksyms,
                pregc |-> IF "pregc" \in DOMAIN e.w32 THEN e.w32.pregc ELSE 0,
                states |-> IF "states" \in DOMAIN e.w32 THEN e.w32.states ELSE 0]

OneWidth(e, r, w) ==
  LET c == CountsOf(e) IN
  CASE r.class = "skipped" -> {}
    [] r.class = "refused" ->
         \* a refusal must be explainable: something does not fit (otherwise the width "accepts it")
         IfDev(~NoWrap(c, w) \/ Refused(c, w, TRUE), "refused although everything fits", <<w, r.msg>>)
    [] r.class = "panic" -> { <<"undocumented panic instead of a clean refusal", <<w, r.msg>> >> }
    [] r.class \in {"built", "built_grammar_only"} ->
         IfDev(r.class = e.w32.class, "outcome differs from u32", <<w, r.class, e.w32.class>>)
         \cup IfDev(r.lens = e.w32.lens, "reported sizes differ from u32 (wrapped?)", <<w, r.lens, e.w32.lens>>)
         \cup IfDev(r.lens.rules = StoredRules(c) /\ r.lens.tokens = StoredTokens(c) /\ r.lens.prods = StoredProds(c)
                    /\ r.lens.iter_rules = r.lens.rules /\ r.lens.iter_tidxs = r.lens.tokens /\ r.lens.iter_pidxs = r.lens.prods,
                    "reported sizes differ from what the source defines", <<w, r.lens>>)
         \cup IfDev(r.gdigest = e.w32.gdigest, "grammar observation differs from u32", w)
         \cup (IF r.class = "built" /\ e.w32.class = "built"
               THEN IfDev(r.cdigest = e.w32.cdigest /\ r.states = e.w32.states /\ r.iter_stidxs = r.states,
                          "graph/table observation differs from u32", <<w, r.states, e.w32.states>>)
                    \* equal up to state numbering, but numbered differently: known finding
                    \cup (IF r.cdigest = e.w32.cdigest /\ r.tdigest # e.w32.tdigest
                          THEN { <<"KF:state-numbering-width", w>> } ELSE {})
               ELSE {})
    [] OTHER -> IfDev(r.class = e.w32.class, "outcome differs from u32", <<w, r.class>>)

Devs(e) == OneWidth(e, e.w8, 8) \cup OneWidth(e, e.w16, 16)
           \cup IfDev(e.w32.class \in {"built", "built_grammar_only", "grammar_err"}, "u32 build failed", e.w32)

Init == l = 1 /\ ndev = 0
Next == /\ l <= Len(Rec) /\ l' = l + 1
        /\ LET e == Rec[l]  ds == IF Prop = "C10" THEN {d \in Devs(e) : d[1] \in C10Codes} ELSE Devs(e)
           IN Report(e.id, ds) /\ ndev' = ndev + Cardinality(ds)
Spec == Init /\ [][Next]_<<l, ndev>>
Consumed == (l = Len(Rec) + 1) => PrintT(<<"DONE", Len(Rec), ndev>>)
=============================================================================
