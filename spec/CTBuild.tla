------------------------------- MODULE CTBuild -------------------------------
(***************************************************************************)
(* Incremental compile-time builds (C18; the %expect rule of C03).         *)
(*                                                                         *)
(* State: the grammar and lexer files (version id + modification time),    *)
(* the builder settings, and the two generated files - absent, or          *)
(* [src, opts, tok, mtime] recording what they were generated from.        *)
(* One action per operation of a build history: EditGrammar, EditLexer,    *)
(* SetOpt, BuildParser (CTParserBuilder::build) and BuildBoth              *)
(* (CTLexerBuilder::build with an embedded parser build), the builds       *)
(* transcribed with their real decisions: which failures come before the   *)
(* old output is deleted, when output counts as up to date (newer than the *)
(* grammar AND same cache string), what the cache string contains.         *)
(*                                                                         *)
(* Source versions are described by constant records (given by the         *)
(* history): GInfo[v] = [valid, warn, sr, rr, expect, expectrr, tok],      *)
(* LInfo[v] = [valid, names] where tok / names identify the token sets.    *)
(***************************************************************************)
EXTENDS Naturals, Integers, Sequences, FiniteSets, TLC

VARIABLES gv, gm,      \* grammar file: version, mtime
          lv, lm,      \* lexer file
          opts,        \* builder settings (function name -> value)
          pout, lout,  \* generated parser / lexer module: [present |-> FALSE] or a record
          clock,
          last         \* outcome of the last build: [ok, regenerated]
cvars == <<gv, gm, lv, lm, opts, pout, lout, clock, last>>

Absent == [present |-> FALSE]

\* settings that end up in the parser's cache string (everything but the output path)
ParserCacheKeys == {"yacckind", "recoverer", "sformat", "eoc", "wae", "showw", "vis", "edition", "mod_name"}
LexerKeys == {"lex_vis", "lex_mod_name", "case_insensitive", "dot_matches_new_line"}
\* (lex_wae - the lexer builder's warnings_are_errors - decides success, not content)
POpts(o) == [k \in ParserCacheKeys |-> o[k]]
LOpts(o) == [k \in LexerKeys |-> o[k]]

\* Yacc's rule: the build fails iff the conflict counts differ from %expect / %expect-rr (default 0)
ExpectOK(g) == (IF g.expect < 0 THEN 0 ELSE g.expect) = g.sr /\ (IF g.expectrr < 0 THEN 0 ELSE g.expectrr) = g.rr

\* what a build into an empty directory would produce (or that it fails)
CleanParser(GInfo, v, o) ==
  LET g == GInfo[v] IN
  IF ~g.valid \/ (o["wae"] /\ g.warn) \/ (o["eoc"] /\ ~ExpectOK(g)) THEN Absent
  ELSE [present |-> TRUE, src |-> v, opts |-> POpts(o), tok |-> g.tok]

\* CTParserBuilder::build.  Returns [ok, regenerated, out]
ParserBuild(GInfo, v, mtime, o, out, now) ==
  LET g == GInfo[v] IN
  IF ~g.valid \/ (o["wae"] /\ g.warn)
  THEN [ok |-> FALSE, regenerated |-> FALSE, out |-> Absent]          \* early failure: old output deleted
  ELSE IF out.present /\ out.mtime > mtime /\ out.opts = POpts(o) /\ out.tok = g.tok
  THEN [ok |-> TRUE, regenerated |-> FALSE, out |-> out]              \* up to date
  ELSE IF o["eoc"] /\ ~ExpectOK(g)
  THEN [ok |-> FALSE, regenerated |-> FALSE, out |-> Absent]          \* deleted before generation
  ELSE [ok |-> TRUE, regenerated |-> TRUE,
        out |-> [present |-> TRUE, src |-> v, opts |-> POpts(o), tok |-> g.tok, mtime |-> now]]

Init(g0, l0, o0) ==
  /\ gv = g0 /\ gm = 1 /\ lv = l0 /\ lm = 1 /\ opts = o0
  /\ pout = Absent /\ lout = Absent /\ clock = 2 /\ last = [ok |-> TRUE, regenerated |-> FALSE, stage |-> "none"]

EditGrammar(v) == gv' = v /\ gm' = clock /\ clock' = clock + 1 /\ UNCHANGED <<lv, lm, opts, pout, lout, last>>
\* the grammar is rewritten within the same clock tick as the last write of the generated parser
\* (coarse file-system timestamps, a script that writes the grammar and builds at once, restored
\* mtimes): the output is then NOT newer than its source and has to be regenerated
EditGrammarSameTick(v) == gv' = v /\ gm' = (IF pout.present THEN pout.mtime ELSE clock) /\ clock' = clock + 1
                          /\ UNCHANGED <<lv, lm, opts, pout, lout, last>>
EditLexer(v)   == lv' = v /\ lm' = clock /\ clock' = clock + 1 /\ UNCHANGED <<gv, gm, opts, pout, lout, last>>
SetOpt(k, x)   == opts' = [opts EXCEPT ![k] = x] /\ UNCHANGED <<gv, gm, lv, lm, pout, lout, clock, last>>

BuildParser(GInfo) ==
  LET r == ParserBuild(GInfo, gv, gm, opts, pout, clock) IN
  /\ pout' = r.out /\ last' = [ok |-> r.ok, regenerated |-> r.regenerated, stage |-> "ponly"]
  /\ clock' = clock + 1 /\ UNCHANGED <<gv, gm, lv, lm, opts, lout>>

\* CTLexerBuilder::build with lrpar_config: lexer parsed first, then the parser build, then the
\* two token sets must agree (unless allowed), then the lexer module is written if it changed
BuildBoth(GInfo, LInfo) ==
  LET li == LInfo[lv] IN
  IF ~li.valid
  THEN \* the lexer specification is parsed first: the parser build is never reached (and the
       \* lexer builder does not know the parser's output path at this point)
       /\ lout' = Absent /\ last' = [ok |-> FALSE, regenerated |-> FALSE, stage |-> "lexer"]
       /\ clock' = clock + 1 /\ UNCHANGED <<gv, gm, lv, lm, opts, pout>>
  ELSE LET r == ParserBuild(GInfo, gv, gm, opts, pout, clock) IN
       /\ pout' = r.out
       /\ clock' = clock + 1 /\ UNCHANGED <<gv, gm, lv, lm, opts>>
       /\ IF ~r.ok THEN lout' = Absent /\ last' = [ok |-> FALSE, regenerated |-> FALSE, stage |-> "parser"]
          ELSE IF \/ GInfo[gv].names \ li.names # {}                       \* tokens missing from the lexer
                  \/ (li.names \ GInfo[gv].names # {} /\ opts["lex_wae"])      \* unknown lexer tokens, as errors
          THEN lout' = Absent /\ last' = [ok |-> FALSE, regenerated |-> FALSE, stage |-> "sync"]
          ELSE /\ lout' = [present |-> TRUE, src |-> lv, opts |-> LOpts(opts), tok |-> GInfo[gv].tok]
               /\ last' = [ok |-> TRUE, regenerated |-> r.regenerated, stage |-> "done"]

(***************************************************************************)
(* The property, as invariants after every step of a history               *)
(***************************************************************************)
\* the generated parser, if there is one, is what a clean build of the CURRENT sources/settings
\* would produce - or the last build failed / has not happened since the change
ParserFresh(GInfo) ==
  pout.present => (LET c == CleanParser(GInfo, pout.src, [k \in DOMAIN opts |-> IF k \in ParserCacheKeys THEN pout.opts[k] ELSE opts[k]]) IN c.present)
AfterBuildOK(GInfo) ==
  last.ok => (LET c == CleanParser(GInfo, gv, opts) IN
              /\ c.present /\ pout.present
              /\ pout.src = c.src /\ pout.opts = c.opts /\ pout.tok = c.tok)
=============================================================================
