----------------------------- MODULE TraceCTRT -----------------------------
(* Trace specification for C13 (translation validation): one `ctrt' event per (grammar/lexer
   pair, input): what the compiled, generated module produced (ct) and what the run-time pipeline
   built from the same sources produced (rt): lexemes, value or tree (whose text records, for
   every reduction, the production, $span, every $k as Ok / Err lexeme or child value, the text
   $lexer returns for the span and a literal dollar sign), and the errors with their repair sets.
   The generated code is a refinement of the run-time behaviour iff the two coincide. *)
EXTENDS Naturals, Sequences, FiniteSets, TLC, Json, IOUtils
Rec == ndJsonDeserialize(IOEnv.TRACE)
VARIABLES l, ndev
Prop == IF "PROP" \in DOMAIN IOEnv THEN IOEnv.PROP ELSE "C13"
Report(inst, S) == \A d \in S : PrintT(<<"DEV", Prop, inst, l, d[1], d[2]>>)
\* Which of several equally ranked repairs is applied is unspecified, so after an error at which
\* the two sides applied different ones their continuations may legitimately differ: errors are
\* compared up to and including the first such error, the value only if there is none.
RECURSIVE SamePrefix(_, _, _)
SamePrefix(a, b, i) ==      \* "same" | "diverged" (different first repair applied at error i) | "differ"
  IF i > Len(a) \/ i > Len(b) THEN (IF Len(a) = Len(b) THEN "same" ELSE "differ")
  ELSE IF a[i].d # b[i].d \/ a[i].set # b[i].set THEN "differ"
  ELSE IF a[i].first # b[i].first THEN "diverged"
  ELSE SamePrefix(a, b, i + 1)
Devs(e) ==
  LET cmp == SamePrefix(e.ct.errors, e.rt.errors, 1) IN
  (IF e.ct.lexemes = e.rt.lexemes THEN {} ELSE { <<"lexemes differ (compile-time lexer vs run-time lexer)", <<e.input, e.ct.lexemes, e.rt.lexemes>> >> })
  \cup (IF cmp = "differ" THEN { <<"errors / repair sets differ", <<e.input, e.ct.errors, e.rt.errors>> >> } ELSE {})
  \cup (IF cmp = "same" /\ e.ct.value # e.rt.value THEN { <<"value / tree differs (generated actions vs run-time)", <<e.input, e.ct.value, e.rt.value>> >> } ELSE {})
Init == l = 1 /\ ndev = 0
Next == /\ l <= Len(Rec) /\ l' = l + 1
        /\ LET e == Rec[l]  ds == Devs(e) IN Report(e.id, ds) /\ ndev' = ndev + Cardinality(ds)
Spec == Init /\ [][Next]_<<l, ndev>>
Consumed == (l = Len(Rec) + 1) => PrintT(<<"DONE", Len(Rec), ndev>>)
=============================================================================
