SPECIFICATION Spec
CONSTANTS
  Threads = {1, 2, 3}
INVARIANT NoUseBeforePublish
INVARIANT OneInit
PROPERTY AllFinish
CHECK_DEADLOCK FALSE
