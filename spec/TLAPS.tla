------------------------------- MODULE TLAPS --------------------------------

(* Backend pragmas. *)


(***************************************************************************)
(* Each of these pragmas can be cited with a BY or a USE.  The pragma that *)
(* is added to the context of an obligation most recently is the one whose *)
(* effects are triggered.                                                  *)
(***************************************************************************)

(***************************************************************************)
(* The following pragmas should be used only as a last resource.  They are *)
(* dependent upon the particular backend provers, and are unlikely to have *)
(* any effect if the set of backend provers changes.  Moreover, they are   *)
(* meaningless to a reader of the proof.                                   *)
(***************************************************************************)


(**************************************************************************)
(* Backend pragma: use the SMT solver for arithmetic.                     *)
(*                                                                        *)
(* This method exists under this name for historical reasons.             *)
(**************************************************************************)

SimpleArithmetic == TRUE (*{ by (prover:"smt3") }*)


(**************************************************************************)
(* Backend pragma: SMT solver                                             *)
(*                                                                        *)
(* This method translates the proof obligation to SMTLIB2. The supported  *)
(* fragment includes first-order logic, set theory, functions and         *)
(* records.                                                               *)
(* SMT calls the smt-solver with the default timeout of 5 seconds         *)
(* while SMTT(n) calls the smt-solver with a timeout of n seconds.        *)
(*                                                                        *)
(* SMTT also accepts a string argument of the form "rN" to bound the      *)
(* underlying Z3 solver by a deterministic `rlimit` budget instead of a    *)
(* wall-clock timeout, e.g. SMTT("r5"). N is a multiple of a fixed base    *)
(* resource count, so a small readable budget like "r5" is meaningful.     *)
(* Unlike a wall-clock timeout, an `rlimit` budget does not depend on CPU  *)
(* speed or load, so the proof's pass/fail outcome reproduces on any       *)
(* machine and every rerun (for a fixed Z3 build); how long it takes to    *)
(* consume the budget still varies by machine. This is Z3-specific.        *)
(**************************************************************************)

SMT == TRUE (*{ by (prover:"smt3") }*)
SMTT(X) == TRUE (*{ by (prover:"smt3"; timeout:@) }*)


(**************************************************************************)
(* Backend pragma: CVC4 SMT solver                                        *)
(*                                                                        *)
(* These methods translate the proof obligation to SMTLIB2 and call CVC4. *)
(**************************************************************************)

(* The CVC3* methods are here for backward compatibility. They call CVC4. *)
CVC3 == TRUE (*{ by (prover: "cvc33") }*)
CVC3T(X) == TRUE (*{ by (prover:"cvc33"; timeout:@) }*)

CVC4 == TRUE (*{ by (prover: "cvc33") }*)
CVC4T(X) == TRUE (*{ by (prover:"cvc33"; timeout:@) }*)


(**************************************************************************)
(* Backend pragma: Yices SMT solver                                       *)
(*                                                                        *)
(* This method translates the proof obligation to Yices native language.  *)
(**************************************************************************)

Yices == TRUE (*{ by (prover: "yices3") }*)
YicesT(X) == TRUE (*{ by (prover:"yices3"; timeout:@) }*)

(**************************************************************************)
(* Backend pragma: veriT SMT solver                                       *)
(*                                                                        *)
(* This method translates the proof obligation to SMTLIB2 and calls veriT.*)
(**************************************************************************)

veriT == TRUE (*{ by (prover: "verit") }*)
veriTT(X) == TRUE (*{ by (prover:"verit"; timeout:@) }*)

(**************************************************************************)
(* Backend pragma: Zipperposition solver                                  *)
(*                                                                        *)
(* This method translates the proof obligation to TPTP and                *)
(* calls Zipperposition.                                                  *)
(**************************************************************************)

Zipper == TRUE (*{ by (prover: "zipper") }*)
ZipperT(X) == TRUE (*{ by (prover:"zipper"; timeout:@) }*)

(**************************************************************************)
(* Backend pragma: Z3 SMT solver                                          *)
(*                                                                        *)
(* This method translates the proof obligation to SMTLIB2 and calls Z3.   *)
(* Z3 is used by default but you can also explicitly call it.             *)
(* Z3T(n) bounds Z3 by a wall-clock timeout of n seconds, while Z3T("rN")  *)
(* bounds it by a deterministic `rlimit` budget of N base units, which      *)
(* reproduces the same outcome on any machine (see SMTT).                   *)
(**************************************************************************)

Z3 == TRUE (*{ by (prover: "z33") }*)
Z3T(X) == TRUE (*{ by (prover:"z33"; timeout:@) }*)

(**************************************************************************)
(* Backend pragma: SPASS superposition prover                             *)
(*                                                                        *)
(* This method translates the proof obligation to the DFG format language *)
(* supported by the ATP SPASS. The translation is based on the SMT one.   *)
(**************************************************************************)

Spass == TRUE (*{ by (prover: "spass") }*)
SpassT(X) == TRUE (*{ by (prover:"spass"; timeout:@) }*)

(**************************************************************************)
(* Backend pragma: The PTL propositional linear time temporal logic       *)
(* prover.  It currently is the LS4 backend.                              *)
(*                                                                        *)
(* This method translates the negetation of the proof obligation to       *)
(* Seperated Normal Form (TRP++ format) and checks for unsatisfiability   *)
(**************************************************************************)

LS4 == TRUE (*{ by (prover: "ls4") }*)
LS4T(X) == TRUE (*{ by (prover: "ls4"; timeout:@) }*)
PTL == TRUE (*{ by (prover: "ls4") }*)

(**************************************************************************)
(* Backend pragma: Zenon with different timeouts (default is 10 seconds)  *)
(*                                                                        *)
(**************************************************************************)

Zenon == TRUE (*{ by (prover:"zenon") }*)
ZenonT(X) == TRUE (*{ by (prover:"zenon"; timeout:@) }*)

(********************************************************************)
(* Backend pragma: Isabelle with different timeouts and tactics     *)
(*  (default is 30 seconds/auto)                                    *)
(********************************************************************)

Isa == TRUE (*{ by (prover:"isabelle") }*)
IsaT(X) ==  TRUE (*{ by (prover:"isabelle"; timeout:@) }*)
IsaM(X) ==  TRUE (*{ by (prover:"isabelle"; tactic:@) }*)
IsaMT(X,Y) ==  TRUE (*{ by (prover:"isabelle"; tactic:@; timeout:@) }*)

(***************************************************************************)
(* The following theorem expresses the (useful implication of the) law of  *)
(* set extensionality, which can be written as                             *)
(*                                                                         *)
(*    THEOREM  \A S, T : (S = T) <=> (\A x : (x \in S) <=> (x \in T))      *)
(*                                                                         *)
(* Theorem SetExtensionality is sometimes required by the SMT backend for  *)
(* reasoning about sets. It is usually counterproductive to include        *)
(* theorem SetExtensionality in a BY clause for the Zenon or Isabelle      *)
(* backends. Instead, use the pragma IsaWithSetExtensionality to instruct  *)
(* the Isabelle backend to use the rule of set extensionality.             *)
(***************************************************************************)
IsaWithSetExtensionality == TRUE
           (*{ by (prover:"isabelle"; tactic:"(auto intro: setEqualI)")}*)

THEOREM SetExtensionality == \A S,T : (\A x : x \in S <=> x \in T) => S = T
OBVIOUS

(***************************************************************************)
(* The following theorem is needed to deduce NotInSetS \notin SetS from    *)
(* the definition                                                          *)
(*                                                                         *)
(*   NotInSetS == CHOOSE v : v \notin SetS                                 *)
(***************************************************************************)
THEOREM NoSetContainsEverything == \A S : \E x : x \notin S
OBVIOUS (*{by (isabelle "(auto intro: inIrrefl)")}*)
-----------------------------------------------------------------------------



(********************************************************************)
(********************************************************************)
(********************************************************************)


(********************************************************************)
(* Old versions of Zenon and Isabelle pragmas below                 *)
(* (kept for compatibility)                                         *)
(********************************************************************)


(**************************************************************************)
(* Backend pragma: Zenon with different timeouts (default is 10 seconds)  *)
(*                                                                        *)
(**************************************************************************)

SlowZenon == TRUE (*{ by (prover:"zenon"; timeout:20) }*)
SlowerZenon == TRUE (*{ by (prover:"zenon"; timeout:40) }*)
VerySlowZenon == TRUE (*{ by (prover:"zenon"; timeout:80) }*)
SlowestZenon == TRUE (*{ by (prover:"zenon"; timeout:160) }*)



(********************************************************************)
(* Backend pragma: Isabelle's automatic search ("auto")             *)
(*                                                                  *)
(* This pragma bypasses Zenon. It is useful in situations involving *)
(* essentially simplification and equational reasoning.             *)
(* Default imeout for all isabelle tactics is 30 seconds.           *)
(********************************************************************)
Auto == TRUE (*{ by (prover:"isabelle"; tactic:"auto") }*)
SlowAuto == TRUE (*{ by (prover:"isabelle"; tactic:"auto"; timeout:120) }*)
SlowerAuto == TRUE (*{ by (prover:"isabelle"; tactic:"auto"; timeout:480) }*)
SlowestAuto == TRUE (*{ by (prover:"isabelle"; tactic:"auto"; timeout:960) }*)

(********************************************************************)
(* Backend pragma: Isabelle's "force" tactic                        *)
(*                                                                  *)
(* This pragma bypasses Zenon. It is useful in situations involving *)
(* quantifier reasoning.                                            *)
(********************************************************************)
Force == TRUE (*{ by (prover:"isabelle"; tactic:"force") }*)
SlowForce == TRUE (*{ by (prover:"isabelle"; tactic:"force"; timeout:120) }*)
SlowerForce == TRUE (*{ by (prover:"isabelle"; tactic:"force"; timeout:480) }*)
SlowestForce == TRUE (*{ by (prover:"isabelle"; tactic:"force"; timeout:960) }*)

(***********************************************************************)
(* Backend pragma: Isabelle's "simplification" tactics                 *)
(*                                                                     *)
(* These tactics simplify the goal before running one of the automated *)
(* tactics. They are often necessary for obligations involving record  *)
(* or tuple projections. Use the SimplfyAndSolve tactic unless you're  *)
(* sure you can get away with just Simplification                      *)
(***********************************************************************)
SimplifyAndSolve        == TRUE
    (*{ by (prover:"isabelle"; tactic:"clarsimp auto?") }*)
SlowSimplifyAndSolve    == TRUE
    (*{ by (prover:"isabelle"; tactic:"clarsimp auto?"; timeout:120) }*)
SlowerSimplifyAndSolve  == TRUE
    (*{ by (prover:"isabelle"; tactic:"clarsimp auto?"; timeout:480) }*)
SlowestSimplifyAndSolve == TRUE
    (*{ by (prover:"isabelle"; tactic:"clarsimp auto?"; timeout:960) }*)

Simplification == TRUE (*{ by (prover:"isabelle"; tactic:"clarsimp") }*)
SlowSimplification == TRUE
    (*{ by (prover:"isabelle"; tactic:"clarsimp"; timeout:120) }*)
SlowerSimplification  == TRUE
    (*{ by (prover:"isabelle"; tactic:"clarsimp"; timeout:480) }*)
SlowestSimplification == TRUE
    (*{ by (prover:"isabelle"; tactic:"clarsimp"; timeout:960) }*)

(**************************************************************************)
(* Backend pragma: Isabelle's tableau prover ("blast")                    *)
(*                                                                        *)
(* This pragma bypasses Zenon and uses Isabelle's built-in theorem        *)
(* prover, Blast. It is almost never better than Zenon by itself, but     *)
(* becomes very useful in combination with the Auto pragma above. The     *)
(* AutoBlast pragma first attempts Auto and then uses Blast to prove what *)
(* Auto could not prove. (There is currently no way to use Zenon on the   *)
(* results left over from Auto.)                                          *)
(**************************************************************************)
Blast == TRUE (*{ by (prover:"isabelle"; tactic:"blast") }*)
SlowBlast == TRUE (*{ by (prover:"isabelle"; tactic:"blast"; timeout:120) }*)
SlowerBlast == TRUE (*{ by (prover:"isabelle"; tactic:"blast"; timeout:480) }*)
SlowestBlast == TRUE (*{ by (prover:"isabelle"; tactic:"blast"; timeout:960) }*)

AutoBlast == TRUE (*{ by (prover:"isabelle"; tactic:"auto, blast") }*)


(**************************************************************************)
(* Backend pragmas: multi-back-ends                                       *)
(*                                                                        *)
(* These pragmas just run a bunch of back-ends one after the other in the *)
(* hope that one will succeed. This saves time and effort for the user at *)
(* the expense of computation time.                                       *)
(**************************************************************************)

(* CVC3 goes first because it's bundled with TLAPS, then the other SMT
   solvers are unlikely to succeed if CVC3 fails, so we run zenon and
   Isabelle before them. *)
AllProvers == TRUE (*{
    by (prover:"cvc33")
    by (prover:"zenon")
    by (prover:"isabelle"; tactic:"auto")
    by (prover:"spass")
    by (prover:"smt3")
    by (prover:"yices3")
    by (prover:"verit")
    by (prover:"z33")
    by (prover:"isabelle"; tactic:"force")
    by (prover:"isabelle"; tactic:"(auto intro: setEqualI)")
    by (prover:"isabelle"; tactic:"clarsimp auto?")
    by (prover:"isabelle"; tactic:"clarsimp")
    by (prover:"isabelle"; tactic:"auto, blast")
  }*)
AllProversT(X) == TRUE (*{
    by (prover:"cvc33"; timeout:@)
    by (prover:"zenon"; timeout:@)
    by (prover:"isabelle"; tactic:"auto"; timeout:@)
    by (prover:"spass"; timeout:@)
    by (prover:"smt3"; timeout:@)
    by (prover:"yices3"; timeout:@)
    by (prover:"verit"; timeout:@)
    by (prover:"z33"; timeout:@)
    by (prover:"isabelle"; tactic:"force"; timeout:@)
    by (prover:"isabelle"; tactic:"(auto intro: setEqualI)"; timeout:@)
    by (prover:"isabelle"; tactic:"clarsimp auto?"; timeout:@)
    by (prover:"isabelle"; tactic:"clarsimp"; timeout:@)
    by (prover:"isabelle"; tactic:"auto, blast"; timeout:@)
  }*)

AllSMT == TRUE (*{
    by (prover:"cvc33")
    by (prover:"smt3")
    by (prover:"yices3")
    by (prover:"verit")
    by (prover:"z33")
  }*)
AllSMTT(X) == TRUE (*{
    by (prover:"cvc33"; timeout:@)
    by (prover:"smt3"; timeout:@)
    by (prover:"yices3"; timeout:@)
    by (prover:"verit"; timeout:@)
    by (prover:"z33"; timeout:@)
  }*)

AllIsa == TRUE (*{
    by (prover:"isabelle"; tactic:"auto")
    by (prover:"isabelle"; tactic:"force")
    by (prover:"isabelle"; tactic:"(auto intro: setEqualI)")
    by (prover:"isabelle"; tactic:"clarsimp auto?")
    by (prover:"isabelle"; tactic:"clarsimp")
    by (prover:"isabelle"; tactic:"auto, blast")
  }*)
AllIsaT(X) == TRUE (*{
    by (prover:"isabelle"; tactic:"auto"; timeout:@)
    by (prover:"isabelle"; tactic:"force"; timeout:@)
    by (prover:"isabelle"; tactic:"(auto intro: setEqualI)"; timeout:@)
    by (prover:"isabelle"; tactic:"clarsimp auto?"; timeout:@)
    by (prover:"isabelle"; tactic:"clarsimp"; timeout:@)
    by (prover:"isabelle"; tactic:"auto, blast"; timeout:@)
  }*)


(**************************************************************************)
(* The pragma ExpandEnabled invokes expansion of the operator ENABLED.    *)
(*                                                                        *)
(* The pragma ExpandCdot invokes expansion of the operator \cdot.         *)
(*                                                                        *)
(* The pragma AutoUSE invokes automated expansion of definitions,         *)
(* for both of ExpandEnabled and ExpandCdot, when each is present.        *)
(*                                                                        *)
(* The pragma Lambdify invokes expansion of the operators                 *)
(* ENABLED and \cdot to an intermediate form with bound VARIABLES,        *)
(* which is a form before introducing rigid quantifiers.                  *)
(* The pragma Lambdify is sound for occurrences of ENABLED and \cdot      *)
(* that are not nested.                                                   *)
(**************************************************************************)
ExpandENABLED == TRUE  (*{ by (prover:"expandenabled") }*)
ExpandCdot == TRUE  (*{ by (prover:"expandcdot") }*)
AutoUSE == TRUE  (*{ by (prover:"autouse") }*)
Lambdify == TRUE  (*{ by (prover:"lambdify") }*)
ENABLEDaxioms == TRUE  (*{ by (prover:"enabledaxioms") }*)
LevelComparison == TRUE  (*{ by (prover:"levelcomparison") }*)

(* The operators EnabledWrapper and CdotWrapper occur in an intermediate  *)
(* representation within TLAPM.                                           *)
EnabledWrapper(Op(_)) == FALSE
CdotWrapper(Op(_)) == FALSE

(***************************************************************************)
(* The following may be used in a `BY ONLY ThmName` for unit testing the   *)
(* triviality checks in TLAPM.                                             *)
(***************************************************************************)
Trivial == TRUE  (*{ by (prover:"trivial") }*)


=============================================================================

The material below is obsolete: the TLA proof rules below are superseded by
the PTL decision procedure, and their formulation is unsound for the semantics
of temporal reasoning that TLAPS adopts.

----------------------------------------------------------------------------
(***************************************************************************)
(*                           TEMPORAL LOGIC                                *)
(*                                                                         *)
(* The following rules are intended to be used when TLAPS handles temporal *)
(* logic.  They will not work now.  Moreover when temporal reasoning is    *)
(* implemented, these rules may be changed or omitted, and additional      *)
(* rules will probably be added.  However, they are included mainly so     *)
(* their names will be defined, preventing the use of identifiers that are *)
(* likely to produce name clashes with future versions of this module.     *)
(***************************************************************************)


(***************************************************************************)
(* The following proof rules (and their names) are from the paper "The     *)
(* Temporal Logic of Actions".                                             *)
(***************************************************************************)
THEOREM RuleTLA1 == ASSUME STATE P, STATE f,
                           P /\ (f' = f) => P'
                    PROVE  []P <=> P /\ [][P => P']_f

THEOREM RuleTLA2 == ASSUME STATE P, STATE Q, STATE f, STATE g,
                           ACTION A, ACTION B,
                           P /\ [A]_f => Q /\ [B]_g
                    PROVE  []P /\ [][A]_f => []Q /\ [][B]_g

THEOREM RuleINV1 == ASSUME STATE I, STATE F,  ACTION N,
                           I /\ [N]_F => I'
                    PROVE  I /\ [][N]_F => []I

THEOREM RuleINV2 == ASSUME STATE I, STATE f, ACTION N
                    PROVE  []I => ([][N]_f <=> [][N /\ I /\ I']_f)

THEOREM RuleWF1 == ASSUME STATE P, STATE Q, STATE f, ACTION N, ACTION A,
                          P /\ [N]_f => (P' \/ Q'),
                          P /\ <<N /\ A>>_f => Q',
                          P => ENABLED <<A>>_f
                   PROVE  [][N]_f /\ WF_f(A) => (P ~> Q)

THEOREM RuleSF1 == ASSUME STATE P, STATE Q, STATE f,
                          ACTION N, ACTION A, TEMPORAL F,
                          P /\ [N]_f => (P' \/ Q'),
                          P /\ <<N /\ A>>_f => Q',
                          []P /\ [][N]_f /\ []F => <> ENABLED <<A>>_f
                   PROVE  [][N]_f /\ SF_f(A) /\ []F => (P ~> Q)

(***************************************************************************)
(* The rules WF2 and SF2 in "The Temporal Logic of Actions" are obtained   *)
(* from the following two rules by the following substitutions: `.         *)
(*                                                                         *)
(*          ___        ___         _______________                         *)
(*      M <- M ,   g <- g ,  EM <- ENABLED <<M>>_g       .'                *)
(***************************************************************************)
THEOREM RuleWF2 == ASSUME STATE P, STATE f, STATE g, STATE EM,
                          ACTION A, ACTION B, ACTION N, ACTION M,
                          TEMPORAL F,
                          <<N /\ B>>_f => <<M>>_g,
                          P /\ P' /\ <<N /\ A>>_f /\ EM => B,
                          P /\ EM => ENABLED A,
                          [][N /\ ~B]_f /\ WF_f(A) /\ []F /\ <>[]EM => <>[]P
                   PROVE  [][N]_f /\ WF_f(A) /\ []F => []<><<M>>_g \/ []<>(~EM)

THEOREM RuleSF2 == ASSUME STATE P, STATE f, STATE g, STATE EM,
                          ACTION A, ACTION B, ACTION N, ACTION M,
                          TEMPORAL F,
                          <<N /\ B>>_f => <<M>>_g,
                          P /\ P' /\ <<N /\ A>>_f /\ EM => B,
                          P /\ EM => ENABLED A,
                          [][N /\ ~B]_f /\ SF_f(A) /\ []F /\ []<>EM => <>[]P
                   PROVE  [][N]_f /\ SF_f(A) /\ []F => []<><<M>>_g \/ <>[](~EM)


(***************************************************************************)
(* The following rule is a special case of the general temporal logic      *)
(* proof rule STL4 from the paper "The Temporal Logic of Actions".  The    *)
(* general rule is for arbitrary temporal formulas F and G, but it cannot  *)
(* yet be handled by TLAPS.                                                *)
(***************************************************************************)
THEOREM RuleInvImplication ==
  ASSUME STATE F, STATE G,
         F => G
  PROVE  []F => []G
PROOF OMITTED

(***************************************************************************)
(* The following rule is a special case of rule TLA2 from the paper "The   *)
(* Temporal Logic of Actions".                                             *)
(***************************************************************************)
THEOREM RuleStepSimulation ==
  ASSUME STATE I, STATE f, STATE g,
         ACTION M, ACTION N,
         I /\ I' /\ [M]_f => [N]_g
  PROVE  []I /\ [][M]_f => [][N]_g
PROOF OMITTED

(***************************************************************************)
(* The following may be used to invoke a decision procedure for            *)
(* propositional temporal logic.                                           *)
(***************************************************************************)
PropositionalTemporalLogic == TRUE
=============================================================================
