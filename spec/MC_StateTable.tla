--------------------------- MODULE MC_StateTable ---------------------------
(* The algorithm layer of StateTable.tla (how statetable.rs fills a cell: the reductions of the
   state's items in hash order, one at a time, then the shift edge) against its meaning layer
   (YaccCell): for every grammar of IOEnv.GRAMMARS, every state of its canonical automaton, every
   token and EVERY ORDER of the candidate reductions, the cell ends with the action Yacc's rules
   prescribe, an accept/reduce clash is detected whatever the order, exactly |candidates| - 1
   reduce/reduce conflicts are recorded and each involves the winner or an earlier winner, and a
   shift/reduce conflict is recorded iff it was resolved by default (no precedence).
   IOEnv.VARIANT = "lastwins" replaces the reduce/reduce rule by "the candidate met last wins" (an
   order-dependent table, what the HashMap iteration would give without the comparison of
   production indices): it must be refuted. *)
EXTENDS CanonTable, Json, IOUtils
Gs == ndJsonDeserialize(IOEnv.GRAMMARS)
Variant == IF "VARIANT" \in DOMAIN IOEnv THEN IOEnv.VARIANT ELSE "code"
AddReduceV(cell, p, t) ==
  IF Variant = "lastwins" /\ cell.act[1] = "r" /\ ~(p = StartProd /\ t = EOF) /\ p # cell.act[2]
  THEN [cell EXCEPT !.act = <<"r", p>>, !.rr = @ \cup {<<p, cell.act[2]>>}, !.sa = TRUE]
  ELSE AddReduce(cell, p, t)
VARIABLES gi
mvars == <<C, pvars, gi>>
Init == /\ gi \in 1 .. Len(Gs) /\ C = MkCtx(Gs[gi])
        /\ core = <<>> /\ closed = <<>> /\ isc = <<>> /\ edges = <<>> /\ cnd = <<>> /\ todo_off = 0 /\ pending = {} /\ cur = 0
Next == UNCHANGED mvars
Spec == Init /\ [][Next]_mvars

Perms(S) == {f \in [1 .. Cardinality(S) -> S] : \A i, j \in 1 .. Cardinality(S) : i # j => f[i] # f[j]}
RECURSIVE FoldReds(_, _, _, _)
FoldReds(cell, f, i, t) == IF i > Len(f) THEN cell ELSE FoldReds(AddReduceV(cell, f[i], t), f, i + 1, t)
CellOK(a, s, t) ==
  LET reds == CellReds(a, s, t)
      spec == YaccCell(a, s, t)
  IN \A f \in Perms(reds) :
       LET c1 == FoldReds(EmptyCell, f, 1, t)
           c2 == IF IsToken(t) /\ HasEdge(a, s, t) /\ ~c1.err THEN AddShift(c1, t, EdgeTo(a, s, t)) ELSE c1
       IN /\ c1.err = spec.arconf
          /\ ~c1.err => /\ c2.act = spec.act
                        /\ Cardinality(c2.rr) = (IF reds = {} THEN 0 ELSE Cardinality(reds) - 1)
                        /\ {pr[2] : pr \in c2.rr} = spec.rrloser
                        /\ c2.sr = spec.sr
Inv == LET a == CanonAuto IN \A s \in 0 .. a.n - 1 : \A t \in Tokens : CellOK(a, s, t)
=============================================================================
