SPECIFICATION Spec
CONSTANTS
  ParseAtLeast = 3
  TryParseAtMost = 250
INVARIANT Consumed
CHECK_DEADLOCK FALSE
