----------------------------- MODULE TraceYSrc -----------------------------
(* Trace specification for C10 (and, for the outcome contract, C12): one `ydoc' event per parsed
   .y source: the abstract document it was rendered from and what every accessor of the
   resulting grammar returned. *)
EXTENDS YaccSrc, Totality, Json, IOUtils
Rec == ndJsonDeserialize(IOEnv.TRACE)
VARIABLES l, ndev
Prop == IF "PROP" \in DOMAIN IOEnv THEN IOEnv.PROP ELSE "C10"
Report(inst, S) == \A d \in S : PrintT(<<"DEV", Prop, inst, l, d[1], d[2]>>)
Devs(e) ==
  IF Prop = "C12" THEN TotalityDevs(e.res, e.len, e.bounds)
  ELSE IF e.res.class = "panic" THEN { <<"parsing the grammar panicked", e.res.msg>> }
  ELSE IF e.res.class = "err" THEN { <<"valid source rejected", e.res.errors>> }
  ELSE YDevs(e.doc, e.res.obs)
       \* a text that names its own kind in a %grmtools section can be read through from_str as well:
       \* every public entry point must make the same grammar of the same text
       \cup (IF "entries_agree" \in DOMAIN e.res /\ ~e.res.entries_agree
             THEN { <<"the public entry points (from_str / new) make different grammars of the same text", 0>> } ELSE {})
Init == l = 1 /\ ndev = 0
Next == /\ l <= Len(Rec) /\ l' = l + 1
        /\ LET e == Rec[l]  ds == Devs(e) IN Report(e.id, ds) /\ ndev' = ndev + Cardinality(ds)
Spec == Init /\ [][Next]_<<l, ndev>>
Consumed == (l = Len(Rec) + 1) => PrintT(<<"DONE", Len(Rec), ndev>>)
=============================================================================
