------------------------------ MODULE WidthApa ------------------------------
(* Unbounded version of MC_Width for Apalache: for ALL natural counts and the three storage
   widths, the guards as repaired imply that nothing stored has wrapped (C20's arithmetic core).
   Checked as `Init => Inv' (length 0); TLC checks the same statement in windows around 2^8 and
   2^16 (MC_Width.tla). *)
EXTENDS Integers

VARIABLES
  \* @type: Int;
  rules,
  \* @type: Int;
  tokens,
  \* @type: Int;
  prods,
  \* @type: Int;
  maxsyms,
  \* @type: Bool;
  eco,
  \* @type: Int;
  implicit,
  \* @type: Int;
  toksyms,
  \* @type: Int;
  pregc,
  \* @type: Int;
  states,
  \* @type: Int;
  w

\* @type: (Int) => Int;
MaxOf(wd) == IF wd = 8 THEN 255 ELSE IF wd = 16 THEN 65535 ELSE 4294967295
\* @type: (Int, Int) => Int;
Wrap(x, wd) == x % (MaxOf(wd) + 1)

StoredRules  == rules + 1 + (IF eco THEN 2 ELSE 0)
StoredTokens == tokens + 1
StoredProds  == prods + 1 + (IF eco THEN implicit + 2 ELSE 0)
StoredSyms   == IF eco THEN (LET m == maxsyms + toksyms IN IF m < 2 THEN 2 ELSE m)
                ELSE (IF maxsyms < 1 THEN 1 ELSE maxsyms)
GrammarRefused == \/ StoredRules > MaxOf(w) \/ StoredTokens > MaxOf(w)
                  \/ StoredProds > MaxOf(w) \/ StoredSyms > MaxOf(w)
GraphRefused == pregc > MaxOf(w) \/ states > MaxOf(w) \/ ~(states < MaxOf(w)) \/ ~(states < MaxOf(w) - 1)
Refused == GrammarRefused \/ GraphRefused
NoWrap ==
  /\ Wrap(StoredRules, w) = StoredRules
  /\ Wrap(StoredTokens, w) = StoredTokens
  /\ Wrap(StoredProds, w) = StoredProds
  /\ Wrap(StoredSyms, w) = StoredSyms
  /\ Wrap(states, w) = states
  /\ Wrap(states + 1, w) = states + 1

Init == /\ rules \in Nat /\ tokens \in Nat /\ prods \in Nat /\ maxsyms \in Nat /\ eco \in BOOLEAN
        /\ implicit \in Nat /\ toksyms \in Nat /\ pregc \in Nat /\ states \in Nat /\ w \in {8, 16, 32}
Next == UNCHANGED <<rules, tokens, prods, maxsyms, eco, implicit, toksyms, pregc, states, w>>
Inv == Refused \/ NoWrap
\* the guards before the repair (source-level counts): must be refuted
GrammarRefusedOld == \/ rules > MaxOf(w) \/ tokens > MaxOf(w) \/ prods > MaxOf(w) \/ maxsyms > MaxOf(w)
InvOld == (GrammarRefusedOld \/ GraphRefused) \/ NoWrap
=============================================================================
