----------------------------- MODULE TraceLSrc -----------------------------
(* Trace specification for C11: lexreset (with the document) / lexdef / lexrun events.  The
   definition must be LexerDefOf(doc); the runs - lexed with the regex environment computed under
   the flags the document says are in force - must be the runs of Lexer.tla. *)
EXTENDS Lexer, LexSrc, Totality, Json, IOUtils
Rec == ndJsonDeserialize(IOEnv.TRACE)
VARIABLES l, inst, ndev, Dv, Doc
tvars == <<l, inst, ndev, Dv, Doc, lvars>>
Prop == IF "PROP" \in DOMAIN IOEnv THEN IOEnv.PROP ELSE "C11"
Report(S) == \A d \in S : PrintT(<<"DEV", Prop, inst, l, d[1], d[2]>>)
DefOf(e) == [rules |-> [i \in 1 .. Len(e.rules) |->
                          [named |-> e.rules[i].named, tok |-> e.rules[i].tok, states |-> ToSet(e.rules[i].states),
                           op |-> e.rules[i].op, tgt |-> e.rules[i].tgt]],
             excl |-> [sid \in {e.states[i].id : i \in 1 .. Len(e.states)} |->
                          (CHOOSE i \in 1 .. Len(e.states) : e.states[i].id = sid) \in {j \in 1 .. Len(e.states) : e.states[j].excl}]]
RunDevs(e) ==
  IF "panic" \in DOMAIN e.run THEN { <<"lexer panicked", e.run.panic>> }
  ELSE
  LET M == [o \in ToSet(e.bounds) |-> e.m[CHOOSE i \in 1 .. Len(e.bounds) : e.bounds[i] = o]]
      r == RunLex(Dv, M, e.len, 0, << <<1, 0>> >>, <<>>)
      got == [i \in 1 .. Len(e.run.lexemes) |-> <<e.run.lexemes[i][1], e.run.lexemes[i][2], e.run.lexemes[i][3]>>]
  IN IF got = r.out /\ (IF r.err = -1 THEN e.run.errs = <<>> ELSE e.run.errs = << <<r.err, r.err>> >>) THEN {}
     ELSE { <<"flags in force: lexing differs from the regular expressions under the document's flags", <<e.input, got, r.out>> >> }
Init == l = 1 /\ inst = "" /\ ndev = 0 /\ Dv = [rules |-> <<>>] /\ Doc = [rules |-> <<>>] /\ LexInit
Next ==
  /\ l <= Len(Rec) /\ l' = l + 1 /\ UNCHANGED lvars
  /\ LET e == Rec[l] IN
     CASE e.ev = "lexreset" -> inst' = e.id /\ Doc' = e.doc /\ Dv' = [rules |-> <<>>] /\ UNCHANGED ndev
       [] e.ev = "lexdef" -> /\ Dv' = DefOf(e)
                             /\ LET ds == IF Prop = "C11" THEN LDevs(Doc, e) ELSE {} IN Report(ds) /\ ndev' = ndev + Cardinality(ds)
                             /\ UNCHANGED <<inst, Doc>>
       [] e.ev = "lexrun" -> /\ LET ds == IF Prop = "C11" THEN RunDevs(e) ELSE {} IN Report(ds) /\ ndev' = ndev + Cardinality(ds)
                             /\ UNCHANGED <<inst, Dv, Doc>>
       [] e.ev = "lexdef_err" ->
            /\ LET ds == IF Prop = "C11" THEN { <<"valid specification rejected", e.errors>> }
                         ELSE TotalityDevs([class |-> "err", errors |-> e.errors], e.len, e.bounds) IN
               Report(ds) /\ ndev' = ndev + Cardinality(ds)
            /\ UNCHANGED <<inst, Dv, Doc>>
       [] e.ev = "lexdef_panic" -> /\ Report({ <<"lexer definition parser panicked", e.msg>> }) /\ ndev' = ndev + 1
                                   /\ UNCHANGED <<inst, Dv, Doc>>
       [] OTHER -> UNCHANGED <<inst, ndev, Dv, Doc>>
Spec == Init /\ [][Next]_tvars
Consumed == (l = Len(Rec) + 1) => PrintT(<<"DONE", Len(Rec), ndev>>)
=============================================================================
