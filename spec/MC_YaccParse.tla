---------------------------- MODULE MC_YaccParse ----------------------------
(* Bounded model of the .y parser: every text that is a concatenation of up to MaxChunks lexical
   chunks (keywords, names, quoted tokens, punctuation, blanks, comment delimiters, a two-byte
   character), for the three yacc kinds: the transcribed parser terminates, every span of the AST
   and of the errors lies within the text on character boundaries, start <= end, and the
   validation yields a result. *)
EXTENDS YaccParse
CONSTANTS MaxChunks
VARIABLES text, kind
Chunks == { <<37, 37>>,
            <<37, 116, 111, 107, 101, 110, 32>>,
            <<37, 115, 116, 97, 114, 116, 32>>,
            <<37, 108, 101, 102, 116, 32>>,
            <<37, 101, 112, 112, 32>>,
            <<37, 101, 120, 112, 101, 99, 116, 32>>,
            <<37, 97, 118, 111, 105, 100, 95, 105, 110, 115, 101, 114, 116, 32>>,
            <<37, 112, 114, 101, 99, 32>>,
            <<37, 101, 109, 112, 116, 121>>,
            <<37, 97, 99, 116, 105, 111, 110, 116, 121, 112, 101, 32>>,
            <<83>>,
            <<97>>,
            <<39, 97, 39>>,
            <<34, 98, 34>>,
            <<58>>,
            <<59>>,
            <<124>>,
            <<123>>,
            <<125>>,
            <<32>>,
            <<10>>,
            <<47, 42>>,
            <<42, 47>>,
            <<47, 47>>,
            <<45, 62>>,
            <<49>>,
            <<233>>,
            <<39>> }
RECURSIVE Cat(_)
Cat(cs) == IF cs = <<>> THEN <<>> ELSE Head(cs) \o Cat(Tail(cs))
Init == /\ kind \in {"original", "grmtools", "eco"}
        /\ \E n \in 0 .. MaxChunks : \E cs \in [1 .. n -> Chunks] : text = Cat(cs)
Next == UNCHANGED <<text, kind>>
Spec == Init /\ [][Next]_<<text, kind>>
Bounds == {B(text, k) : k \in 0 .. Len(text)}
SpanOK(s) == s[1] <= s[2] /\ s[1] \in Bounds /\ s[2] \in Bounds
Inv ==
  LET m == Parse(text, kind, 0) IN
  /\ \A n \in 1 .. Len(m.errs) : m.errs[n].kind # "LOOP" /\ \A j \in 1 .. Len(m.errs[n].spans) : SpanOK(m.errs[n].spans[j])
  /\ \A n \in 1 .. Len(m.a.tspans) : SpanOK(m.a.tspans[n])
  /\ \A n \in 1 .. Len(m.a.rules) : SpanOK(m.a.rules[n].span)
  /\ \A n \in 1 .. Len(m.a.prods) : /\ SpanOK(m.a.prods[n].span)
                                     /\ \A j \in 1 .. Len(m.a.prods[n].syms) : SpanOK(m.a.prods[n].syms[j].span)
  /\ Validate(m.a) # {}
=============================================================================
