--------------------------- MODULE TraceYaccParse ---------------------------
(* Trace specification for the Yacc parser (ASTWithValidityInfo::new) on arbitrary text: the
   %grmtools section parser (Header.tla), the .y parser and the AST validation (YaccParse.tla),
   transcribed, must predict EXACTLY the abstract syntax tree that was built (every field, every
   span) and the list of errors (kind, name, spans) in order.
   Event `yparse': kind, src (code points), hsrc (Header.tla characters), res = [ast, errors]. *)
EXTENDS Naturals, Integers, Sequences, FiniteSets, TLC, Json, IOUtils
H == INSTANCE Header WITH Variant <- "code"
Y == INSTANCE YaccParse
G == INSTANCE AstGrammar
Rec == ndJsonDeserialize(IOEnv.TRACE)
VARIABLES l, ndev
Prop == IF "PROP" \in DOMAIN IOEnv THEN IOEnv.PROP ELSE "C12"
Report(inst, S) == \A d \in S : PrintT(<<"DEV", Prop, inst, l, d[1], d[2]>>)
ToSet(s) == {s[i] : i \in 1 .. Len(s)}
Tup(s) == [i \in 1 .. Len(s) |-> s[i]]
P2(s) == <<s[1], s[2]>>
HSrc(e) == [i \in 1 .. Len(e.hsrc) |-> <<e.hsrc[i][1], e.hsrc[i][2], e.hsrc[i][3]>>]
ErrList(es) == [i \in 1 .. Len(es) |-> [kind |-> es[i].kind, name |-> Tup(es[i].name), spans |-> [j \in 1 .. Len(es[i].spans) |-> P2(es[i].spans[j])]]]
Prefixed(es) == [i \in 1 .. Len(es) |-> [kind |-> "Error in '%grmtools' " \o es[i].kind, name |-> <<>>, spans |-> es[i].spans]]

\* ---- normal forms ----
ISym(s) == [t |-> s.t, name |-> Tup(s.name), span |-> P2(s.span)]
IOpt1(x) == IF Len(x) = 0 THEN <<>> ELSE <<Tup(x[1])>>
IOpt2(x) == IF Len(x) = 0 THEN <<>> ELSE <<Tup(x[1]), P2(x[2])>>
IAst(j) ==
  [tokens |-> [i \in 1 .. Len(j.tokens) |-> Tup(j.tokens[i])], tspans |-> [i \in 1 .. Len(j.tspans) |-> P2(j.tspans[i])],
   tdirs |-> {x + 1 : x \in ToSet(j.tdirs)}, start |-> IOpt2(j.start),
   epp |-> {[name |-> Tup(x.name), span |-> P2(x.span), val |-> Tup(x.val), vspan |-> P2(x.vspan)] : x \in ToSet(j.epp)},
   expect |-> IOpt2(j.expect), expectrr |-> IOpt2(j.expectrr),
   expect_unused |-> [i \in 1 .. Len(j.expect_unused) |-> ISym(j.expect_unused[i])],
   has_avoid |-> j.has_avoid, avoid |-> {[name |-> Tup(x.name), span |-> P2(x.span)] : x \in ToSet(j.avoid)},
   has_implicit |-> j.has_implicit, implicit |-> {[name |-> Tup(x.name), span |-> P2(x.span)] : x \in ToSet(j.implicit)},
   precs |-> {[name |-> Tup(x.name), level |-> x.level, kind |-> x.kind, span |-> P2(x.span)] : x \in ToSet(j.precs)},
   parse_param |-> IF Len(j.parse_param) = 0 THEN <<>> ELSE <<Tup(j.parse_param[1]), Tup(j.parse_param[2])>>,
   parse_generics |-> IOpt1(j.parse_generics),
   rules |-> [i \in 1 .. Len(j.rules) |-> [name |-> Tup(j.rules[i].name), span |-> P2(j.rules[i].span), pidxs |-> Tup(j.rules[i].pidxs),
                                          actiont |-> IOpt1(j.rules[i].actiont)]],
   prods |-> [i \in 1 .. Len(j.prods) |-> [syms |-> [n \in 1 .. Len(j.prods[i].syms) |-> ISym(j.prods[i].syms[n])],
                                          prec |-> IOpt1(j.prods[i].prec), action |-> IOpt2(j.prods[i].action), span |-> P2(j.prods[i].span)]],
   programs |-> IOpt1(j.programs)]
MAst(a) ==
  [tokens |-> a.tokens, tspans |-> a.tspans, tdirs |-> a.tdirs, start |-> a.start,
   epp |-> ToSet(a.epp), expect |-> a.expect, expectrr |-> a.expectrr, expect_unused |-> a.expect_unused,
   has_avoid |-> a.has_avoid, avoid |-> ToSet(a.avoid), has_implicit |-> a.has_implicit, implicit |-> ToSet(a.implicit),
   precs |-> ToSet(a.precs), parse_param |-> a.parse_param, parse_generics |-> a.parse_generics,
   rules |-> a.rules, prods |-> a.prods, programs |-> a.programs]

\* the grammar object as dumped (total.rs grm_json), normalised
IGrm(g) ==
  [nr |-> g.nr, nt |-> g.nt, np |-> g.np,
   tokens |-> [i \in 1 .. Len(g.tokens) |-> [name |-> Tup(g.tokens[i].name), has_name |-> g.tokens[i].has_name, span |-> P2(g.tokens[i].span),
                                               prec |-> P2(g.tokens[i].prec), epp |-> Tup(g.tokens[i].epp), has_epp |-> g.tokens[i].has_epp, avoid |-> g.tokens[i].avoid]],
   rules |-> [i \in 1 .. Len(g.rules) |-> [name |-> Tup(g.rules[i].name), span |-> P2(g.rules[i].span), actiontype |-> IOpt1(g.rules[i].actiontype),
                                             prods |-> Tup(g.rules[i].prods)]],
   prods |-> [i \in 1 .. Len(g.prods) |-> [r |-> g.prods[i].r, rhs |-> Tup(g.prods[i].rhs), prec |-> P2(g.prods[i].prec), span |-> P2(g.prods[i].span),
                                             action |-> IOpt1(g.prods[i].action),
                                             action_span |-> IF Len(g.prods[i].action_span) = 0 THEN <<>> ELSE P2(g.prods[i].action_span)]],
   startprod |-> g.startprod, startrule |-> g.startrule, eof |-> g.eof, expect |-> Tup(g.expect), expectrr |-> Tup(g.expectrr),
   implicit_rule |-> g.implicit_rule, programs |-> IOpt1(g.programs),
   parse_param |-> IF Len(g.parse_param) = 0 THEN <<>> ELSE <<Tup(g.parse_param[1]), Tup(g.parse_param[2])>>,
   parse_generics |-> IOpt1(g.parse_generics)]

Model(e) ==     \* -> [a, errs, loop]
  LET src == Tup(e.src)
      h == H!Parse(HSrc(e), FALSE)
  IN IF h.class = "err" THEN [a |-> Y!EmptyAst, errs |-> Prefixed(h.errors)]
     ELSE IF h.class = "loop" THEN [a |-> Y!EmptyAst, errs |-> << Y!LOOPERR >>]
     ELSE LET start == CHOOSE k \in 0 .. Len(src) : Y!B(src, k) = h.pos IN Y!Parse(src, e.kind, start)

Devs(e) ==
  IF e.res.class = "panic" THEN { <<"yacc parser panicked", e.res.msg>> }
  ELSE IF e.res.class = "hang" THEN { <<"yacc parser did not return", 0>> }
  ELSE
  LET m == Model(e)
      looped == \E n \in 1 .. Len(m.errs) : m.errs[n].kind = "LOOP"
      ia == IAst(e.res.ast)  ma == MAst(m.a)
      ierrs == ErrList(e.res.errors)
      \* the parser's errors, then at most one from the validation (which unknown %epp is unspecified)
      allowed == { m.errs \o v : v \in Y!Validate(m.a) }
  IN IF looped THEN { <<"the transcribed parser does not terminate on this input", 0>> }
     ELSE \* WHICH errors an invalid text is rejected with (and what is left of its AST) is beyond the
          \* listed properties: such differences are informational; acceptance, and everything about
          \* an accepted text, is not
          LET maccepts == <<>> \in allowed
              mrejects == \A x \in allowed : x # <<>> IN
          (IF ierrs = <<>> /\ mrejects THEN { <<"text accepted although the transcribed parser rejects it", allowed>> }
           ELSE IF ierrs # <<>> /\ ~mrejects THEN { <<"text rejected although the transcribed parser accepts it", ierrs>> }
           ELSE IF ierrs \in allowed THEN {} ELSE { <<"INFO: errors # model (both reject the text)", <<ierrs, allowed>> >> })
          \cup (IF ia = ma THEN {}
                ELSE LET diff == [f \in {g \in DOMAIN ia : ia[g] # ma[g]} |-> <<ia[f], ma[f]>>] IN
                     IF ierrs = <<>> /\ maccepts THEN { <<"abstract syntax tree # model", diff>> }
                     ELSE { <<"INFO: abstract syntax tree of a rejected text # model", diff>> })
          \* a valid AST: the grammar object made of it (text -> grammar, C10)
          \cup (IF e.res.grm.built /\ ia = ma /\ ierrs = <<>>
                THEN LET ig == IGrm(e.res.grm)  mg == G!GrammarOf(m.a, e.kind) IN
                     IF ig = mg THEN {} ELSE { <<"grammar object # GrammarOf(AST)", [f \in {x \in DOMAIN ig : ig[x] # mg[x]} |-> <<ig[f], mg[f]>>]>> }
                ELSE IF ierrs = <<>> /\ ~e.res.grm.built THEN { <<"valid AST but no grammar object", 0>> } ELSE {})
Init == l = 1 /\ ndev = 0
Next == /\ l <= Len(Rec) /\ l' = l + 1
        /\ LET e == Rec[l]  ds == Devs(e) IN Report(e.id, ds) /\ ndev' = ndev + Cardinality(ds)
Spec == Init /\ [][Next]_<<l, ndev>>
Consumed == (l = Len(Rec) + 1) => PrintT(<<"DONE", Len(Rec), ndev>>)
=============================================================================
