----------------------------- MODULE MC_Recover -----------------------------
(***************************************************************************)
(* The parse loop WITH error recovery as an explicit state machine (C07,   *)
(* C04, C05 at the level of the design).                                   *)
(*                                                                         *)
(* One `Parse' step runs the LR machine to the next error or to accept;    *)
(* one `Recover' step computes the complete minimum-cost repair set at the *)
(* error (RefRepairs) and applies ANY of its members - the code applies    *)
(* the first of an order that is unspecified within a rank, so every       *)
(* choice is a behaviour.  If there is no repair the parse ends without a  *)
(* value.  Instances: every grammar of IOEnv.GRAMMARS x its canonical      *)
(* Yacc table x every token string up to length L.                         *)
(***************************************************************************)
EXTENDS CanonTable, Json, IOUtils
CONSTANTS L, MAXOPS,
          Gap      \* the distance between errors the property promises (= ParseAtLeast; a model run with
                   \* ParseAtLeast < Gap must be refuted)
Gs == ndJsonDeserialize(IOEnv.GRAMMARS)

VARIABLES gi, inp, tbl, tcost,
          st, la,          \* bare parse stack and lookahead index
          errs,            \* the errors so far: [la, nrep, applied, la_after]
          phase            \* "parse" | "error" | "acc" | "fail" | "loop"
rvars == <<C, pvars, gi, inp, tbl, tcost, st, la, errs, phase>>

\* run the LR machine from (s, l) until it accepts or errs
RECURSIVE RunBare(_, _, _)
RunBare(s, l, fuel) ==
  IF fuel = 0 THEN [out |-> "loop", st |-> s, la |-> l]
  ELSE LET r == LR1Tok(tbl, s, Tok(inp, l), RFuel) IN
       IF r.acc THEN [out |-> "acc", st |-> r.st, la |-> l]
       ELSE IF r.shifted /\ l < Len(inp) THEN RunBare(r.st, l + 1, fuel - 1)
       ELSE [out |-> "err", st |-> s, la |-> l]      \* the stack at the error is the unreduced one

Init ==
  /\ gi \in 1 .. Len(Gs) /\ C = MkCtx(Gs[gi])
  /\ core = <<>> /\ closed = <<>> /\ isc = <<>> /\ edges = <<>> /\ cnd = <<>> /\ todo_off = 0 /\ pending = {} /\ cur = 0
  /\ tbl = TLCEval(TableOf(CanonAuto))
  /\ inp \in AllStr(L)
  /\ tcost = [t \in 1 .. C.nt |-> 1]
  /\ st = <<0>> /\ la = 0 /\ errs = <<>> /\ phase = "parse"

Parse ==
  /\ phase = "parse"
  /\ LET r == RunBare(st, la, Len(inp) + 2) IN
     /\ st' = r.st /\ la' = r.la
     /\ phase' = (CASE r.out = "acc" -> "acc" [] r.out = "err" -> "error" [] OTHER -> "loop")
  /\ UNCHANGED errs

Recover ==
  /\ phase = "error"
  /\ LET R == RefRepairs(tbl, inp, tcost, st, la, MAXOPS) IN
     IF ~R.found
     THEN /\ errs' = Append(errs, [la |-> la, nrep |-> 0, applied |-> <<>>, la_after |-> la])
          /\ phase' = "fail" /\ UNCHANGED <<st, la>>
     ELSE \E seq \in R.set :
            LET a == ApplyBare(tbl, inp, st, la, seq) IN
            /\ errs' = Append(errs, [la |-> la, nrep |-> Cardinality(R.set), applied |-> seq, la_after |-> a.la])
            /\ st' = a.st /\ la' = a.la /\ phase' = (IF a.ok THEN "parse" ELSE "loop")

Next == UNCHANGED <<C, pvars, gi, inp, tbl, tcost>> /\ (Parse \/ Recover)
Spec == Init /\ [][Next]_rvars

\* ---- properties ----
NoLoop == phase # "loop"
\* errors are reported in strictly increasing position, each at least N real lexemes beyond the
\* previous one; so their number is bounded by the input length
Increasing == \A i \in 1 .. Len(errs) - 1 : errs[i + 1].la >= errs[i].la + Gap
Bounded == Len(errs) <= (Len(inp) \div Gap) + 1
\* every error except possibly the last carries a repair; the parse ends with a value iff all do
AllButLastRepaired == \A i \in 1 .. Len(errs) - 1 : errs[i].nrep > 0
Outcome == /\ phase = "acc"  => \A i \in 1 .. Len(errs) : errs[i].nrep > 0
           /\ phase = "fail" => Len(errs) > 0 /\ errs[Len(errs)].nrep = 0
\* an applied repair never moves the parse backwards, and a repair that inserts only must be
\* followed by real progress before the next error (no error twice at the same lexeme)
NoBackwards == \A i \in 1 .. Len(errs) : errs[i].la_after >= errs[i].la
\* a value with an empty error list means the input is a sentence of the grammar (C01/C04 link)
AcceptedUnchanged == (phase = "acc" /\ errs = <<>> /\ ~Cyclic) => inp \in Lang(L)
\* the first error is at the first lexeme that cannot continue a sentence (C04)
FirstErrorEarliest ==
  (Len(errs) > 0 /\ AllProductive /\ ~Cyclic /\ \A s \in 0 .. Len(tbl.act) - 1 : TRUE) =>
     LET pre == Pre(L)  bad == {i \in 1 .. Len(inp) : SubSeq(inp, 1, i) \notin pre} IN
     errs[1].la = (IF bad = {} THEN Len(inp) ELSE Min(bad) - 1)
=============================================================================
