SPECIFICATION Spec
CONSTANTS
  MergeMode = "pager"
  L = 4
  ParseAtLeast = 3
  TryParseAtMost = 250
INVARIANT ClosedOK
INVARIANT NotMoreStates
INVARIANT NoNewConflict
INVARIANT LanguageOK
CHECK_DEADLOCK FALSE
