-------------------------------- MODULE Width --------------------------------
(***************************************************************************)
(* Index storage widths (C20).  StorageT is u8 / u16 / u32; every count    *)
(* and index the grammar, state graph and state table store must fit.      *)
(* This module transcribes the guards as written in the code               *)
(* (cfgrammar grammar.rs, lrtable pager.rs / stategraph.rs /               *)
(* statetable.rs) and what is actually stored, and states the property:    *)
(* a build either is refused with the documented panic or no stored value  *)
(* has wrapped.                                                            *)
(***************************************************************************)
EXTENDS Naturals, Integers, TLC

MaxOf(w) == 2 ^ w - 1
Wrap(x, w) == x % (2 ^ w)

\* what the grammar stores, given the source-level counts
\*  c = [rules, tokens, prods, maxsyms, eco (BOOLEAN), implicit (number of implicit tokens),
\*       toksyms (max number of token symbols in one production), pregc, states]
StoredRules(c)  == c.rules + 1 + (IF c.eco THEN 2 ELSE 0)
StoredTokens(c) == c.tokens + 1
StoredProds(c)  == c.prods + 1 + (IF c.eco THEN c.implicit + 2 ELSE 0)
StoredSyms(c)   == IF c.eco THEN (LET m == c.maxsyms + c.toksyms IN IF m < 2 THEN 2 ELSE m)
                   ELSE (IF c.maxsyms < 1 THEN 1 ELSE c.maxsyms)

\* guards of YaccGrammar::new_from_ast_with_validity_info.  `fixed' selects the guards after the
\* "fix:" commit (they compare what is stored); FALSE gives the pinned ones (source-level counts)
GrammarRefused(c, w, fixed) ==
  IF fixed THEN \/ StoredRules(c) > MaxOf(w) \/ StoredTokens(c) > MaxOf(w)
                \/ StoredProds(c) > MaxOf(w) \/ StoredSyms(c) > MaxOf(w)
  ELSE \/ c.rules > MaxOf(w) \/ c.tokens > MaxOf(w) \/ c.prods > MaxOf(w) \/ c.maxsyms > MaxOf(w)
\* Pager: a new state is refused when core_states.len() >= max; after gc: len > max;
\* StateGraph::new: len < max; StateTable::new: len < max - 1 (0 is "no goto", states are +1)
GraphRefused(c, w) == c.pregc > MaxOf(w) \/ c.states > MaxOf(w) \/ ~(c.states < MaxOf(w)) \/ ~(c.states < MaxOf(w) - 1)

Refused(c, w, fixed) == GrammarRefused(c, w, fixed) \/ GraphRefused(c, w)

\* the property: if the build is not refused, nothing that is stored has wrapped
NoWrap(c, w) ==
  /\ Wrap(StoredRules(c), w) = StoredRules(c)
  /\ Wrap(StoredTokens(c), w) = StoredTokens(c)
  /\ Wrap(StoredProds(c), w) = StoredProds(c)
  /\ Wrap(StoredSyms(c), w) = StoredSyms(c)
  /\ Wrap(c.states, w) = c.states
  /\ Wrap(c.states + 1, w) = c.states + 1          \* goto encoding adds one
WidthOK(c, w, fixed) == Refused(c, w, fixed) \/ NoWrap(c, w)
=============================================================================
