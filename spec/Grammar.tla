------------------------------- MODULE Grammar -------------------------------
(***************************************************************************)
(* Context-free grammars as grmtools sees them, and what they MEAN.        *)
(*                                                                         *)
(* A grammar is a record                                                   *)
(*   [nt, eof, nr, np, startprod, startrule,                               *)
(*    prods : Seq([r, rhs]), tprec, pprec : Seq(<<level, kind>>), avoid]   *)
(* Indices are 0-based exactly as in the code (TIdx, RIdx, PIdx); a symbol *)
(* is an integer: token t is t, rule r is ROFF + r.                        *)
(*                                                                         *)
(* The state variable C holds the "current grammar context": the grammar   *)
(* record extended with derived data that is expensive to recompute        *)
(* (ProdsOf, Nullable, First).  Every operator below reads C, so the same  *)
(* definitions serve the bounded models (C chosen in Init) and the trace   *)
(* specifications (C set by a `grammar' event recorded from the code).     *)
(***************************************************************************)
EXTENDS Naturals, Integers, Sequences, FiniteSets, TLC, FiniteSetsExt, SequencesExt

VARIABLE C

ROFF == 100000
IsRule(s)  == s >= ROFF
IsToken(s) == s < ROFF
RuleOf(s)  == s - ROFF
RSym(r)    == ROFF + r

At0(seq, i) == seq[i + 1]            \* the one place 0-based meets 1-based

Tokens == 0 .. C.nt - 1
Rules  == 0 .. C.nr - 1
Prods  == 0 .. C.np - 1
EOF    == C.eof
Rhs(p) == C.prods[p + 1].rhs
Lhs(p) == C.prods[p + 1].r
PLen(p) == Len(Rhs(p))
ProdsOf(r) == C.prodsof[r + 1]
StartProd == C.startprod

(***************************************************************************)
(* Well-formedness (part of C10): dense numbering, everything in range.    *)
(***************************************************************************)
WellFormedRaw(g) ==
  /\ g.nt >= 1 /\ g.nr >= 1 /\ g.np >= 1
  /\ Len(g.prods) = g.np
  /\ g.eof \in 0 .. g.nt - 1
  /\ g.startprod \in 0 .. g.np - 1
  /\ g.startrule \in 0 .. g.nr - 1
  /\ \A i \in 1 .. g.np :
        /\ g.prods[i].r \in 0 .. g.nr - 1
        /\ \A j \in 1 .. Len(g.prods[i].rhs) :
              LET s == g.prods[i].rhs[j] IN
              \/ s \in 0 .. g.nt - 1
              \/ (s >= ROFF /\ s - ROFF \in 0 .. g.nr - 1)
  /\ g.prods[g.startprod + 1].r = g.startrule
  /\ \A r \in 0 .. g.nr - 1 : \E i \in 1 .. g.np : g.prods[i].r = r

(***************************************************************************)
(* Derived analyses, MEANING layer: textbook least fixed points.           *)
(***************************************************************************)
RawProdsOf(g, r) == {p \in 0 .. g.np - 1 : g.prods[p + 1].r = r}

RECURSIVE NullFix(_, _)
NullFix(g, N) ==
  LET N2 == N \cup {r \in 0 .. g.nr - 1 :
                     \E p \in RawProdsOf(g, r) :
                        \A i \in 1 .. Len(g.prods[p + 1].rhs) :
                           LET s == g.prods[p + 1].rhs[i] IN IsRule(s) /\ RuleOf(s) \in N}
  IN IF N2 = N THEN N ELSE NullFix(g, N2)

\* FIRST: tokens that can begin a string derived from the rule.
RECURSIVE FirstFix(_, _, _)
FirstFix(g, Nl, F) ==
  LET rhs(p) == g.prods[p + 1].rhs
      step(r) == F[r] \cup UNION {
          UNION { IF IsRule(rhs(p)[i]) THEN F[RuleOf(rhs(p)[i])] ELSE {rhs(p)[i]} :
                  i \in {j \in 1 .. Len(rhs(p)) :
                           \A k \in 1 .. j - 1 : IsRule(rhs(p)[k]) /\ RuleOf(rhs(p)[k]) \in Nl} }
          : p \in RawProdsOf(g, r) }
      F2 == TLCEval([r \in 0 .. g.nr - 1 |-> step(r)])
  IN IF F2 = F THEN F ELSE FirstFix(g, Nl, F2)

MkCtx(g) ==
  LET Nl == NullFix(g, {})
      F  == FirstFix(g, Nl, [r \in 0 .. g.nr - 1 |-> {}])
  IN  [nt |-> g.nt, eof |-> g.eof, nr |-> g.nr, np |-> g.np,
       startprod |-> g.startprod, startrule |-> g.startrule,
       prods |-> g.prods, tprec |-> g.tprec, pprec |-> g.pprec, avoid |-> g.avoid,
       prodsof |-> TLCEval([i \in 1 .. g.nr |-> RawProdsOf(g, i - 1)]),
       nullable |-> Nl, first |-> F]

EmptyCtx == [nt |-> 0]

Nullable == C.nullable
First(r) == C.first[r]
NullableSym(s) == IsRule(s) /\ RuleOf(s) \in Nullable
FirstSym(s) == IF IsRule(s) THEN First(RuleOf(s)) ELSE {s}

\* FIRST of the symbol string beta; NullableSeq(beta) says whether it derives the empty string
NullableSeq(beta) == \A k \in 1 .. Len(beta) : NullableSym(beta[k])
FirstOfSeq(beta) ==
  UNION { FirstSym(beta[i]) :
          i \in {j \in 1 .. Len(beta) : \A k \in 1 .. j - 1 : NullableSym(beta[k])} }
\* FIRST(beta a)
FirstSeq(beta, a) == IF NullableSeq(beta) THEN FirstOfSeq(beta) \cup {a} ELSE FirstOfSeq(beta)

\* FOLLOW: tokens (incl. EOF) that can follow the rule in a sentential form derived from the
\* start rule.  Least fixed point of the textbook equations.
RECURSIVE FollowFix(_)
FollowFix(Fo) ==
  LET contrib(r) == UNION { UNION {
            LET rest == SubSeq(Rhs(p), i + 1, PLen(p)) IN
            FirstOfSeq(rest) \cup (IF NullableSeq(rest) THEN Fo[Lhs(p)] ELSE {})
          : i \in {j \in 1 .. PLen(p) : Rhs(p)[j] = RSym(r)} } : p \in Prods }
      Fo2 == TLCEval([r \in Rules |-> Fo[r] \cup contrib(r)])
  IN IF Fo2 = Fo THEN Fo ELSE FollowFix(Fo2)
Follow == FollowFix([r \in Rules |-> IF r = C.startrule THEN {EOF} ELSE {}])

\* Reachability through productions (has_path): is there a derivation path of length >= 1?
RECURSIVE ReachFix(_, _)
ReachFix(seen, todo) ==
  IF todo = {} THEN seen
  ELSE LET nxt == UNION { {RuleOf(Rhs(p)[i]) : i \in {j \in 1 .. PLen(p) : IsRule(Rhs(p)[j])}}
                          : p \in UNION {ProdsOf(r) : r \in todo} }
       IN ReachFix(seen \cup nxt, nxt \ seen)
ReachFrom(r) == ReachFix({}, {r})     \* rules reachable from r in one or more steps

\* Productive rules (derive some token string)
RECURSIVE ProdFix(_)
ProdFix(P) ==
  LET P2 == P \cup {r \in Rules : \E p \in ProdsOf(r) :
                      \A i \in 1 .. PLen(p) : IsToken(Rhs(p)[i]) \/ RuleOf(Rhs(p)[i]) \in P}
  IN IF P2 = P THEN P ELSE ProdFix(P2)
Productive == ProdFix({})
AllProductive == Productive = Rules

\* A rule "derives just itself" (A =>+ A): unit/nullable-padded cycle.
UnitStep(r) == UNION { { RuleOf(Rhs(p)[i]) :
                         i \in {j \in 1 .. PLen(p) : IsRule(Rhs(p)[j]) /\
                                  \A k \in (1 .. PLen(p)) \ {j} : NullableSym(Rhs(p)[k])} }
                       : p \in ProdsOf(r) }
RECURSIVE UnitReach(_, _)
UnitReach(seen, todo) ==
  IF todo = {} THEN seen
  ELSE LET nxt == UNION {UnitStep(r) : r \in todo} IN UnitReach(seen \cup nxt, nxt \ seen)
Cyclic == \E r \in Rules : r \in UnitReach({}, {r})

(***************************************************************************)
(* Bounded languages, straight from derivations (independent of any table  *)
(* construction).  LangOf[r] = all token strings of length <= L derived    *)
(* from rule r; exact, because every factor of a short string is short.    *)
(***************************************************************************)
RECURSIVE SeqLang(_, _, _, _)
\* strings (<= L) derived from the symbol string rhs[i..], given rule languages S
SeqLang(S, rhs, i, L) ==
  IF i > Len(rhs) THEN { <<>> }
  ELSE LET hd == IF IsRule(rhs[i]) THEN S[RuleOf(rhs[i])] ELSE { <<rhs[i]>> }
           tl == SeqLang(S, rhs, i + 1, L)
       IN { s \in { a \o b : a \in hd, b \in tl } : Len(s) <= L }

RECURSIVE LangFix(_, _)
LangFix(S, L) ==
  LET S2 == TLCEval([r \in Rules |-> S[r] \cup UNION { SeqLang(S, Rhs(p), 1, L) : p \in ProdsOf(r) }])
  IN IF S2 = S THEN S ELSE LangFix(S2, L)
LangOf(L) == LangFix([r \in Rules |-> {}], L)
Lang(L) == LangOf(L)[C.startrule]

\* Prefixes (<= L) of sentences.  Valid when all rules are productive: then every prefix of a
\* string derived from a sentential form can be completed to a sentence.
RECURSIVE SeqPre(_, _, _, _, _)
SeqPre(S, P, rhs, i, L) ==      \* prefixes of strings derived from rhs[i..]
  IF i > Len(rhs) THEN { <<>> }
  ELSE LET hdL == IF IsRule(rhs[i]) THEN S[RuleOf(rhs[i])] ELSE { <<rhs[i]>> }
           hdP == IF IsRule(rhs[i]) THEN P[RuleOf(rhs[i])] ELSE { <<>>, <<rhs[i]>> }
           tl  == SeqPre(S, P, rhs, i + 1, L)
       IN hdP \cup { s \in { a \o b : a \in hdL, b \in tl } : Len(s) <= L }
RECURSIVE PreFix(_, _, _)
PreFix(S, P, L) ==
  LET P2 == TLCEval([r \in Rules |-> P[r] \cup
               { s \in UNION { SeqPre(S, P, Rhs(p), 1, L) : p \in ProdsOf(r) } : Len(s) <= L }])
  IN IF P2 = P THEN P ELSE PreFix(S, P2, L)
\* NB: sentences may be longer than L, so prefixes are computed with rule languages bounded by
\* L as well: a prefix of length <= L only ever needs complete factors of length <= L.
PreOf(L) == PreFix(LangOf(L), [r \in Rules |-> {}], L)
Pre(L) == PreOf(L)[C.startrule]

=============================================================================
