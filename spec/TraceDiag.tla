------------------------------ MODULE TraceDiag ------------------------------
(* Trace specification for the rendering of REAL parser errors (C12: "can always be rendered";
   C19: "error pretty-printing reports these positions"): one `diag' event per error that one of
   the specification parsers reported - the text, the error's spans, kind and message, and what
   SpannedDiagnosticFormatter::format_error made of it.  The rendering must be exactly
   Diagnostics.RenderSpanned; an error that is not a duplication has one span; the spans of a
   duplication come in text order. *)
EXTENDS Diagnostics, Json, IOUtils
Rec == ndJsonDeserialize(IOEnv.TRACE)
VARIABLES l, ndev
tvars == <<l, ndev, text, newlines, trailing, feeds>>
Report(inst, S) == \A d \in S : PrintT(<<"DEV", "C12", inst, l, d[1], d[2]>>)
IfDev(c, code, detail) == IF c THEN {} ELSE { <<code, detail>> }
\* evaluated in the state whose `text' is the event's text
Devs(e) ==
  IfDev(e.dup \/ Len(e.spans) = 1, "INFO: an error that is not a duplication carries more than one span", e.spans)
  \cup IfDev(\A i \in 1 .. Len(e.spans) - 1 : e.spans[i][1] <= e.spans[i + 1][1], "INFO: the spans of an error are not in text order", e.spans)
  \cup (LET rd == RenderSpanned(e.spans, e.msg) IN
        IfDev(e.rd = rd, "rendering of a parser error (lines, line numbers, indentation, underlines, message, occurrences)", <<e.spans, e.rd, rd>>))
Init == l = 1 /\ ndev = 0 /\ NLInit
\* two steps per event: load the text, then judge the rendering against it
Next ==
  /\ l <= 2 * Len(Rec) /\ l' = l + 1
  /\ LET e == Rec[(l + 1) \div 2] IN
     IF l % 2 = 1
     THEN /\ text' = e.bytes /\ UNCHANGED <<ndev, newlines, trailing, feeds>>
     ELSE /\ LET ds == Devs(e) IN Report(e.id, ds) /\ ndev' = ndev + Cardinality(ds)
          /\ UNCHANGED <<text, newlines, trailing, feeds>>
Spec == Init /\ [][Next]_tvars
Consumed == (l = 2 * Len(Rec) + 1) => PrintT(<<"DONE", Len(Rec), ndev>>)
=============================================================================
