------------------------------ MODULE MC_Width ------------------------------
(* all count vectors in windows of +-Win around 2^8 (and 2^16) for each dimension *)
EXTENDS Width
CONSTANTS Win, Widths, Fixed
VARIABLES c, w
Window(wd) == (MaxOf(wd) - Win) .. (MaxOf(wd) + Win)
Small == {0, 1, 3}
Init == /\ w \in Widths
        /\ \E dim \in 1 .. 6, v \in Window(w), eco \in BOOLEAN, imp \in {1, 2}, s1 \in Small, s2 \in Small :
             c = [rules   |-> IF dim = 1 THEN v ELSE s1 + 1,
                  tokens  |-> IF dim = 2 THEN v ELSE s2 + 1,
                  prods   |-> IF dim = 3 THEN v ELSE (IF dim = 1 THEN v ELSE s1 + 1),
                  maxsyms |-> IF dim = 4 THEN v ELSE s2,
                  eco |-> eco, implicit |-> imp,
                  toksyms |-> IF dim = 4 THEN v - s1 ELSE 0,
                  pregc   |-> IF dim = 5 THEN v ELSE (IF dim = 6 THEN v + s1 ELSE s1 + 2),
                  states  |-> IF dim = 6 THEN v ELSE (IF dim = 5 THEN v - s2 ELSE s1 + 2)]
Next == UNCHANGED <<c, w>>
Spec == Init /\ [][Next]_<<c, w>>
Inv == WidthOK(c, w, Fixed)
=============================================================================
