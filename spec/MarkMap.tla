------------------------------- MODULE MarkMap -------------------------------
(***************************************************************************)
(* cfgrammar::markmap::MarkMap - the map behind the %grmtools header: keys *)
(* with an optional value and marks (used, required, merge behaviour), and *)
(* the merge operator with which the compile-time builders combine the     *)
(* settings given through the builder with those of the %grmtools section  *)
(* (C11 "the flags in force", C13, C18 rest on it).                        *)
(*                                                                         *)
(* A map is a function from a fixed key universe to entries                *)
(*   [present, used, req, mb, val]      mb \in {"none","theirs","ours",    *)
(*                                      "excl"}, val = NoVal or a value    *)
(* `present' = the key has a slot in `contents' (it may hold only marks).  *)
(* Every operation is a pure operator returning the new map (and result),  *)
(* transcribed from the code, INCLUDING what the documentation does not    *)
(* say: `remove' drops the marks with the value; a merge under Theirs      *)
(* copies a missing value over a present one; a failed merge leaves the    *)
(* keys merged so far; iteration stops at the first value-less slot.       *)
(***************************************************************************)
EXTENDS Naturals, Sequences, FiniteSets, TLC

CONSTANTS Keys,       \* the key universe, a set of naturals (key order = numeric order)
          NoVal       \* the absent value (a natural no real value uses)

Absent == [present |-> FALSE, used |-> FALSE, req |-> FALSE, mb |-> "none", val |-> NoVal]
Empty  == [dmb |-> "excl", e |-> [k \in Keys |-> Absent]]

Slot(m, k) == m.e[k]
With(m, k, s) == [m EXCEPT !.e[k] = s]
Touch(m, k) == IF Slot(m, k).present THEN m ELSE With(m, k, [Absent EXCEPT !.present = TRUE])

\* ---- operations: [m |-> new map, r |-> result] ----
Insert(m, k, v) == [m |-> With(Touch(m, k), k, [Slot(Touch(m, k), k) EXCEPT !.val = v]), r |-> Slot(m, k).val]
Remove(m, k)    == [m |-> With(m, k, Absent), r |-> Slot(m, k).val]          \* the marks go with it
MarkUsed(m, k)     == [m |-> With(Touch(m, k), k, [Slot(Touch(m, k), k) EXCEPT !.used = TRUE]), r |-> NoVal]
MarkRequired(m, k) == [m |-> With(Touch(m, k), k, [Slot(Touch(m, k), k) EXCEPT !.req = TRUE]), r |-> NoVal]
SetMB(m, k, b)     == [m |-> With(Touch(m, k), k, [Slot(Touch(m, k), k) EXCEPT !.mb = b]), r |-> NoVal]
SetDefault(m, b)   == [m |-> [m EXCEPT !.dmb = b], r |-> NoVal]

\* ---- queries ----
Get(m, k)        == Slot(m, k).val
Contains(m, k)   == Slot(m, k).val # NoVal
IsUsed(m, k)     == Slot(m, k).used
IsRequired(m, k) == Slot(m, k).req
Unused(m)   == {k \in Keys : Slot(m, k).val # NoVal /\ ~Slot(m, k).used}
Missing(m)  == {k \in Keys : Slot(m, k).present /\ Slot(m, k).val = NoVal /\ Slot(m, k).req}
KeysOf(m)   == {k \in Keys : Slot(m, k).val # NoVal}
\* iteration (`for (k, v) in &map'): in key order, but it ENDS at the first slot without a value
Iter(m) == LET holes == {k \in Keys : Slot(m, k).present /\ Slot(m, k).val = NoVal}
           IN {k \in KeysOf(m) : \A h \in holes : k < h}
\* what Entry::Occupied / Vacant the entry API sees
Occupied(m, k) == Slot(m, k).val # NoVal

\* ---- merge_from(self, other): keys of `other' in key order; stops at the first exclusivity error
EffMB(m, k) == IF Slot(m, k).mb = "none" THEN m.dmb ELSE Slot(m, k).mb
MergeKey(m, o, k) ==      \* -> [m, err]
  LET mine == Slot(m, k)  theirs == Slot(o, k)
      marks == [mine EXCEPT !.used = mine.used \/ theirs.used, !.req = mine.req \/ theirs.req]
  IN IF ~theirs.present THEN [m |-> m, err |-> FALSE]
     ELSE IF ~mine.present THEN [m |-> With(m, k, theirs), err |-> FALSE]      \* copied with ALL its marks
     ELSE CASE EffMB(m, k) = "excl" /\ theirs.val # NoVal ->
                 IF mine.val # NoVal THEN [m |-> m, err |-> TRUE]
                 ELSE [m |-> With(m, k, [marks EXCEPT !.val = theirs.val]), err |-> FALSE]
            [] EffMB(m, k) = "theirs" -> [m |-> With(m, k, [marks EXCEPT !.val = theirs.val]), err |-> FALSE]   \* even NoVal
            [] EffMB(m, k) = "ours" /\ mine.val = NoVal -> [m |-> With(m, k, [marks EXCEPT !.val = theirs.val]), err |-> FALSE]
            [] OTHER -> [m |-> m, err |-> FALSE]
RECURSIVE MergeFrom(_, _, _)
MergeFrom(m, o, todo) ==    \* todo: the keys of o still to do -> [m, err, key]
  IF todo = {} THEN [m |-> m, err |-> FALSE, key |-> 0]
  ELSE LET k == CHOOSE x \in todo : \A y \in todo : x <= y
           r == MergeKey(m, o, k)
       IN IF r.err THEN [m |-> m, err |-> TRUE, key |-> k] ELSE MergeFrom(r.m, o, todo \ {k})
Merge(m, o) == MergeFrom(m, o, {k \in Keys : Slot(o, k).present})

(***************************************************************************)
(* What the builders rely on (checked in MC_MarkMap for every pair of maps)*)
(***************************************************************************)
\* default "ours" (CTLexerBuilder): a value given through the builder (self) survives the merge
\* with the parsed section (other); a value only the section has is taken over; marks accumulate
OursLaw(m, o) ==
  LET r == Merge(m, o) IN
  (m.dmb = "ours" /\ \A k \in Keys : Slot(m, k).mb \in {"none", "ours"}) =>
     /\ ~r.err
     /\ \A k \in Keys : Get(r.m, k) = (IF Get(m, k) # NoVal THEN Get(m, k) ELSE Get(o, k))
     \* marks of self are never lost; marks of other arrive together with a value that is taken
     \* (or with the whole slot if self had none) - not when self's own value is kept
     /\ \A k \in Keys : IsUsed(m, k) => IsUsed(r.m, k)
     /\ \A k \in Keys : IsRequired(m, k) => IsRequired(r.m, k)
     /\ \A k \in Keys : (Get(m, k) = NoVal /\ Slot(o, k).present) =>
                            (IsUsed(r.m, k) = (IsUsed(m, k) \/ IsUsed(o, k)) /\ IsRequired(r.m, k) = (IsRequired(m, k) \/ IsRequired(o, k)))
\* mutually exclusive keys: an error iff some key has a value on both sides
ExclLaw(m, o) ==
  LET r == Merge(m, o) IN
  (m.dmb = "excl" /\ \A k \in Keys : Slot(m, k).mb \in {"none", "excl"}) =>
     (r.err <=> \E k \in Keys : Get(m, k) # NoVal /\ Get(o, k) # NoVal)
\* the documentation of Theirs ("if a value in other is_some(), it overwrites the value in self")
\* - NOT what the code does when other has the key without a value; kept as a named deviation
TheirsDoc(m, o) ==
  LET r == Merge(m, o) IN
  (m.dmb = "theirs" /\ \A k \in Keys : Slot(m, k).mb \in {"none", "theirs"}) =>
     \A k \in Keys : Get(r.m, k) = (IF Get(o, k) # NoVal THEN Get(o, k) ELSE Get(m, k))
=============================================================================
