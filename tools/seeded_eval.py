#!/usr/bin/env python3
"""tools/seeded_eval.py <slot> <seeded id> ... : run the quick check of each seeded change's
property (plus listed extra checks) against a scratch worktree with the change applied
(tools/mutrun.py) and record the outcome in seeded/<id>/meta.json (caught_by / missed_by)."""
import json
import re
import subprocess
import sys

EXTRA = {"C14-m3": ["C18"], "C11-m3": ["C13"], "C04-m1": ["C01"], "C04-m2": ["C01"], "C04-m3": ["C16"],
         "C13-m4": ["C18"], "C13-m5": ["C08", "C05"], "C15-m5": ["C18"], "C06-m4": ["C05"], "C04-m4": ["C17"],
         "C13-m8": ["C18"], "C14-m9": ["C13"], "C10-m9": ["C20"], "C09-m9": ["C11", "C13"], "C15-m9": ["C18"]}
slot = sys.argv[1]
for sid in sys.argv[2:]:
    mp = "/verif/seeded/%s/meta.json" % sid
    meta = json.load(open(mp))
    checks = [meta["property"]] + EXTRA.get(sid, [])
    p = subprocess.run(["python3", "/verif/tools/mutrun.py", slot, meta["property"], "/verif/seeded/%s/patch.diff" % sid] + checks,
                       stdout=subprocess.PIPE, stderr=subprocess.STDOUT, text=True)
    caught, missed = [], []
    for line in p.stdout.splitlines():
        m = re.match(r"MUT \S+ \S+ check=(\S+) exit=(\d+) violations=(\d+) ?(.*)", line)
        if not m:
            continue
        if m.group(2) == "1":
            caught.append(dict(check=m.group(1), tier="quick", violations=int(m.group(3)), first=m.group(4)[:300]))
        else:
            missed.append(dict(check=m.group(1), tier="quick", exit=int(m.group(2))))
    import os
    if os.environ.get("RESULT_FILE"):
        # a robustness run (e.g. another VERIF_SEED): record separately, leave meta.json alone
        with open(os.environ["RESULT_FILE"], "a") as f:
            f.write(json.dumps(dict(id=sid, seed=os.environ.get("VERIF_SEED", "1"), caught=[c["check"] for c in caught],
                                    missed=[c["check"] for c in missed])) + "\n")
    else:
        meta["caught_by"] = caught
        meta["missed_by"] = missed
        json.dump(meta, open(mp, "w"), indent=1)
    print(sid, "caught by", [c["check"] for c in caught], "missed by", [c["check"] for c in missed], flush=True)
