#!/usr/bin/env python3
"""search seeded-random grammars whose Pager run leaves unreachable states (gc does real work)"""
import json, subprocess, sys, os
sys.path.insert(0, '/verif')
from lib import gen
found = []
for batch in range(int(sys.argv[1]), int(sys.argv[2])):
    fam = gen.family(900000 + batch, 2000, ["mix", "det", "conflict", "wild", "rec"])
    jobs = [dict(id=g["id"], y=g["y"], kind="original", width=32, sections=["pager", "graph"], inputs={}, recovery="off", iseed=1, budget_ms=100) for g in fam]
    json.dump(dict(seed=1, instances=jobs, workers=12), open('/verif/work/gcsearch/j%d.json' % batch, 'w'))
    subprocess.run(['/verif/harness/target/debug/vh', 'lr', '/verif/work/gcsearch/j%d.json' % batch, '/verif/work/gcsearch/o%d.ndjson' % batch], check=True)
    cur = None; pre = None
    for line in open('/verif/work/gcsearch/o%d.ndjson' % batch):
        if line.startswith('{"ev":"reset"'):
            cur = json.loads(line); pre = None
        elif line.startswith('{"ev":"pregc"'):
            pre = json.loads(line)["n"]
        elif line.startswith('{"ev":"graph"') and pre is not None:
            n = int(line.split('"n":')[1].split(',')[0])
            if n != pre:
                found.append(dict(y=cur["y"], pre=pre, n=n))
    os.remove('/verif/work/gcsearch/o%d.ndjson' % batch)
    print(batch, len(found), flush=True)
json.dump(found, open('/verif/work/gcsearch/found.json', 'w'), indent=1)
