#!/bin/bash
# every thorough check once on the unchanged tree
(cd harness && cargo build --offline --quiet) || exit 2
for p in "$@"; do
  s=$(date +%s)
  out=$(./check $p --tier thorough 2>&1); rc=$?
  echo "THOROUGH $p rc=$rc wall=$(( $(date +%s) - s ))s $(echo "$out" | grep -c '^VIOLATION') $(echo "$out" | grep -m1 -A1 '^VIOLATION\|^TOOL' | tail -1 | cut -c1-300)"
done
