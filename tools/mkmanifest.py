#!/usr/bin/env python3
"""(re)generate /verif/MANIFEST.json from the table below"""
import json
import subprocess

TV = "Every instance of a catalogue + seeded-random family is run through the real crates (rebuilt from /repo's working tree with the hooks on); the recorded behaviour (NDJSON) is consumed event by event by a TLA+ trace specification, which evaluates the property's meaning-layer definitions on every state / cell / step; the design itself is model-checked exhaustively in a bounded model where one exists. Bounded, but with an oracle that is independent of the code and applied to everything observed."
CLAIMED = {
 "C01": ("tlc-trace", "TLC trace validation (spec/TraceLR.tla): LR(1) certificate on the implementation's automaton, table cells re-derived with Yacc's rules, parses re-run on LRParse.tla, language oracle from derivations and the canonical LR(1) parser; bounded model MC_Pager.tla (every successor order -> table -> every input up to length L); the compile-time route: the parser a build over a used output directory leaves in place is the current grammar's (TraceCT.tla, PROP=C01)", "5 C01"),
 "C02": ("tlc-trace", "TLC replay of recorded Pager decisions (pick/exact/merge/new) through Pager.tla actions and gc; canonical LR(1) collection and parser as oracle; bounded model MC_Pager.tla (Pager under every successor order; LALR merging refuted)", "5 C02"),
 "C03": ("tlc-trace", "TLC re-derivation of every table cell and conflict list with StateTable.YaccCell; production precedence from the source's %prec; %expect rule via build histories on CTBuild.tla; bounded model MC_StateTable.tla (cell filling under every order of the candidate reductions = YaccCell)", "5 C03"),
 "C04": ("tlc-trace", "TLC trace validation of error positions against first-non-prefix (derivations) and the canonical LR(1) parser", "5 C04"),
 "C05": ("tlc-trace", "TLC trace validation: reported repairs applied on the specification's LR machine; recover_in / recover_out hook events against the replay of the first repair; bounded model MC_CPCT.tla (the CPCT+ algorithm as coded against the reference search, two wrong variants refuted)", "5 C05"),
 "C06": ("tlc-trace", "TLC trace validation: reported repair set against the exhaustive minimum-cost reference search CPCTPlus.RefRepairs; ranking laws; bounded model MC_CPCT.tla (buckets, node merging, first-success cut-off and sweep, unfolding, ranking = RefRepairs for every erroneous input)", "5 C06"),
 "C07": ("tlc-trace", "TLC trace validation of the error-list / outcome laws on long erroneous inputs; non-returning parses observed through a killed child process; bounded model MC_Recover.tla (the parse loop with recovery as a state machine, every input up to length L, any minimum-cost repair applied)", "5 C07"),
 "C08": ("tlc-trace", "TLC trace validation: reduce callbacks (order, arguments, span, parameter) against LRParse.tla; generic-tree mode against action mode", "5 C08"),
 "C09": ("tlc-lexer", "TLC bounded model of Lexer.tla over every small definition x every match environment + trace validation of lrlex runs with the regex engine as environment (under the flags the document asks for: a family of flag documents, section and builder); the generated (compile-time) lexers of the start-state machines against the run-time lexer (TraceCTRT.tla, PROP=C09)", "5 C09"),
 "C10": ("tlc-src", "TLC evaluation of YaccSrc.GrammarOf(document) against every accessor of the parsed grammar, over seeded-random documents in several renderings (layout, comments, quoting, declaration order; Original / Grmtools / Eco); second route from the rendered text alone: YaccParse.tla (text -> AST) and AstGrammar.tla (AST -> grammar object) predicted exactly (TraceYaccParse.tla); grammar objects at the edge of a narrow index type (TraceWidth.tla, PROP=C10)", "5 C10"),
 "C11": ("tlc-src", "TLC evaluation of LexSrc.LexerDefOf(document) (rules, start states, targets, Unescape, spans) and of lexing under the flags the document puts in force; every CTLexerBuilder flag setter against the run-time lexer (TraceCTRT.tla); MarkMap.tla (header/settings map and merge operator: bounded model of the merge laws + trace validation of random operation sequences)", "5 C11"),
 "C12": ("tlc-src", "TLC evaluation of the outcome contract (Totality.tla) on every outcome of the section / Yacc / lex parsers over mutated specifications, each run in a killable child process; the three parsers transcribed (Header.tla, LexParse.tla, YaccParse.tla): trace specifications predict every recorded outcome exactly (AST / lexer definition / section, all spans, errors in order), bounded models check termination and the contract on every short text; the rendering of every reported error and warning by the diagnostics formatter predicted exactly (Diagnostics.tla / TraceDiag)", "5 C12"),
 "C13": ("tlc-ctrt", "translation validation: generated modules compiled by rustc and run next to the run-time pipeline; TLC compares lexemes, recorded action values / trees and errors with repair sets (TraceCTRT.tla); the module a build over a used output directory leaves in place = the clean build's (CTBuild.tla / TraceCT.tla, PROP=C13)", "5 C13"),
 "C14": ("tlc-pipe", "TLC trace validation of the stutter law Pipeline.Reconstitute on full observations before / after wincode serialise + _reconstitute, all widths and both encodings; compiled generated parsers (both formats) reconstituting at start-up against the run-time parser (TraceCTRT.tla); builds over a used output directory (TraceCT.tla, PROP=C14)", "5 C14"),
 "C15": ("tlc-pipe", "TLC: OnceInit.tla (all interleavings of first use; safety for any number of threads by TLAPS, OnceInitProof.tla) + trace validation of Pipeline.BuildDeterministic over K independent processes, generated parser / lexer / token-map modules (token maps predicted exactly by TokenMap.tla), 8-thread first use of compiled generated parsers, and builds over a used output directory against clean builds (TraceCT.tla, PROP=C15)", "5 C15"),
 "C16": ("tlc-trace", "TLC evaluation of view / graph consistency on every state x token x rule of the dumped graph and table", "5 C16"),
 "C17": ("tlc-trace", "TLC comparison of FIRST / FOLLOW / nullable / path / cost queries with declarative least fixed points; rule_min_costs transcribed to characterise non-termination", "5 C17"),
 "C18": ("tlc-ctbuild", "TLC bounded model of CTBuild.tla (all histories to a depth; the parser builder's part for histories of any length by TLAPS, CTBuildProof.tla) + trace validation of build histories run on the real builders, one process per build, against clean builds", "5 C18"),
 "C19": ("tlc-nlc", "TLC bounded model of NewlineCache.tla + Diagnostics.tla (all texts x chunkings x queries x spans; the rendering loop as coded = the rendering defined on the line structure) + trace validation of the real cache, lexers and diagnostics formatter (every span rendered) over the same exhaustive family and random texts", "5 C19"),
 "C20": ("tlc-width", "TLC bounded model of the width guards (Width.tla) + trace validation of u8/u16/u32 builds of grammars sitting in the 2^8 / 2^16 windows; the guard lemma for all natural counts by Apalache (WidthApa.tla, length 0) and as a TLAPS theorem (WidthProof.tla)", "5 C20"),
}
ENGINES = [
 dict(name="tlc-trace", path="/verif/spec/TraceLR.tla", kind_free_text="TLA+ modules Grammar, Analyses, LR1, Pager, StateTable, LRParse, CPCTPlus, CanonTable + trace specification TraceLR and bounded models MC_Pager, MC_CPCT, MC_Recover, checked with TLC against NDJSON recorded by harness/vh (lr) from the real crates"),
 dict(name="tlc-lexer", path="/verif/spec/Lexer.tla", kind_free_text="Lexer.tla, MC_Lexer (bounded model), TraceLex (trace specification)"),
 dict(name="tlc-ctbuild", path="/verif/spec/CTBuild.tla", kind_free_text="CTBuild.tla, MC_CTBuild (bounded model), CTBuildProof.tla (TLAPS: any history length), TraceCT (trace specification) over histories run by vh ctstep"),
 dict(name="tlc-nlc", path="/verif/spec/NewlineCache.tla", kind_free_text="NewlineCache.tla, Diagnostics.tla, MC_NewlineCache, TraceNLC"),
 dict(name="tlc-width", path="/verif/spec/Width.tla", kind_free_text="Width.tla, MC_Width, TraceWidth; WidthApa.tla (Apalache), WidthProof.tla (TLAPS)"),
 dict(name="tlc-src", path="/verif/spec/YaccSrc.tla", kind_free_text="YaccSrc.tla, LexSrc.tla, Totality.tla, Header.tla, LexParse.tla, YaccParse.tla, MarkMap.tla with trace specifications TraceYSrc, TraceLSrc, TraceTotal, TraceDiag, TraceHeader, TraceLexParse, TraceYaccParse, TraceMarkMap and bounded models MC_Header, MC_LexParse, MC_YaccParse, MC_MarkMap over documents generated by lib/genyacc.py, lib/genlex.py, lib/p_hdr.py and their mutants"),
 dict(name="tlc-ctrt", path="/verif/spec/TraceCTRT.tla", kind_free_text="generated crate (lib/p_ctrt.py) + TraceCTRT.tla"),
 dict(name="tlc-pipe", path="/verif/spec/Pipeline.tla", kind_free_text="Pipeline.tla, OnceInit.tla, OnceInitProof.tla (TLAPS), TokenMap.tla, TracePipe.tla"),
]
LEVEL = {"C13": "translation_validation", "C14": "exploration"}
LEVELTEXT = {
 "C13": "Translation validation: for every generated grammar/lexer pair the builders' output is compiled by rustc and executed next to the run-time pipeline on generated inputs; the observations (lexemes, a value that records every reduction with $span / $k / $lexer / $$, errors with repair sets) must coincide, judged by the trace specification TraceCTRT.tla.",
 "C14": "Exploration with the specification's projection as oracle: the stutter law Pipeline.Reconstitute is checked by TLC on the full observation (every accessor, every cell, views, conflicts, parses) before and after serialise + reconstitute, for generated grammars x {u8,u16,u32} x {fixed, variable}. Encode/decode fidelity is not something a state model adds depth to, hence the level.",
}
NA_REASON = "check not built yet (planned in DESIGN.md section 8; nothing is claimed for it until it exists)"


def main():
    props = [json.loads(l) for l in open('/verif/properties.jsonl')]
    hooks = subprocess.check_output(["git", "-C", "/repo", "log", "--format=%h %s"], text=True).splitlines()
    hook_commits = [l.split()[0] for l in hooks if l.split(" ", 1)[1].startswith("verif hook")]
    checks = []
    for p in props:
        pid = p["id"]
        if pid not in CLAIMED:
            continue
        eng, tech, ref = CLAIMED[pid]
        checks.append(dict(property_id=pid, quick_cmd="./check %s --tier quick" % pid, thorough_cmd="./check %s --tier thorough" % pid,
                           evidence_file="/verif/evidence/%s.json" % pid, replay_cmd_template="./check %s --replay {path}" % pid,
                           engine=eng, level_claimed=dict(category=LEVEL.get(pid, "model_checking"), text=LEVELTEXT.get(pid, TV), design_ref="DESIGN.md section " + ref),
                           level_note="trusted: TLC, the harness reporting the public API / hooks faithfully, the regex crate, rustc, the file system; bounds and instance families are stated in each evidence file",
                           technique=tech))
    for e in ENGINES:
        e["serves_properties"] = sorted(k for k, v in CLAIMED.items() if v[0] == e["name"])
    na = [dict(property_id=p["id"], reason=NA_REASON) for p in props if p["id"] not in CLAIMED]
    m = dict(version=1,
             setup_cmd="cd /verif/harness && cargo build --offline --quiet && cd /verif && python3 -c 'import lib.core'",
             hooks=dict(guard="--cfg grmtools_verif",
                        enable="harness/.cargo/config.toml passes rustflags --cfg grmtools_verif (and --check-cfg) to the whole build, including the path dependencies on /repo",
                        baseline_off_cmd="cd /repo && (cargo nextest run --workspace --no-fail-fast --offline --test-threads 8 || cargo test --workspace --no-fail-fast --offline)",
                        source_commits=hook_commits, add_only=True),
             engines=ENGINES, checks=checks, not_applicable=na,
             notes="See DESIGN.md. known_findings.json lists recorded defects (open) and repaired ones (fixed: <commit>).")
    json.dump(m, open('/verif/MANIFEST.json', 'w'), indent=1)
    print(len(checks), "claimed;", len(na), "not applicable; hook commits", hook_commits)


main()
