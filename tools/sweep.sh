#!/bin/bash
# seed sweep of the quick checks on the unchanged tree: any VIOLATION or exit != 0 is a false alarm
(cd harness && cargo build --offline --quiet) || exit 2
for s in "$@"; do
  for p in C01 C02 C03 C04 C05 C06 C07 C08 C09 C10 C11 C12 C13 C14 C15 C16 C17 C18 C19 C20; do
    out=$(VERIF_SEED=$s ./check $p --tier quick 2>&1); rc=$?
    echo "SWEEP seed=$s $p rc=$rc $(echo "$out" | grep -c '^VIOLATION') $(echo "$out" | grep -m1 -A1 '^VIOLATION' | tail -1 | cut -c1-200)"
  done
done
