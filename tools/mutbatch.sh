#!/bin/bash
# usage: mutbatch.sh <slot> <pid> [check ids...]  - evaluate all mutants of <pid> found under /tmp/seed/out/<pid>
slot=$1; pid=$2; shift; shift
for d in ${SEED_OUT:-/tmp/seed/out}/$pid/m*/; do
  [ -f $d/patch.diff ] || continue
  python3 /verif/tools/mutrun.py $slot $pid $d/patch.diff "$@" >> /tmp/mut/results.log 2>&1
done
echo "BATCH-DONE $pid" >> /tmp/mut/results.log
