#!/usr/bin/env python3
"""Collect the confirmed seeded changes into /verif/seeded/<id>-mN/ (patch.diff regenerated against
the current HEAD of /repo, the demonstration files, meta.json).  Reads the sub-agents' output under
/tmp/seed/out and my own confirmation records /tmp/mut/confirm.ndjson (+ the cttests-based ones
confirmed with /tmp/mut/confirm_ct.sh)."""
import glob
import json
import os
import shutil
import subprocess
import sys

WT = "/tmp/mut/a/repo"
OUT = "/verif/seeded"
conf = {}
for line in open("/tmp/mut/confirm.ndjson"):
    d = json.loads(line)
    conf[d["dir"].rstrip("/")] = d
CT = {"/tmp/seed/out/C13/m1": "seed_c13_m1", "/tmp/seed/out/C13/m2": "seed_c13_m2", "/tmp/seed/out/C13/m3": "seed_c13_m3", "/tmp/seed/out/C11/m3": "seed_demo",
      "/tmp/seed/out2/C13/m2": "seed_demo", "/tmp/seed/out2/C13/m3": "seed_demo",
      "/tmp/seed/out3/C13/m1": "seed_demo", "/tmp/seed/out3/C13/m3": "seed_demo",
      "/tmp/seed/out6/C13/m1": "seed_demo", "/tmp/seed/out6/C09/m3": "seed_demo", "/tmp/seed/out3/C18/m1": "seed_demo_m1 (package lrlex)", "/tmp/seed/out3/C18/m2": "seed_demo_m2 (package lrlex)", "/tmp/seed/out3/C18/m3": "seed_demo_m3 (package lrlex)"}
head = subprocess.check_output(["git", "-C", "/repo", "rev-parse", "HEAD"], text=True).strip()
if not os.path.isdir(WT):
    os.makedirs(os.path.dirname(WT), exist_ok=True)
    subprocess.run(["git", "-C", "/repo", "worktree", "add", "-f", "--detach", WT, "HEAD"], check=True)
SRC = os.environ.get("SEED_OUT", "/tmp/seed/out")
OFFSET = int(os.environ.get("SEED_OFFSET", "0"))
for d in sorted(glob.glob(SRC + "/C*/m[0-9]*")):
    if not os.path.exists(d + "/patch.diff"):
        continue
    pid, m = d.split("/")[-2:]
    if os.environ.get("SEED_ONLY") and pid not in os.environ["SEED_ONLY"].split(","):
        continue
    m = "m%d" % (int(m[1:]) + OFFSET)
    c = conf.get(d)
    if c is None:
        print("not confirmed:", d)
        continue
    ok = c["applies"] and c["suite_passes"] and (c.get("demo_fails_with_change") and c.get("demo_passes_without") or d in CT)
    if not ok:
        print("not confirmed:", d, c)
        continue
    subprocess.run(["git", "-C", WT, "checkout", "-q", "--detach", head], check=True)
    subprocess.run(["git", "-C", WT, "reset", "-q", "--hard", head], check=True)
    subprocess.run(["git", "-C", WT, "clean", "-fdq", "-e", "target"], check=True)
    r = subprocess.run(["git", "-C", WT, "apply", d + "/patch.diff"])
    if r.returncode != 0:
        r = subprocess.run(["git", "-C", WT, "apply", "--3way", d + "/patch.diff"])
        if r.returncode != 0:
            print("does not apply any more:", d)
            continue
    diff = subprocess.check_output(["git", "-C", WT, "diff", "HEAD"], text=True)
    subprocess.run(["git", "-C", WT, "reset", "-q", "--hard", head], check=True)
    o = os.path.join(OUT, "%s-%s" % (pid, m))
    shutil.rmtree(o, ignore_errors=True)
    os.makedirs(o + "/demonstration")
    open(o + "/patch.diff", "w").write(diff)
    for f in os.listdir(d):
        if f.endswith((".rs", ".test", ".sh")) or f == "RUN.md":
            shutil.copy(os.path.join(d, f), o + "/demonstration/" + f)
    am = json.load(open(d + "/meta.json"))
    ran = ["git apply patch.diff in a scratch worktree of /repo at %s" % c.get("head", head)[:12],
           "cargo test --workspace --offline: passes with the change",
           ]
    if d in CT:
        ran.append("cttests-based demonstration (demonstration/RUN.md; cargo test --offline -p lrpar-tests --test %s): fails with the change (exit 101), passes without" % CT[d])
    else:
        ran.append("%s: fails with the change, passes without" % c.get("demo_cmd"))
    meta = dict(property=pid, id="%s-%s" % (pid, m), files=c.get("files") or am.get("files"), summary=am.get("summary"),
                needs_to_manifest=am.get("needs"), what_i_ran=ran, patch_applies_to=head, caught_by=[])
    json.dump(meta, open(o + "/meta.json", "w"), indent=1)
    print("kept", o)
