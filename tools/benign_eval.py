#!/usr/bin/env python3
"""tools/benign_eval.py <slot> <dir with patch.diff + meta.json> ...
Property-PRESERVING changes (refactorings written by sub-agents): confirm each (applies, the whole
existing suite passes with it), then run the quick checks of every property whose code it touches
against a scratch worktree with the change applied.  Any VIOLATION / tool error is an alarm to be
looked into (a check that demands more than its property, or a change that is not benign after
all).  Appends one JSON line per change to /tmp/mut/benign.ndjson."""
import json
import os
import re
import subprocess
import sys

MAP = [("cfgrammar/src/lib/yacc/parser", ["C10", "C12", "C15"]), ("cfgrammar/src/lib/yacc/ast", ["C10", "C12", "C15"]),
       ("cfgrammar/src/lib/yacc/grammar", ["C10", "C12", "C15", "C17", "C20", "C14", "C01"]),
       ("cfgrammar/src/lib/yacc/firsts", ["C17", "C01", "C16"]), ("cfgrammar/src/lib/yacc/follows", ["C17"]),
       ("cfgrammar/src/lib/header", ["C12", "C11", "C18"]), ("cfgrammar/src/lib/markmap", ["C11", "C18"]),
       ("cfgrammar/src/lib/newlinecache", ["C19", "C12"]), ("cfgrammar/src/lib/span", ["C12", "C19"]),
       ("lrtable/src/lib/pager", ["C01", "C02", "C16", "C15", "C04"]), ("lrtable/src/lib/itemset", ["C01", "C02", "C16", "C15"]),
       ("lrtable/src/lib/stategraph", ["C02", "C16", "C15", "C20"]), ("lrtable/src/lib/statetable", ["C03", "C16", "C01", "C15", "C14", "C20"]),
       ("lrpar/src/lib/parser", ["C04", "C05", "C07", "C08", "C13", "C19"]), ("lrpar/src/lib/cpctplus", ["C05", "C06", "C07"]),
       ("lrpar/src/lib/dijkstra", ["C05", "C06", "C07"]), ("lrpar/src/lib/ctbuilder", ["C13", "C14", "C15", "C18", "C03"]),
       ("lrpar/src/lib/diagnostics", ["C19", "C12"]), ("lrpar/src/lib/lex_api", ["C09", "C19"]),
       ("lrlex/src/lib/lexer", ["C09", "C11", "C13", "C19"]), ("lrlex/src/lib/parser", ["C11", "C12", "C09"]),
       ("lrlex/src/lib/ctbuilder", ["C18", "C15", "C13", "C11"])]

slot = sys.argv[1]
for d in sys.argv[2:]:
    d = d.rstrip("/")
    if not (os.path.exists(d + "/meta.json") and os.path.exists(d + "/patch.diff")):
        print("skipped (incomplete):", d, flush=True)
        continue
    meta = json.load(open(d + "/meta.json"))
    pid = meta["property"]
    patch = d + "/patch.diff"
    files = re.findall(r"^\+\+\+ b/(\S+)", open(patch).read(), re.M)
    checks = [pid]
    for pre, cs in MAP:
        if any(f.startswith(pre) for f in files):
            checks += [c for c in cs if c not in checks]
    rec = dict(dir=d, property=pid, files=files, checks=checks)
    wt = "/tmp/mut/%s/repo" % slot
    # confirm: applies + suite passes (mutrun resets the worktree itself; do the same here)
    head = subprocess.check_output(["git", "-C", "/repo", "rev-parse", "HEAD"], text=True).strip()
    if not os.path.isdir(wt):
        subprocess.run(["git", "-C", "/repo", "worktree", "add", "-f", "--detach", wt, "HEAD"], check=True, stdout=subprocess.DEVNULL, stderr=subprocess.DEVNULL)
    subprocess.run("git checkout -q --detach %s && git reset -q --hard && git clean -fdq -e target" % head, shell=True, cwd=wt)
    a = subprocess.run(["git", "apply", patch], cwd=wt, stdout=subprocess.PIPE, stderr=subprocess.STDOUT, text=True)
    rec["applies"] = a.returncode == 0
    if a.returncode != 0:
        rec["apply_out"] = a.stdout[-300:]
        print(json.dumps(rec), flush=True)
        open("/tmp/mut/benign.ndjson", "a").write(json.dumps(rec) + "\n")
        continue
    t = subprocess.run("cargo test --workspace --offline >/tmp/mut/%s/suite.log 2>&1; echo rc=$?" % slot, shell=True, cwd=wt, stdout=subprocess.PIPE, text=True)
    rec["suite_passes"] = "rc=0" in t.stdout
    subprocess.run("git reset -q --hard", shell=True, cwd=wt)
    p = subprocess.run(["python3", "/verif/tools/mutrun.py", slot, pid, patch] + checks, stdout=subprocess.PIPE, stderr=subprocess.STDOUT, text=True)
    rec["results"] = []
    for line in p.stdout.splitlines():
        m = re.match(r"MUT \S+ \S+ check=(\S+) exit=(\d+) violations=(\d+) ?(.*)", line)
        if m:
            rec["results"].append(dict(check=m.group(1), exit=int(m.group(2)), violations=int(m.group(3)), first=m.group(4)[:300]))
    rec["alarms"] = [r["check"] for r in rec["results"] if r["exit"] != 0]
    print(json.dumps(rec), flush=True)
    open("/tmp/mut/benign.ndjson", "a").write(json.dumps(rec) + "\n")
