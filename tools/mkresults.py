#!/usr/bin/env python3
"""Regenerate seeded/RESULTS.md from the meta.json files (written by tools/seeded_eval.py)."""
import glob
import json
import os
import re

rows = []
own = cross = missed = 0
for mp in sorted(glob.glob("/verif/seeded/C*-m*/meta.json"), key=lambda p: (p.split("/")[-2].split("-")[0], int(re.search(r"-m(\d+)", p).group(1)))):
    m = json.load(open(mp))
    sid = mp.split("/")[-2]
    files = ", ".join(sorted(set(os.path.basename(f) for f in (m.get("files") or []))))
    caught = m.get("caught_by") or []
    miss = [x["check"] for x in (m.get("missed_by") or [])]
    if any(c["check"] == m["property"] for c in caught):
        own += 1
    elif caught:
        cross += 1
    else:
        missed += 1
    rows.append("| %s | %s | %s | %s |" % (sid, files, ", ".join("%s (%d)" % (c["check"], c["violations"]) for c in caught), ", ".join(miss)))
with open("/verif/seeded/RESULTS.md", "w") as f:
    f.write("| seeded change | file(s) touched | caught by quick check (violations reported) | not caught by |\n|---|---|---|---|\n")
    f.write("\n".join(rows) + "\n")
print(len(rows), "changes;", own, "caught by own check;", cross, "only by another property's check;", missed, "missed")
