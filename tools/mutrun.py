#!/usr/bin/env python3
"""Evaluate seeded changes: tools/mutrun.py <slot> <pid> <patch.diff> [<check pid> ...]
Applies the patch to a scratch worktree of /repo (/tmp/mut/<slot>/repo), builds a copy of the harness
against it and runs the quick check(s); prints one line per check.  /repo itself is untouched."""
import os
import shutil
import subprocess
import sys

slot, pid, patch = sys.argv[1], sys.argv[2], sys.argv[3]
checks = sys.argv[4:] or [pid]
base = "/tmp/mut/%s" % slot
repo = base + "/repo"
har = base + "/harness"
os.makedirs(base, exist_ok=True)
if not os.path.isdir(repo):
    subprocess.run(["git", "-C", "/repo", "worktree", "add", "-f", "--detach", repo, "HEAD"], check=True, stdout=subprocess.DEVNULL, stderr=subprocess.DEVNULL)
subprocess.run(["git", "-C", repo, "checkout", "-q", "--detach", subprocess.check_output(["git", "-C", "/repo", "rev-parse", "HEAD"], text=True).strip()], check=True)
subprocess.run(["git", "-C", repo, "reset", "-q", "--hard", "HEAD"], check=True)
subprocess.run(["git", "-C", repo, "clean", "-fdq", "-e", "target"], check=True)
r = subprocess.run(["git", "-C", repo, "apply", patch], stdout=subprocess.PIPE, stderr=subprocess.STDOUT, text=True)
if r.returncode != 0:
    r = subprocess.run(["git", "-C", repo, "apply", "--3way", patch], stdout=subprocess.PIPE, stderr=subprocess.STDOUT, text=True)
    if r.returncode != 0:
        print("MUT %s %s APPLY-FAILED %s" % (pid, patch, r.stdout.strip()[:200]))
        sys.exit(0)
if not os.path.isdir(har):
    os.makedirs(har)
for f in ("Cargo.toml", "Cargo.lock"):
    s = open("/verif/harness/" + f).read()
    if f == "Cargo.toml":
        s = s.replace('"/repo/', '"%s/' % repo)
    open(har + "/" + f, "w").write(s)
shutil.rmtree(har + "/src", ignore_errors=True)
shutil.copytree("/verif/harness/src", har + "/src")
shutil.rmtree(har + "/.cargo", ignore_errors=True)
shutil.copytree("/verif/harness/.cargo", har + "/.cargo")
env = dict(os.environ, VERIF_REPO_DIR=repo, VERIF_HARNESS_DIR=har, VERIF_WORK_DIR=base + "/work", VERIF_EVID_DIR=base + "/evidence")
for c in checks:
    p = subprocess.run(["/verif/check", c, "--tier", "quick"], cwd="/verif", env=env, stdout=subprocess.PIPE, stderr=subprocess.STDOUT, text=True)
    viol = [l for l in p.stdout.splitlines() if l.startswith("VIOLATION")]
    first = ""
    lines = p.stdout.splitlines()
    for i, l in enumerate(lines):
        if l.startswith("VIOLATION") and i + 1 < len(lines):
            first = lines[i + 1].strip()[:160]
            break
    if p.returncode == 2:
        first = p.stdout.strip()[-300:].replace("\n", " | ")
    print("MUT %s %s check=%s exit=%d violations=%d %s" % (pid, patch.replace("/tmp/seed/out/", ""), c, p.returncode, len(viol), first), flush=True)
subprocess.run(["git", "-C", repo, "reset", "-q", "--hard", "HEAD"], check=True)
