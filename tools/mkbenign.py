#!/usr/bin/env python3
"""Collect the property-preserving changes (sub-agents' refactorings) and what the checks said about
them into /verif/benign/<id>-bN/ (patch.diff, meta.json) and /verif/benign/RESULTS.md."""
import json
import os
import shutil

OUT = "/verif/benign"
rows = []
seen = {}
for l in open("/tmp/mut/benign.ndjson"):
    d = json.loads(l)
    seen[d["dir"]] = d
for d, r in sorted(seen.items()):
    if not (r.get("applies") and r.get("suite_passes")):
        print("not confirmed here (left out):", d)
        continue
    pid, b = d.rstrip("/").split("/")[-2:]
    o = os.path.join(OUT, "%s-%s" % (pid, b))
    shutil.rmtree(o, ignore_errors=True)
    os.makedirs(o)
    shutil.copy(d + "/patch.diff", o + "/patch.diff")
    am = json.load(open(d + "/meta.json"))
    meta = dict(property=pid, id="%s-%s" % (pid, b), files=r.get("files"), summary=am.get("summary"), why_preserved=am.get("why_preserved"),
                observable_differences=am.get("observable_differences"),
                what_i_ran=["git apply patch.diff in a scratch worktree of /repo", "cargo test --workspace --offline: %s" % ("passes" if r.get("suite_passes") else "FAILS"),
                            "quick checks " + " ".join(r.get("checks", [])) + " against the changed tree"],
                results=r.get("results"), alarms=r.get("alarms"))
    json.dump(meta, open(o + "/meta.json", "w"), indent=1)
    rows.append("| %s-%s | %s | %s | %s |" % (pid, b, ", ".join(sorted(set(os.path.basename(f) for f in r.get("files", [])))), " ".join(r.get("checks", [])),
                                             ", ".join(r.get("alarms") or []) or "none"))
with open(OUT + "/RESULTS.md", "w") as f:
    f.write("| property-preserving change | file(s) touched | quick checks run on the changed tree | alarms |\n|---|---|---|---|\n" + "\n".join(rows) + "\n")
print(len(rows), "changes;", sum(1 for r in seen.values() if r.get("alarms")), "with alarms")
