#!/usr/bin/env python3
"""Confirm seeded changes independently: tools/confirm.py <pid> ...
For every /tmp/seed/out/<pid>/mN: apply to a scratch worktree of /repo, run the whole existing
test suite (must pass), run the demonstration (must fail), undo the change, run the demonstration
again (must pass).  Appends one JSON line per mutant to /tmp/mut/confirm.ndjson."""
import glob
import json
import os
import re
import shutil
import subprocess
import sys

WT = "/tmp/mut/%s/repo" % os.environ.get("CONFIRM_SLOT", "c")


def sh(cmd, cwd=WT, timeout=3600):
    p = subprocess.run(cmd, cwd=cwd, shell=True, executable="/bin/bash", stdout=subprocess.PIPE, stderr=subprocess.STDOUT, text=True, timeout=timeout)
    return p.returncode, p.stdout


def main():
    os.makedirs(os.path.dirname(WT), exist_ok=True)
    if not os.path.isdir(WT):
        subprocess.run(["git", "-C", "/repo", "worktree", "add", "-f", "--detach", WT, "HEAD"], check=True, stdout=subprocess.DEVNULL, stderr=subprocess.DEVNULL)
    head = subprocess.check_output(["git", "-C", "/repo", "rev-parse", "HEAD"], text=True).strip()
    for pid in sys.argv[1:]:
        for d in sorted(glob.glob(os.environ.get("SEED_OUT", "/tmp/seed/out") + "/%s/m*/" % pid)):
            rec = dict(pid=pid, dir=d, head=head)
            sh("git checkout -q --detach %s && git reset -q --hard %s && git clean -fdq -e target" % (head, head))
            rc, out = sh("git apply %spatch.diff || git apply --3way %spatch.diff" % (d, d))
            rec["applies"] = rc == 0
            if rc != 0:
                rec["apply_out"] = out[-300:]
                print(json.dumps(rec), flush=True)
                open("/tmp/mut/confirm.ndjson", "a").write(json.dumps(rec) + "\n")
                continue
            changed = subprocess.check_output(["git", "-C", WT, "diff", "--name-only", "HEAD"], text=True).split()
            rec["files"] = changed
            rc, out = sh("cargo test --workspace --offline 2>&1 | tail -40")
            rc2, out2 = sh("cargo test --workspace --offline >/dev/null 2>&1; echo rc=$?")
            rec["suite_passes"] = "rc=0" in out2
            run = open(d + "RUN.md").read()
            m = re.search(r"([\w/]+/tests/seed_demo\.rs)", run)
            c = re.search(r"cargo test[^\n`]*?-p\s+([\w-]+)[^\n`]*", run)
            if m and c and os.path.exists(d + "seed_demo.rs") and not os.path.exists(d + "seed_demo.test"):
                dest = os.path.join(WT, m.group(1).lstrip("/").replace("tmp/seed/%s/" % pid, ""))
                if "/tmp/seed/" in m.group(1):
                    dest = os.path.join(WT, re.sub(r"^.*?/tmp/seed/\w+/", "", m.group(1)))
                os.makedirs(os.path.dirname(dest), exist_ok=True)
                shutil.copy(d + "seed_demo.rs", dest)
                cmd = "cargo test --offline -p %s --test seed_demo" % c.group(1)
                rc, out = sh(cmd + " 2>&1 | tail -15; exit ${PIPESTATUS[0]}")
                rec["demo_fails_with_change"] = rc != 0
                sh("git checkout -q -- " + " ".join(changed))
                rc, out = sh(cmd + " 2>&1 | tail -15; exit ${PIPESTATUS[0]}")
                rec["demo_passes_without"] = rc == 0
                rec["demo_cmd"] = cmd
                os.remove(dest)
            else:
                rec["demo"] = "not run automatically (non-standard instructions)"
            print(json.dumps(rec), flush=True)
            open("/tmp/mut/confirm.ndjson", "a").write(json.dumps(rec) + "\n")
    sh("git reset -q --hard %s && git clean -fdq -e target" % head)


main()
